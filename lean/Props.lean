import TM
import GM
import VM
import VD
import TH
