import TM
import GM
import VM
import VD
import TH
/-! # The property theorems C01 … C20

Only statements live here (each proved by the named lemma of the model libraries), so that they
cannot be weakened silently while a proof is being repaired.  `…_partial` marks a theorem that
covers only part of the property; the missing part is written next to it.  Each group ends with a
non-vacuity `example`: a concrete, non-trivial state that satisfies the hypotheses.

Conventions: traces are newest-first; *start* = dispatch / inline entry; *finish* = completion
observed by the scheduler (a node's real running interval lies inside [start, finish]). -/

namespace Props
open TM

/-! ## Scheduler properties (model: `TM.Step`, all 19 constructors; environment's completion choices,
    tie-breaking, activeness and failure of nodes are adversarial) -/

/-- C02: when a node starts, every dependency that takes part in the execution has finished or was deactivated. -/
theorem C02_deps_before_start (cfg : Cfg) (hnd : cfg.nodes.Nodup) {tr s} (hr : Run cfg tr s) :
    ∀ post l pre, tr = post ++ l :: pre → ∀ n, l.start = some n →
      ∀ p ∈ cfg.preds n, p ∈ cfg.nodes → p ∈ fins pre ∨ p ∈ skips pre :=
  TM.C02_deps_before_start cfg hnd hr

/-- C03: no node starts twice (also in runs that fail). -/
theorem C03_start_at_most_once (cfg : Cfg) (hnd : cfg.nodes.Nodup) {tr s} (hr : Run cfg tr s) :
    (starts tr).Nodup := TM.C03_start_at_most_once cfg hnd hr

/-- C03: only selected nodes start. -/
theorem C03_only_selected (cfg : Cfg) (hnd : cfg.nodes.Nodup) {tr s} (hr : Run cfg tr s) :
    ∀ n ∈ starts tr, n ∈ cfg.nodes := TM.C03_only_selected cfg hnd hr

/-- C03: at normal return every selected active node started exactly once, every inactive one never. -/
theorem C03_exactly_once_at_done (cfg : Cfg) (hnd : cfg.nodes.Nodup) {tr s} (hr : Run cfg tr s)
    (hd : s.pc = .done) : ∀ n ∈ cfg.nodes,
      (cfg.active n = true → (starts tr).count n = 1 ∧ n ∉ skips tr) ∧
      (cfg.active n = false → n ∉ starts tr ∧ (skips tr).count n = 1) :=
  TM.C03_exactly_once_at_done cfg hnd hr hd

/-- C04: never more than `max_concurrency` pooled nodes in flight. -/
theorem C04_inflight_le_maxc (cfg : Cfg) (hm : 0 < cfg.maxc) {tr s} (hr : Run cfg tr s) :
    s.conc.length + s.asyn.length ≤ cfg.maxc := TM.C04_inflight_le_maxc cfg hm hr

/-- C04 (resources decide the thread): every start recorded in a run happened where the node's resource
    says — `thread`: submitted to the pool; `async`: pool submission wrapped as an asyncio future; `main`:
    inline on the invoking thread, never in flight. -/
theorem C04_resource_decides (cfg : Cfg) {tr s} (hr : Run cfg tr s) :
    ∀ l ∈ tr, ∀ n r, l.place = some (n, r) → cfg.res n = r := TM.C04_resource_decides cfg hr

theorem C04_in_flight_sets_match_resource (cfg : Cfg) {tr s} (hr : Run cfg tr s) :
    (∀ x ∈ s.conc, cfg.res x = .thread) ∧ (∀ x ∈ s.asyn, cfg.res x = .async) := TM.C04_placed cfg hr

/-- C05: a node starts only while no sequential node is in flight; a sequential node only when nothing is. -/
theorem C05_sequential_exclusive (cfg : Cfg) {tr s l s'} (hr : Run cfg tr s) (hs : Step cfg s l s')
    {n} (hl : l.start = some n) :
    (∀ m ∈ s.flight, cfg.seq m = false) ∧ (cfg.seq n = true → s.flight = []) :=
  TM.C05_sequential_exclusive cfg hr hs hl

/-- C05 inside concurrent executions: in any interleaving of several executions, the next node an execution starts obeys the
    sequential rule with respect to the nodes in flight of THAT execution (the others are unconstrained). -/
theorem C05_inside_concurrent_executions {V : Type} [VM.PyVal V] (es : Nat → VM.Exec V) {tr σ} (h : VM.PRun es tr σ) (i : Nat)
    (hwf : VM.WF (es i).c) {l vs'} (hs : VM.VStep (es i).c (es i).a (σ i) l vs') {n : TM.Node} (hl : l.start = some n) :
    (∀ m ∈ (σ i).st.flight, (es i).a.seq m = false) ∧ ((es i).a.seq n = true → (σ i).st.flight = []) :=
  VM.C05_inside_concurrent_executions es h i hwf hs hl

/-- C06: the node that starts (or is skipped) is ready and no ready node has a greater compound
    priority — "ready" stated independently of the scheduler's own `runnable` variable. -/
theorem C06_best_ready (cfg : Cfg) (hnd : cfg.nodes.Nodup) {tr s l s'} (hr : Run cfg tr s)
    (hs : Step cfg s l s') {n} (hl : l.start = some n ∨ l = .skip n) :
    (isRoot cfg s.graph n ∧ n ∉ s.flight) ∧
    ∀ m, isRoot cfg s.graph m → m ∉ s.flight → cfg.cp m ≤ cfg.cp n :=
  TM.C06_best_ready cfg hnd hr hs hl

/-- C08 (partial): whenever the scheduler blocks, the blocking condition holds — for DAGs that do not
    mix thread and async-thread nodes.  The full statement (no hypothesis `hone`) is FALSE for the
    code as it is: see `C08_mixed_witness`; that is the recorded known finding. -/
theorem C08_partial (cfg : Cfg) (hone : NoAsync cfg ∨ NoThread cfg) {tr s s'} (hr : Run cfg tr s)
    {k m D} (hs : Step cfg s (.wait k m D) s') : BlockOK cfg s := TM.C08_partial cfg hone hr hs

/-- C08, negation witness: a reachable state of a mixed-resource DAG from which the scheduler blocks
    although a slot is free, a node is ready and nothing is sequential. -/
theorem C08_mixed_witness :
    Run wcfg [.wait .asyn .first [0], .tau, .dispatch 1 .conc, .tau, .dispatch 0 .asyn, .tau] w6 ∧
    (∃ s', Step wcfg w6 (.wait .conc .first [1]) s') ∧ ¬ BlockOK wcfg w6 :=
  ⟨TM.w_run, TM.w_blocks, TM.C08_mixed_witness⟩

/-- C09: every run is finite, with an explicit bound (no infinite execution, no spinning). -/
theorem C09_bound (cfg : Cfg) (hnd : cfg.nodes.Nodup) (hac : Acyclic cfg) (hm : 0 < cfg.maxc)
    {tr s} (hr : Run cfg tr s) : tr.length ≤ 32 * cfg.nodes.length + 12 := TM.C09_bound cfg hnd hac hm hr

/-- C09: no reachable live state is stuck (no deadlock), whatever the environment chooses. -/
theorem C09_progress (cfg : Cfg) (hnd : cfg.nodes.Nodup) {tr s} (hr : Run cfg tr s) (hlive : s.pc.live = true) :
    ∃ l s', Step cfg s l s' := TM.C09_progress cfg hnd hr hlive

/-- C09, the build-time cycle check is exact: the constructor's test (`TM.acyclicB`, Kahn peeling) accepts a
    table whose references stay inside it iff the table is acyclic — so `Acyclic` in `C09_bound` is what the
    constructor enforces, not an assumption about users. -/
theorem C09_build_check_exact (cfg : Cfg) (hclosed : ∀ n, n ∉ cfg.nodes → cfg.preds n = []) :
    acyclicB cfg.nodes cfg.preds = true ↔ Acyclic cfg :=
  ⟨TM.acyclicB_sound cfg hclosed, TM.acyclicB_complete cfg⟩

/-- C09: every cycle is refused at build time — any non-empty set of nodes of the table each of which has a
    predecessor in the set (a cycle of any length, a self-loop, a cycle from which no leaf is reachable). -/
theorem C09_every_cycle_refused (nodes : List Node) (preds : Node → List Node) (c : List Node) (hne : c ≠ [])
    (hsub : ∀ n ∈ c, n ∈ nodes) (hc : ∀ n ∈ c, ∃ p ∈ preds n, p ∈ c) : acyclicB nodes preds = false :=
  TM.acyclicB_false_of_cycle nodes preds c hne hsub hc

/-- C09 for every table the constructor accepts, traced or hand-built: at most `32·|nodes| + 12` steps. -/
theorem C09_accepted_table_terminates (cfg : Cfg) (hnd : cfg.nodes.Nodup)
    (hclosed : ∀ n, n ∉ cfg.nodes → cfg.preds n = []) (hchk : acyclicB cfg.nodes cfg.preds = true)
    (hm : 0 < cfg.maxc) {tr s} (hr : Run cfg tr s) : tr.length ≤ 32 * cfg.nodes.length + 12 :=
  TM.C09_accepted_table_terminates cfg hnd hclosed hchk hm hr

-- non-vacuity: the witness configuration of C08 passes the build check; a terminal 2-cycle below a root does not
example : acyclicB wcfg.nodes wcfg.preds = true := by decide
example : acyclicB [0, 1, 2] (fun n => match n with | 1 => [0, 2] | 2 => [1] | _ => []) = false := by decide

/-- C14: after a failure nothing happens any more. -/
theorem C14_err_terminal {cfg : Cfg} {s l s'} (e : Node) (h : s.pc = .err e) : ¬ Step cfg s l s' :=
  TM.C14_err_terminal e h

/-- C14: the run fails only because a started, active node failed (no internal error state). -/
theorem C14_err_is_node_failure (cfg : Cfg) (hnd : cfg.nodes.Nodup) {tr s} (hr : Run cfg tr s)
    (e : Node) (h : s.pc = .err e) : cfg.fails e = true ∧ e ∈ starts tr ∧ cfg.active e = true :=
  TM.C14_err_is_node_failure cfg hnd hr e h

/-- C14: every dependency of a started node finished *successfully* or was deactivated — so no direct
    or (along a path) transitive dependent of a failed node ever starts. -/
theorem C14_no_dependent_of_failed (cfg : Cfg) (hnd : cfg.nodes.Nodup) {tr s} (hr : Run cfg tr s) :
    ∀ post l pre, tr = post ++ l :: pre → ∀ n, l.start = some n →
      ∀ p ∈ cfg.preds n, p ∈ cfg.nodes →
        (cfg.fails p = false ∧ p ∈ fins pre) ∨ (cfg.active p = false ∧ p ∈ skips pre) :=
  TM.C14_no_dependent_of_failed cfg hnd hr

/-- C17(c) (partial): without thread-resource nodes the scheduler never executes the wait that blocks
    the event loop.  With mixed resources it does (`C17c_mixed_witness`): known finding. -/
theorem C17c_partial (cfg : Cfg) (hnt : NoThread cfg) {tr s s'} (hr : Run cfg tr s) {m D}
    (hs : Step cfg s (.wait .conc m D) s') : False := TM.C17c_partial cfg hnt hr hs

theorem C17c_mixed_witness : (∃ s', Step lcfg l6 (.wait .conc .first [2]) s') ∧ l6.asyn ≠ [] :=
  TM.C17c_mixed_witness

/-- the acceptor's successor function only offers real steps: an accepted trace is a `Run` -/
theorem acceptor_sound (cfg : Cfg) (s : St) (l : Label) (s' : St) (h : s' ∈ next cfg s l) : Step cfg s l s' :=
  TM.next_sound cfg s l s' h

/-- … and offers every step: the executable successor function IS the relation (no false rejection of a
    real trace because of a missing case, no false acceptance because of an extra one) -/
theorem acceptor_exact (cfg : Cfg) (s : St) (l : Label) (s' : St) : s' ∈ next cfg s l ↔ Step cfg s l s' :=
  TM.next_iff_step cfg s l s'

/-- soundness of trace acceptance as a whole (subset construction closed under silent steps): whatever
    state the acceptor is left with after the observations `obs` is reached by a run of the LTS whose
    labels are explained by exactly `obs` -/
theorem acceptance_sound (cfg : Cfg) (obs : List Obs) (s : St) (h : s ∈ accept cfg obs) :
    ∃ tr, Run cfg tr s ∧ Explains tr obs := TM.accept_sound cfg obs s h

/-- C07 (consequence): with `max_concurrency = 1` nothing is running when a node is picked, the remaining
    graph is exactly the selected nodes not yet finished or skipped, and the picked node is a
    compound-priority-maximal root of it — so the next node is a function of what has finished; with
    pairwise distinct compound priorities it is unique (`C07_pick_unique`): the order is reproducible. -/
theorem C07_next_pick_is_determined (cfg : Cfg) (hnd : cfg.nodes.Nodup) (hm : cfg.maxc = 1)
    {tr s l s'} (hr : Run cfg tr s) (hs : Step cfg s l s') {n} (hl : l.start = some n ∨ l = .skip n) :
    s.flight = [] ∧
    (∀ x, x ∈ s.graph ↔ (x ∈ cfg.nodes ∧ x ∉ fins tr ∧ x ∉ skips tr)) ∧
    isRoot cfg s.graph n ∧ (∀ m, isRoot cfg s.graph m → cfg.cp m ≤ cfg.cp n) :=
  TM.C07_next_pick_is_determined cfg hnd hm hr hs hl

theorem C07_pick_unique (cfg : Cfg) (hinj : ∀ a ∈ cfg.nodes, ∀ b ∈ cfg.nodes, cfg.cp a = cfg.cp b → a = b)
    (g : List Node) (hg : ∀ x ∈ g, x ∈ cfg.nodes) (n n' : Node)
    (h1 : isRoot cfg g n ∧ ∀ m, isRoot cfg g m → cfg.cp m ≤ cfg.cp n)
    (h2 : isRoot cfg g n' ∧ ∀ m, isRoot cfg g m → cfg.cp m ≤ cfg.cp n') : n = n' :=
  TM.C07_pick_unique cfg hinj g hg n n' h1 h2

-- non-vacuity: a concrete configuration with a run of six steps meets every hypothesis above
example : wcfg.nodes.Nodup ∧ 0 < wcfg.maxc ∧ Acyclic wcfg ∧
    Run wcfg [.wait .asyn .first [0], .tau, .dispatch 1 .conc, .tau, .dispatch 0 .asyn, .tau] w6 :=
  ⟨by decide, by decide, ⟨fun _ => 0, fun n p hp => by simp [wcfg] at hp⟩, TM.w_run⟩

/-! ## Graph properties -/
open GM

/-- C07: compound priority = own + each distinct descendant once, for every duplicate-free enumeration
    of the descendant set (hence independent of set iteration order / hash seed). -/
theorem C07_cp_is_own_plus_distinct_descendants (g : G) (hnd : g.nodes.Nodup)
    (ht : TopoL g.preds g.nodes) (prio : GM.Node → Int) (n : GM.Node) (hn : n ∈ g.nodes)
    (L : List GM.Node) (hL : L.Nodup) (hmem : ∀ x, x ∈ L ↔ Reach g n x) :
    cpAll g prio n = prio n + (L.map prio).sum :=
  GM.C07_cp_is_own_plus_distinct_descendants g hnd ht prio n hn L hL hmem

/-- C07 (history): the epoch algorithm of the pinned code was not this function (fixed in 808e982). -/
theorem C07_pinned_counts_paths :
    pinnedCP diamond (fun _ s => s) (fun n => match n with | 0 => 1 | 1 => 10 | 2 => 100 | _ => 1000) 0 ≠
    cpAll diamond (fun n => match n with | 0 => 1 | 1 => 10 | 2 => 100 | _ => 1000) 0 :=
  GM.C07_pinned_counts_paths

/-- C12: the executable three-step selection (roots, then exclusion in the graph left by the roots,
    then targets in the graph left by the exclusion) is exactly the documented closure over the
    full graph, under the property's precondition. -/
theorem C12_selection_is_closure (g : G) (hnd : g.nodes.Nodup) (ht : TopoL g.preds g.nodes) (R X T : List GM.Node)
    (hR : ∀ r ∈ R, r ∈ g.nodes)
    (hX : ∀ q ∈ X, q ∈ (g1Of g (some R)).nodes)
    (hT : ∀ t ∈ T, t ∈ (g2Of g (some R) (some X)).nodes) (x : GM.Node) :
    x ∈ selectNodes g (some R) (some X) (some T) ↔
      (inR g R x ∧ ¬ (x ∈ X ∨ ∃ q ∈ X, Reach g q x) ∧ (x ∈ T ∨ ∃ t ∈ T, Reach g x t)) :=
  GM.selectNodes_spec g hnd ht R X T hR hX hT x

/-- C12 / C11, targets only (`executor(target_nodes=T)`, `setup(target_nodes=T)` — the selection the history driver
    computes itself for every such operation): the targets and their ancestors; `setup(target_nodes=T)` runs the setup
    nodes among them ("only the setup nodes its selection needs"). -/
theorem C12_targets_only (g : G) (hnd : g.nodes.Nodup) (ht : TopoL g.preds g.nodes) (T : List GM.Node) (x : GM.Node) :
    x ∈ selectNodes g none none (some T) ↔ x ∈ g.nodes ∧ (x ∈ T ∨ ∃ t ∈ T, Reach g x t) :=
  GM.selectNodes_targets g hnd ht T x

/-- C12, empty lists: an empty list is a selection of NOTHING, not "no restriction" — `root_nodes=[]` and `target_nodes=[]`
    select no node (and a target next to an empty root list is refused like any target outside the selection);
    `exclude_nodes=[]` excludes nothing. -/
theorem C12_empty_lists (g : G) (R X T : Option (List GM.Node)) :
    selectNodes g (some []) X T = [] ∧ selectNodes g R X (some []) = [] ∧
    selectNodes g R (some []) T = selectNodes g R none T ∧
    (∀ t T', selectChecked g (some []) none (some (t :: T')) = .error .targetMissing) :=
  ⟨GM.selectNodes_empty_roots g X T, GM.selectNodes_empty_targets g R X, GM.selectNodes_empty_exclusions g R T,
   fun t T' => GM.selectChecked_empty_roots_target g none t T' trivial⟩

/-- C12, repeated names: a root, an excluded node or a target named several times — or through several aliases that resolve to
    the same node — selects exactly what naming it once selects (the LENGTH of a list of names means nothing). -/
theorem C12_repeated_names (g : G) (r : GM.Node) (R X T : List GM.Node) (hR : r ∈ R) :
    selectNodes g (some (r :: R)) none none = selectNodes g (some R) none none ∧
    (∀ x, x ∈ X → selectNodes g none (some (x :: X)) none = selectNodes g none (some X) none) ∧
    (∀ t, t ∈ T → selectNodes g none none (some (t :: T)) = selectNodes g none none (some T)) :=
  GM.selectNodes_repeated_names g r R X T hR

theorem C11_setup_selection (g : G) (hnd : g.nodes.Nodup) (ht : TopoL g.preds g.nodes) (isSetup : GM.Node → Bool)
    (T : List GM.Node) (x : GM.Node) :
    x ∈ (selectNodes g none none (some T)).filter isSetup ↔
      isSetup x = true ∧ x ∈ g.nodes ∧ (x ∈ T ∨ ∃ t ∈ T, Reach g x t) := by
  rw [List.mem_filter, GM.selectNodes_targets g hnd ht T x]
  constructor
  · rintro ⟨h1, h2⟩; exact ⟨h2, h1⟩
  · rintro ⟨h1, h2⟩; exact ⟨h2, h1⟩

/-- C12 ("through any alias form"): a string that is some node's tag denotes exactly the nodes carrying
    that tag — also when it is, in addition, the id of another node (tags win). -/
theorem C12_alias_tag_wins (nm : Naming) (a : String) (i : GM.Node) (hi : i < nm.n) (ht : a ∈ nm.tagsOf i) :
    resolveAlias nm (.name a) = some (nm.tagged a) ∧
    ∀ x, x ∈ nm.tagged a ↔ (x < nm.n ∧ a ∈ nm.tagsOf x) := GM.resolve_tag_wins nm a i hi ht

/-- C12: a string that is nobody's tag and is the (unique) id of node `i` denotes exactly `[i]`. -/
theorem C12_alias_id (nm : Naming) (a : String) (i : GM.Node) (hi : i < nm.n) (hid : nm.idOf i = a)
    (huniq : ∀ j, j < nm.n → nm.idOf j = a → j = i) (hnotag : ∀ j, j < nm.n → a ∉ nm.tagsOf j) :
    resolveAlias nm (.name a) = some [i] := GM.resolve_id nm a i hi hid huniq hnotag

/-- C12: a string that is neither a tag nor an id is refused (ValueError), and one refused alias refuses
    the whole selection; otherwise a list of aliases denotes the union of its members. -/
theorem C12_alias_unknown_refused (nm : Naming) (a : String) (hnotag : ∀ j, j < nm.n → a ∉ nm.tagsOf j)
    (hnoid : ∀ j, j < nm.n → nm.idOf j ≠ a) : resolveAlias nm (.name a) = none := GM.resolve_unknown nm a hnotag hnoid

theorem C12_alias_list_is_union (nm : Naming) (as : List Alias) (l : List GM.Node) (h : resolveAll nm as = some l) :
    ∀ x, x ∈ l ↔ ∃ a ∈ as, ∃ la, resolveAlias nm a = some la ∧ x ∈ la := GM.resolveAll_spec nm as l h

theorem C12_alias_list_refused_iff (nm : Naming) (as : List Alias) :
    resolveAll nm as = none ↔ ∃ a ∈ as, resolveAlias nm a = none := GM.resolveAll_none_iff nm as

-- non-vacuity: node 1 carries the tag "n0", which is also node 0's id: the string denotes node 1
example : resolveAlias { n := 2, idOf := fun i => if i = 0 then "n0" else "n1", tagsOf := fun i => if i = 1 then ["n0"] else [] }
    (.name "n0") = some [1] := by decide

/-- C07 / C05 / C06 (reconfiguration): `config_from_dict/yaml/json` as decision logic (`GM.applyConfig`).  An accepted
    configuration gives every node an entry addresses — through a node id or a tag carried by any number of
    nodes — exactly the attributes the entry STATES, keeping those it does not state; every other node keeps
    everything.  The compound priorities after it are `cpAll` of the new priorities (what the driver computes). -/
theorem C07_configuration_law (nm : Naming) (a a' : Attr) (es : List Entry) (h : applyConfig nm a es = .ok a') :
    (∀ n e, e ∈ es → (∃ ns, resolveAlias nm e.alias = some ns ∧ n ∈ ns) →
        a'.prio n = e.prio.getD (a.prio n) ∧ a'.seq n = e.seq.getD (a.seq n)) ∧
    (∀ x, (∀ e ∈ es, ∀ ns, resolveAlias nm e.alias = some ns → x ∉ ns) → a'.prio x = a.prio x ∧ a'.seq x = a.seq x) :=
  GM.applyConfig_spec nm a a' es h

/-- reconfiguration: refused exactly when an alias is unknown or some node is addressed twice (ambiguous) -/
theorem C07_configuration_refused_iff (nm : Naming) (a : Attr) (es : List Entry) :
    (∃ err, applyConfig nm a es = .error err) ↔
      (expand nm es = none ∨ ∃ ps, expand nm es = some ps ∧ ¬ (ps.map (·.1)).Nodup) :=
  GM.applyConfig_refused_iff nm a es

/-- C06 / C07, why "survives sub-graph selection" means the WHOLE DAG's table: compound priorities recomputed over the
    executed sub-graph rank the ready nodes differently (witness: a(0) → x(10), b(5) → c(1); an executor on {a, b} must
    start a first — 10 against 6 — while the restricted table says 0 against 5).  An executor keeps the table of the DAG. -/
def cpWitnessG : G := { nodes := [0, 1, 2, 3], preds := fun m => if m = 1 then [0] else if m = 3 then [2] else [] }
def cpWitnessPrio : GM.Node → Int := fun m => if m = 1 then 10 else if m = 2 then 5 else if m = 3 then 1 else 0
theorem C07_restricted_table_would_rank_differently :
    cpAll cpWitnessG cpWitnessPrio 0 = 10 ∧ cpAll cpWitnessG cpWitnessPrio 2 = 6 ∧
    cpAll (GM.induced cpWitnessG (fun x => x == 0 || x == 2)) cpWitnessPrio 0 = 0 ∧
    cpAll (GM.induced cpWitnessG (fun x => x == 0 || x == 2)) cpWitnessPrio 2 = 5 := by decide

/-- reconfiguration: the same configuration given again changes nothing more -/
theorem C07_configuration_idempotent (nm : Naming) (a a' : Attr) (es : List Entry) (h : applyConfig nm a es = .ok a') :
    ∃ a'', applyConfig nm a' es = .ok a'' ∧ (∀ x, a''.prio x = a'.prio x ∧ a''.seq x = a'.seq x) :=
  GM.applyConfig_idempotent nm a a' es h

/-- C07 / C05: a configuration that states sequential flags only (an entry without a priority, or restating nothing) applies
    those flags (`C07_configuration_law`) and leaves every priority and every compound priority as it was. -/
theorem C07_flags_only_configuration_keeps_the_table (g : GM.G) (nm : Naming) (a a' : Attr) (es : List Entry)
    (h : applyConfig nm a es = .ok a') (hnone : ∀ e ∈ es, e.prio = none) :
    (∀ x, a'.prio x = a.prio x) ∧ (∀ x, cpAll g a'.prio x = cpAll g a.prio x) :=
  ⟨GM.applyConfig_no_priority_stated nm a a' es h hnone, GM.applyConfig_no_priority_stated_cp g nm a a' es h hnone⟩

/-- C07, refused configurations: one malformed entry anywhere (a priority that is not an int, an entry that is not a
    mapping) refuses the whole configuration, and a refused configuration — unknown alias, ambiguity or malformed entry —
    leaves every attribute, hence every compound priority, exactly as it was (`reconfigure` = the state after the call,
    returned or raised).  This is the law the pinned tree broke (entries before the malformed one were applied, the table
    not recomputed) and `fix: a refused configuration leaves the DAG untouched` restored. -/
theorem C07_refused_configuration_changes_nothing (g : GM.G) (nm : Naming) (a : Attr) (res : List RawEntry) :
    (∀ r ∈ res, r.wellFormed = false → ∃ e, applyRaw nm a res = .error e) ∧
    (∀ e, applyRaw nm a res = .error e →
        reconfigure nm a res = a ∧ ∀ x, cpAll g (reconfigure nm a res).prio x = cpAll g a.prio x) :=
  ⟨fun r hr hbad => applyRaw_malformed_refused nm a res r hr hbad,
   fun e h => ⟨reconfigure_refused nm a res e h, reconfigure_refused_cp g nm a res e h⟩⟩

/-- C07: giving a configuration again after a refusal (say, with the malformed entry corrected) is decided from the
    untouched state, exactly as if the refused attempt had never been made; an accepted configuration is the law above. -/
theorem C07_retry_after_refusal (nm : Naming) (a : Attr) (res res' : List RawEntry) (e : RawErr)
    (h : applyRaw nm a res = .error e) :
    applyRaw nm (reconfigure nm a res) res' = applyRaw nm a res' ∧
    (∀ a', applyRaw nm a res' = .ok a' → applyConfig nm a (res'.map (·.entry)) = .ok a') :=
  ⟨retry_after_refusal nm a res e h res', fun a' h' => (reconfigure_accepted nm a a' res' h').2⟩

-- non-vacuity: two nodes carry the tag "g"; an entry for "g" that states only the priority
example : ((applyConfig { n := 3, idOf := fun i => s!"n{i}", tagsOf := fun i => if i < 2 then ["g"] else [] }
      ⟨fun _ => 1, fun i => i == 1⟩ [⟨.name "g", some 9, none⟩]).toOption.map
        fun a' => (a'.prio 0, a'.prio 1, a'.prio 2, a'.seq 0, a'.seq 1)) = some (9, 9, 1, false, true) := by decide

-- non-vacuity of the refusal law: a valid priority change for the tag "g" FIRST, a malformed entry for node n2 LAST — the shape
-- the pinned tree applied half-way: the whole configuration is refused and the state after the call is the state before it
example :
    let nm : Naming := { n := 3, idOf := fun i => s!"n{i}", tagsOf := fun i => if i < 2 then ["g"] else [] }
    let a : Attr := ⟨fun _ => 1, fun i => i == 1⟩
    let res : List RawEntry := [⟨⟨.name "g", some 9, none⟩, true⟩, ⟨⟨.name "n2", none, none⟩, false⟩]
    (match applyRaw nm a res with | .error .malformed => true | _ => false) = true ∧
    ((reconfigure nm a res).prio 0, (reconfigure nm a res).prio 1, (reconfigure nm a res).prio 2) = (1, 1, 1) ∧
    -- ... and the corrected configuration, given afterwards, applies from the untouched state
    ((reconfigure nm (reconfigure nm a res) [⟨⟨.name "g", some 9, none⟩, true⟩]).prio 0,
     (reconfigure nm (reconfigure nm a res) [⟨⟨.name "g", some 9, none⟩, true⟩]).prio 2) = (9, 1) := by decide

/-- C03 (ids): node ids are (base name, number of earlier registrations of that base name) — `f`, `f<<1>>`, … — so
    whatever sequence of call sites a description registers, all ids are distinct: one node per call site. -/
theorem C03_call_site_ids_distinct (bases : List String) : (GM.allocAll [] bases).Nodup :=
  GM.C03_call_site_ids_distinct bases

/-- C20 (ids): the prefixes of two sub-DAG call sites allocated one after the other differ — also when the two DAG objects
    share a qualname — so the nodes spliced at the two sites never capture or collide with each other. -/
theorem C20_spliced_ids_distinct (ids : List GM.Id) (h : GM.Dense ids) (q1 q2 : String) (a b : GM.Id) :
    ((GM.alloc ids q1, a) : GM.Spliced) ≠ (GM.alloc (ids ++ [GM.alloc ids q1]) q2, b) :=
  GM.C20_spliced_ids_distinct ids h q1 q2 a b

-- non-vacuity: three call sites of `f` and one of `g`
example : GM.allocAll [] ["f", "g", "f", "f"] = [("f", 0), ("g", 0), ("f", 1), ("f", 2)] := by decide

/-- C13 (flag off): no debug node survives, for every selection. -/
theorem C13_flag_off_no_debug (g : G) (isDebug : GM.Node → Bool) (sel leaves : List GM.Node) (x : GM.Node)
    (hx : x ∈ extendDebug g isDebug sel leaves false) : isDebug x = false :=
  GM.C13_flag_off_no_debug g isDebug sel leaves x hx

/-- C13 (flag on): a whole-DAG call — selection = every node — runs EVERY debug node, also one without any input; and in a
    sub-graph run a debug node whose inputs are all leaves of the selection is pulled in. -/
theorem C13_flag_on_runs_debug_nodes (g : G) (isDebug : GM.Node → Bool) (sel leaves : List GM.Node) :
    (∀ x ∈ sel, x ∈ extendDebug g isDebug sel leaves true) ∧
    (∀ m ∈ g.nodes, isDebug m = true → (g.predsIn m).isEmpty = false → (∀ p ∈ g.predsIn m, p ∈ leaves) →
        m ∈ extendDebug g isDebug sel leaves true) :=
  ⟨fun x hx => GM.C13_flag_on_keeps_selection g isDebug sel leaves x hx,
   fun m hm hd hne hp => GM.C13_debug_below_leaves_is_pulled g isDebug sel leaves m hm hd hne hp⟩

/-- C13 (flag on), the pull rule is a FIXPOINT reached by one walk over the recording order: a debug node all of whose (at least
    one) inputs are leaves of the selection or debug nodes pulled before it is pulled too — also when its debug input was
    itself pulled only "later in the same pass". -/
theorem C13_pulled_debug_nodes_are_a_fixpoint (g : G) (isDebug : GM.Node → Bool) (hnd : g.nodes.Nodup) (ht : TopoL g.preds g.nodes)
    (sel leaves : List GM.Node) (m : GM.Node) (hm : m ∈ g.nodes) (hd : isDebug m = true) (hne : (g.predsIn m).isEmpty = false)
    (hp : ∀ p ∈ g.predsIn m, p ∈ GM.debugPass g isDebug g.nodes leaves) :
    m ∈ extendDebug g isDebug sel leaves true := by
  have h := GM.debugPass_fixpoint g isDebug hnd ht leaves m hm hd hne hp
  simp only [extendDebug, if_true, List.mem_append, List.mem_filter]
  by_cases hs : m ∈ sel
  · exact Or.inl hs
  · exact Or.inr ⟨h, by simpa using hs⟩

/-- C13 (flag on): whatever is pulled in besides the selection is a debug node all of whose inputs are in the run. -/
theorem C13_pulled_debug_has_inputs (g : G) (isDebug : GM.Node → Bool) (sel leaves : List GM.Node)
    (hl : ∀ x ∈ leaves, x ∈ sel) (x : GM.Node) (hx : x ∈ extendDebug g isDebug sel leaves true) (hns : x ∉ sel) :
    isDebug x = true ∧ ∀ p ∈ g.predsIn x, p ∈ extendDebug g isDebug sel leaves true :=
  GM.C13_pulled_debug_has_inputs g isDebug sel leaves hl x hx hns

example : diamond.nodes.Nodup ∧ cpAll diamond (fun n => match n with | 0 => 1 | 1 => 10 | 2 => 100 | _ => 1000) 0 = 1111 ∧
    selectNodes diamond (some [0]) (some [1]) (some [2]) = [0, 2] := by decide

/-! ## Value properties -/
open VM

/-- C01 / C02 (values), core: every execution that returns has computed, on every node, the sequential
    denotation of the table — for every priority / sequential / resource assignment (`a`), every
    `max_concurrency` and every completion order (all inside `VRun`). -/
theorem C01_core {V : Type} [PyVal V] (c : ECfg V) (a : Attrs) (hwf : WF c) {tr vs} (hv : VRun c a tr vs)
    (hd : vs.st.pc = .done) : ∀ n, vs.ρ n = den c n := VM.C01_core c a hwf hv hd

/-- C01, flat fragment (positional / keyword / constant arguments, key paths, flags of every form): if
    plain sequential evaluation of the body succeeds, every returning execution of the traced DAG
    gives every variable exactly the plain value.  Nested calls, `unpack_to`, defaults and return
    components are covered by `C20_nested_inlining_partial` below (the only exclusion there: an
    activation flag on a nested call). -/
theorem C01_flat_partial {V : Type} [PyVal V] (interp : Interp V) (params : List V) (body : List (Call V))
    (valsF : List V) (hev : evalBody interp body params = .ok valsF) (a : Attrs) {tr : List Label} {vs : VSt V}
    (hrun : VRun ((traceBody (initState params) body).cfg interp) a tr vs) (hdone : vs.st.pc = .done) :
    ∀ (i : Nat) (r : Ref), (traceBody (initState params) body).env[i]? = some r →
      ∃ v, valsF[i]? = some v ∧ resolve vs.ρ r = .ok v :=
  VM.C01_flat interp params body valsF hev a hrun hdone

/-- C20 (and C01 beyond the flat fragment): calling a DAG inside a DAG is inlining.  For a module in
    which no *nested call* carries an activation flag: if plain evaluation (ordinary function-call
    semantics, arguments overriding defaults, `unpack_to`, flags on plain calls, any nesting depth)
    gives the return components `outs`, every returning execution of the traced DAG resolves its
    k-th return reference to the k-th component.  PARTIAL only in this respect: a flag on a nested
    call is excluded — that is where the code departs from inlining (the two known findings). -/
theorem C20_nested_inlining_partial {V : Type} [PyVal V] (interp : Interp V) (defs : List (Def V))
    (hnf : NoDagFlags defs) (i : Nat) (args outs : List V)
    (hev : evalTopComps (withIdent interp) defs i args = .ok outs)
    (st : BState V) (refs : List Ref) (htr : traceTopComps defs i args = .ok (st, refs))
    (a : Attrs) {tr : List Label} {vs : VSt V}
    (hrun : VRun (st.cfg (withIdent interp)) a tr vs) (hdone : vs.st.pc = .done) :
    refs.length = outs.length ∧
    ∀ (k : Nat) (r : Ref), refs[k]? = some r → ∃ v, outs[k]? = some v ∧ resolve vs.ρ r = .ok v :=
  VM.C20_nested_inlining interp defs hnf i args outs hev st refs htr a hrun hdone

/-- C20 / C01 / C10 with activation flags ON NESTED CALLS (`inner(x, twz_active=f)`): the same conclusion
    for every module in which each flagged nested call targets a callee that returns only whole results
    of its own nodes (or of its nested callees) and does not use `unpack_to` (`FlagSafe`, decided by the
    executable `flagSafeB`, which the driver evaluates on every generated module).  The specification
    is inlining: `outs = inner(args) if f else (None, …)`; arguments of a deactivated call are not
    evaluated.  Subsumes the theorem above (`flagSafe_of_noDagFlags`).  PARTIAL only outside `FlagSafe`:
    there the code really departs from the specification — `C20_flag_witness_default` and
    `C20_flag_witness_indexed` are the two known findings, proved about the model and replayed on the
    code by the checks. -/
theorem C20_nested_inlining_flags_partial {V : Type} [PyVal V] (interp : Interp V) (defs : List (Def V))
    (hfs : FlagSafe defs) (i : Nat) (args outs : List V)
    (hev : evalTopComps (withIdent interp) defs i args = .ok outs)
    (st : BState V) (refs : List Ref) (htr : traceTopComps defs i args = .ok (st, refs))
    (a : Attrs) {tr : List Label} {vs : VSt V}
    (hrun : VRun (st.cfg (withIdent interp)) a tr vs) (hdone : vs.st.pc = .done) :
    refs.length = outs.length ∧
    ∀ (k : Nat) (r : Ref), refs[k]? = some r → ∃ v, outs[k]? = some v ∧ resolve vs.ρ r = .ok v :=
  VM.C20_nested_inlining_flags interp defs hfs i args outs hev st refs htr a hrun hdone

theorem C20_flagSafe_decidable {V : Type} [PyVal V] (defs : List (Def V)) (h : flagSafeB defs = true) :
    FlagSafe defs := VM.flagSafeB_sound defs h

theorem C20_no_flags_is_flagSafe {V : Type} [PyVal V] (defs : List (Def V)) (h : NoDagFlags defs) :
    FlagSafe defs := VM.flagSafe_of_noDagFlags h

/-- known finding (C01/C10/C20 `returns-unsupplied-default`), as a theorem about the model: the
    deactivated nested call yields the callee's default (7) where the specification says None -/
theorem C20_flag_witness_default :
    VD.isSingleNone (evalTop (withIdent VD.interp) VD.wDefault 1 []) = true ∧
    VD.isSingleInt 7 (runTop VD.interp VD.wDefault 1 []) = true ∧ flagSafeB VD.wDefault = false :=
  VD.flag_witness_default

/-- known finding (C01/C10/C20 `call-raised … flag-on-nested-dag`): the deactivated nested call whose
    callee returns an indexed part makes the execution raise where the specification says None -/
theorem C20_flag_witness_indexed :
    VD.isSingleNone (evalTop (withIdent VD.interp) VD.wIndexed 1 []) = true ∧
    VD.isError (runTop VD.interp VD.wIndexed 1 []) = true ∧ flagSafeB VD.wIndexed = false :=
  VD.flag_witness_indexed

-- non-vacuity: a module with a flagged nested call (flag = a DAG argument) that is `FlagSafe`
example : FlagSafe VD.wSafe ∧ ¬ NoDagFlags VD.wSafe :=
  ⟨VD.wSafe_flagSafe, fun h => by
    have := h _ (List.mem_cons_of_mem _ (List.mem_singleton.mpr rfl)) (.dag 0 [.var 0 []] (some (.var 0 [])))
      (by simp [VD.wSafe])
    simp [Stmt.noDagFlag] at this⟩

/-- C09 for the DAGs the tracer builds: the hypotheses of `C09_bound` (duplicate-free, acyclic) hold for
    every traced table, so every scheduler run on a traced DAG — adversarial activeness and failures,
    any attributes, any `max_concurrency ≥ 1` — has at most `32·|nodes| + 12` steps. -/
theorem C09_traced_dag_terminates {V : Type} [PyVal V] (interp : Interp V) (defs : List (Def V)) (hfs : FlagSafe defs)
    (i : Nat) (args outs : List V) (hev : evalTopComps (withIdent interp) defs i args = .ok outs)
    (st : BState V) (refs : List Ref) (htr : traceTopComps defs i args = .ok (st, refs))
    (a : Attrs) (hm : 0 < a.maxc) (act fl : TM.Node → Bool) {tr : List Label} {s : St}
    (hrun : Run (cfgWith (st.cfg (withIdent interp)) a act fl) tr s) :
    tr.length ≤ 32 * st.nodes.length + 12 :=
  VM.C09_traced_terminates interp defs hfs i args outs hev st refs htr a hm act fl hrun

/-- C10: the activation flag is read through the whole reference (id and key path); a node whose flag is
    falsy yields None in the denotation, a node whose flag is truthy yields its function's value; and
    in every returning execution, whatever the schedule, the recorded result of a deactivated node is
    None — which is what its dependents read.  (That a deactivated node is never *started* is
    `C03_exactly_once_at_done`; nested-call flags: see `C20_nested_inlining_partial`.) -/
theorem C10_flag_reads_full_reference {V : Type} [PyVal V] (ρ : Results V) (r : NodeRec) (a : Ref)
    (h : r.active = some a) : activeOf ρ r = (resolve ρ a).map PyVal.truthy :=
  VM.activeOf_reads_full_reference ρ r a h

theorem C10_execution_inactive_none {V : Type} [PyVal V] (c : ECfg V) (a : Attrs) (hwf : WF c) {tr vs}
    (hv : VRun c a tr vs) (hd : vs.st.pc = .done) {n : TM.Node} (hn : n ∈ c.nodes)
    (h : activeOf (den c) (c.recOf n) = .ok false) : vs.ρ n = some PyVal.none :=
  VM.C10_execution_inactive_none c a hwf hv hd hn h

theorem C10_active_runs {V : Type} [PyVal V] (c : ECfg V) (hwf : WF c) {n : TM.Node} (hn : n ∈ c.nodes) {v : V}
    (h : activeOf (den c) (c.recOf n) = .ok true) (hc : callOf c.interp (den c) (c.recOf n) = .ok v) :
    den c n = some v := VM.C10_active_runs c hwf hn h hc

/-- C02 (values): when a node is about to start, every reference it reads resolves as under the final
    sequential denotation — the values it receives are exactly its dependencies' results after the
    indexing the user wrote, never stale, missing or foreign. -/
theorem C02_values_at_start {V : Type} [PyVal V] (c : ECfg V) (a : Attrs) (hwf : WF c) {tr vs}
    (hv : VRun c a tr vs) {n : TM.Node} (hn : n ∈ vs.st.runnable) :
    ∀ r ∈ (c.recOf n).refs, resolve vs.ρ r = resolve (den c) r := VM.C02_values_at_start c a hwf hv hn

/-- C03 (build half): every call site of a traced module is a node of its own (no duplicates), however
    often one decorated function is reused. -/
theorem C03_distinct_call_sites {V : Type} [PyVal V] (interp : Interp V) (defs : List (Def V))
    (hnf : NoDagFlags defs) (i : Nat) (args outs : List V)
    (hev : evalTopComps (withIdent interp) defs i args = .ok outs)
    (st : BState V) (refs : List Ref) (htr : traceTopComps defs i args = .ok (st, refs)) :
    st.nodes.Nodup := VM.C03_distinct_call_sites interp defs hnf i args outs hev st refs htr

theorem C03_distinct_call_sites_flags {V : Type} [PyVal V] (interp : Interp V) (defs : List (Def V))
    (hfs : FlagSafe defs) (i : Nat) (args outs : List V)
    (hev : evalTopComps (withIdent interp) defs i args = .ok outs)
    (st : BState V) (refs : List Ref) (htr : traceTopComps defs i args = .ok (st, refs)) :
    st.nodes.Nodup := VM.C03_distinct_call_sites_flags interp defs hfs i args outs hev st refs htr

/-- C13 (values): under the build-time rule (no production node refers to a debug node) leaving the
    debug nodes out changes no production value. -/
theorem C13_debug_nodes_never_influence {V : Type} [PyVal V] (c : ECfg V) (isDebug : TM.Node → Bool)
    (hrule : isClosedB c (fun n => !isDebug n) = true) (x : TM.Node) (hx : isDebug x = false) :
    den (restrict c (fun n => !isDebug n)) x = den c x := VM.C13_debug_nodes_never_influence c isDebug hrule x hx

/-- C13 / C11 (build-time rejection) as decision logic: `validateB` accepts a table iff no non-debug node depends on a
    debug node and every setup node depends on setup nodes and constants only — "depends" through a positional
    argument, a keyword argument or the activation flag. -/
theorem C13_C11_build_rule (recOf : TM.Node → NodeRec) (nodes : List TM.Node) (m : Marks) :
    validateB recOf nodes m = true ↔
      ∀ n ∈ nodes, ∀ r ∈ (recOf n).refs,
        (m.debug r.src = true → m.debug n = true) ∧
        (m.setup n = true → m.setup r.src = true ∨ m.isConst r.src = true) := VM.validateB_spec recOf nodes m

/-- C13 for every table the constructor accepts: leaving the debug nodes out changes no production value. -/
theorem C13_accepted_table_debug_never_influences {V : Type} [PyVal V] (c : ECfg V) (m : Marks)
    (h : validateB c.recOf c.nodes m = true) (x : TM.Node) (hx : m.debug x = false) :
    den (restrict c (fun n => !m.debug n)) x = den c x := VM.accepted_table_debug_never_influences c m h x hx

/-- C15 / C11 for every table the constructor accepts: the build rule gives the setup region the semantic theorems
    need, so a call after any history of calls computes what it computes on a fresh instance. -/
theorem C15_accepted_table_call_after_history_is_fresh {V : Type} [PyVal V] (i : Inst V) (sel : List TM.Node) (m : Marks)
    (hsetup : ∀ n, i.dag.isSetup n = m.setup n)
    (hval : validateB i.dag.recOf i.dag.nodes m = true) (hsel : ∀ n ∈ sel, n ∈ i.dag.nodes)
    (hconst : ∀ n ∈ sel, m.isConst n = true → (i.dag.recOf n).refs = [])
    (hpar : ∀ p ∈ i.dag.params, m.setup p = false ∧ m.isConst p = false)
    (hwf : ∀ (j : Inst V) (op : Op V), WF (opCfg j op))
    (history : List (List V)) (args : List V) (x : TM.Node) :
    den (opCfg (runHistory i (history.map (Op.call sel))) (.call sel args)) x = den (opCfg i (.call sel args)) x :=
  VM.accepted_table_call_after_history_is_fresh i sel m hsetup hval hsel hconst hpar hwf history args x

-- non-vacuity: debug node 2 reads production node 1 (fine); production node 1 reading debug node 2 is refused
example : validateB (fun n => if n = 2 then ⟨"d", [⟨1, []⟩], [], none⟩ else ⟨"p", [], [], none⟩) [0, 1, 2]
    ⟨fun n => n == 2, fun _ => false, fun _ => false⟩ = true := by decide
example : validateB (fun n => if n = 1 then ⟨"p", [⟨2, []⟩], [], none⟩ else ⟨"d", [], [], none⟩) [0, 1, 2]
    ⟨fun n => n == 2, fun _ => false, fun _ => false⟩ = false := by decide

/-- C18 (`cache_deps_of`): the restart executes exactly the selected nodes that are not in the file. -/
theorem C18_restart_runs_only_uncached {V : Type} [PyVal V] (c : ECfg V) (f : TM.Node → Bool) (n : TM.Node) :
    n ∈ (seeded c f).nodes ↔ n ∈ c.nodes ∧ f n = false := VM.C18_restart_runs_only_uncached c f n

/-- C11: over any history of successful operations on one instance no setup node is entered twice. -/
theorem C11_setup_at_most_once {V : Type} [PyVal V] (ops : List (Op V)) (i : Inst V) (hok : InstOK i)
    (hwf : ∀ (j : Inst V) (op : Op V), WF (opCfg j op)) (hall : AllSucceed i ops) :
    (setupEntries i ops).Nodup := VM.C11_setup_at_most_once ops i hok hwf hall

/-- C11: a setup value, once recorded, is never replaced. -/
theorem C11_first_value_kept {V : Type} [PyVal V] (i : Inst V) (op : Op V) (n : TM.Node) (v : V)
    (h : i.res n = some v) : (applyOp i op).res n = some v := VM.applyOp_res_keep i op n v h

/-- C11: an operation enters only nodes of its own selection, and none whose result the instance already holds
    ("a sub-graph execution or setup(target_nodes=…) runs only the setup nodes its selection needs"). -/
theorem C11_runs_only_what_selection_needs {V : Type} [PyVal V] (i : Inst V) (op : Op V) :
    ∀ n ∈ entered (opCfg i op), n ∈ op.sel ∧ (opCfg i op).init n = none :=
  fun n hn => ⟨VM.entered_subset_sel i op n hn, VM.entered_not_precomputed i op n hn⟩

/-- C11: every later execution of any history sees the value produced the first time. -/
theorem C11_later_executions_see_first_value {V : Type} [PyVal V] (ops : List (Op V)) (i : Inst V) (n : TM.Node) (v : V)
    (h : i.res n = some v) : (runHistory i ops).res n = some v := VM.runHistory_res_keep ops i n v h

/-- C15: the next call depends only on its own arguments and on which setup results the instance holds:
    two histories (any calls, executor runs, failing calls) from one instance that end with the same setup
    results give the next operation the very same run configuration. -/
theorem C15_next_call_depends_only_on_setup_state {V : Type} [PyVal V] (i : Inst V) (ops1 ops2 : List (Op V))
    (h : ∀ n, i.dag.isSetup n = true → (runHistory i ops1).res n = (runHistory i ops2).res n) (op : Op V) :
    opCfg (runHistory i ops1) op = opCfg (runHistory i ops2) op :=
  VM.C15_next_call_depends_only_on_setup_state i ops1 ops2 h op

/-- C15: a failed operation leaves the instance exactly as it was. -/
theorem C15_failed_operation_is_a_noop {V : Type} [PyVal V] (i : Inst V) (op : Op V)
    (h : succeeded (opCfg i op) = false) : applyOp i op = i := VM.applyOp_failed_noop i op h

/-- C15: whatever the history (failing operations included), an instance only ever gains setup results. -/
theorem C15_no_state_but_setup {V : Type} [PyVal V] (ops : List (Op V)) (i : Inst V) (n : TM.Node)
    (h : i.dag.isSetup n = false) : (runHistory i ops).res n = i.res n :=
  VM.runHistory_res_nonsetup ops i n h

/-- C12 (values): a node outside the selection keeps what the instance already holds for it — the value an earlier
    run computed (a setup result), a constant, a default — and has no value otherwise: "returned values are the real
    values of executed or already-computed nodes and None for all others". -/
theorem C12_unselected_nodes_keep_their_value {V : Type} [PyVal V] (i : Inst V) (sel : List TM.Node) (init : Results V)
    (x : TM.Node) (hx : x ∉ sel) : den (runCfg i sel init) x = init x :=
  VM.denote_notin (runCfg i sel init) _ init x (fun h => hx (VM.runCfg_nodes_sub i sel init x h))

/-- C11, why reuse is harmless: in a DAG whose setup region `S` is closed under all references and holds no
    parameter (what the build-time validation enforces: a setup node depends on setup nodes and constants only),
    the value any call computes on `S` does not depend on the call's arguments. -/
theorem C11_setup_value_independent_of_arguments {V : Type} [PyVal V] (i : Inst V) (sel : List TM.Node) (S : TM.Node → Bool)
    (hcl : regionClosedB i.dag.recOf sel S = true) (hpar : ∀ p ∈ i.dag.params, S p = false) (args1 args2 : List V) :
    AgreeOn S (den (opCfg i (.call sel args1))) (den (opCfg i (.call sel args2))) :=
  VM.setup_value_independent_of_arguments i sel S hcl hpar args1 args2

/-- C15, semantic form: after ANY history of calls of one selection on an instance — any arguments, succeeding or
    failing — the next call computes on every node exactly what it computes on the instance the history started
    from.  On a freshly built DAG: the k-th call returns what a first call with the same arguments returns. -/
theorem C15_call_after_history_is_fresh {V : Type} [PyVal V] (i : Inst V) (sel : List TM.Node) (S : TM.Node → Bool)
    (hS : SetupRegion i sel S) (hwf : ∀ (j : Inst V) (op : Op V), WF (opCfg j op))
    (history : List (List V)) (args : List V) (x : TM.Node) :
    den (opCfg (runHistory i (history.map (Op.call sel))) (.call sel args)) x = den (opCfg i (.call sel args)) x :=
  VM.C15_call_after_history_is_fresh i sel S hS hwf history args x

/-- C15 / C11, general form: after ANY history of operations on an instance — calls and executor runs with any closed
    selections and any arguments, `setup()` invocations with any closed selections, succeeding or failing — a call
    computes, on every node of its own (closed) selection, exactly what it computes on the instance the history started
    from.  (`ClosedSel`: a selected node's references into the setup region are selected too — decided by `closedSelB`,
    which the history driver evaluates on every selection it computes; every target / ancestor selection is closed.) -/
theorem C15_call_after_any_history {V : Type} [PyVal V] (ops : List (COp V)) (i : Inst V) (S : TM.Node → Bool)
    (hR : SetupRegion i i.dag.nodes S) (hwf : ∀ (j : Inst V) (op : Op V), WF (opCfg j op))
    (hops : ∀ o ∈ ops, ClosedSel i S o.q) (q2 : TM.Node → Bool) (hq2 : ClosedSel i S q2) (args : List V) (x : TM.Node)
    (hx : q2 x = true) :
    den (opCfg (runHistory i (ops.map (COp.toOp i.dag.nodes))) (.call (i.dag.nodes.filter q2) args)) x
      = den (opCfg i (.call (i.dag.nodes.filter q2) args)) x :=
  VM.C15_call_after_any_history ops i S hR hwf hops q2 hq2 args x hx

/-- on the setup region a closed sub-selection computes what the whole table computes (sub-graph runs and
    `setup(target_nodes=…)` give a setup node the value a whole-DAG call gives it) -/
theorem C11_sub_selection_same_setup_values {V : Type} [PyVal V] (i : Inst V) (S q : TM.Node → Bool) (init : Results V)
    (hS : regionClosedB i.dag.recOf i.dag.nodes S = true) (hq : ClosedSel i S q) (x : TM.Node)
    (hSx : S x = true) (hx : q x = true ∨ x ∉ i.dag.nodes) :
    den (runCfg i (i.dag.nodes.filter q) init) x = den (runCfg i i.dag.nodes init) x :=
  VM.sub_selection_den i S q init hS hq x hSx hx

theorem C15_closedSel_decidable {V : Type} [PyVal V] (i : Inst V) (S q : TM.Node → Bool) :
    closedSelB i S q = true ↔ ClosedSel i S q := VM.closedSelB_iff i S q

-- non-vacuity: a table with a setup node (0), a parameter holder (2) and a node (1) reading both has a setup region
example : SetupRegion (V := VD.Val)
    ⟨⟨[0, 1], fun n => if n = 1 then ⟨"f", [⟨0, []⟩, ⟨2, []⟩], [], none⟩ else ⟨"s", [], [], none⟩,
       fun n => n == 0, VD.interp, [2]⟩, fun _ => none⟩ [0, 1] (fun n => n == 0) :=
  ⟨fun n h => h, by decide, by intro p hp; simp at hp; subst hp; rfl⟩

/-- C18: a restart seeded with the values a caching run computed computes the same results, and the
    cached nodes are not part of its execution graph (hence, by C03, never entered). -/
theorem C18_restart_same {V : Type} [PyVal V] (c : ECfg V) (f : TM.Node → Bool) (hwf : WF c)
    (hf : ∀ n, f n = true → n ∈ c.nodes) (hfsome : ∀ n, f n = true → ∃ v, den c n = some v) :
    (∀ x, den (seeded c f) x = den c x) ∧ (∀ n ∈ (seeded c f).nodes, f n = false) :=
  VM.C18_restart_same c f hwf hf hfsome

/-- C15 (executor objects): an executor is single-use.  Whatever its first call did — returned, failed
    in a node, found no cache file — every later call of the same object is refused and changes neither
    the instance nor any file: it never returns a result computed from a partially consumed graph. -/
theorem C15_executor_single_use {V : Type} [PyVal V] (w : World V) (o : XObj) (a : List V) (rest : List (List V)) :
    xRuns w o (a :: rest) =
      ((xRun w o a).1, (xRun w o a).2.1, (xRun w o a).2.2 :: rest.map (fun _ => XOut.refused)) :=
  VM.C15_executor_single_use w o a rest

/-- C15 (executor objects): the call that is not refused runs the executor's complete selection from
    the start results (the DAG's own, completed by the cache file if one is named). -/
theorem C15_executor_run_is_complete {V : Type} [PyVal V] (w : World V) (s : XSpec) (args : List V)
    (start : Results V) (hs : xStart w s = some start) :
    (xRun w (XObj.fresh s) args).2.2 =
      (if succeeded (xCfgOf w.inst s start args) then .ok (den (xCfgOf w.inst s start args)) else .failed) :=
  VM.C15_executor_run_is_complete w s args start hs

/-- C15 (executor objects): an executor run leaves the instance's non-setup state untouched. -/
theorem C15_executor_no_state_but_setup {V : Type} [PyVal V] (w : World V) (o : XObj) (args : List V) (n : TM.Node)
    (h : w.inst.dag.isSetup n = false) : (xRun w o args).1.inst.res n = w.inst.res n :=
  VM.xRun_inst_nonsetup w o args n h

/-- C11 with executor objects that are built at one moment and called at a later one (or several times), with
    any calls, `setup()` invocations and other executor runs in between: the world history amounts to the plain
    history `flatten` (a kept executor's run is the operation `call sel args` on the instance AS IT IS WHEN THE
    OBJECT IS CALLED, a used object's call is nothing), and no setup node is entered twice. -/
theorem C11_kept_executors {V : Type} [PyVal V] (ops : List (WOp V)) (st : WState V) (hp : AllPlain st.xs)
    (hops : ∀ o ∈ ops, o.plainMk) (hok : InstOK st.w.inst) (hwf : ∀ (j : Inst V) (op : Op V), WF (opCfg j op))
    (hall : AllSucceed st.w.inst (flatten st ops)) :
    (setupEntries st.w.inst (flatten st ops)).Nodup ∧
      (wRun st ops).w.inst = runHistory st.w.inst (flatten st ops) :=
  VM.C11_kept_executors ops st hp hops hok hwf hall

/-- C11: a kept executor starts from the setup values the instance holds when it RUNS: a value recorded between
    its construction and its call is not recomputed and is not replaced. -/
theorem C11_kept_executor_sees_current_setup {V : Type} [PyVal V] (w : World V) (o : XObj) (args : List V)
    (hp : o.spec.plain) (hu : o.used = false) (hok : InstOK w.inst) (n : TM.Node)
    (hs : w.inst.dag.isSetup n = true) (v : V) (hv : w.inst.res n = some v) :
    n ∉ entered (opCfg w.inst (.call o.spec.sel args)) ∧ (xRun w o args).1.inst.res n = some v :=
  VM.kept_executor_sees_current_setup w o args hp hu hok n hs v hv

/-- C18, end to end through an explicit file store: a successful run with `cache_in = p` (any selection,
    any `cache_deps_of` targets `nonCache`), then a fresh executor of the same selection with
    `from_cache = p`, called with the same arguments or with fewer (the omitted ones being in the file):
    the restart succeeds, returns the same results on every node, and enters only nodes that are not in
    the file — `cache_deps_of` targets that are not setup nodes. -/
theorem C18_cache_roundtrip {V : Type} [PyVal V] (w : World V) (s1 s2 : XSpec) (p : Nat) (args args2 : List V)
    (hfrom1 : s1.fromCache = none) (hin : s1.cacheIn = some p)
    (hsel : s2.sel = s1.sel) (hfrom2 : s2.fromCache = some p)
    (hsucc : succeeded (xCfgOf w.inst s1 w.inst.res args) = true)
    (hwf : WF (xCfgOf w.inst s1 w.inst.res args))
    (hargs : ∀ x, argOf w.inst.dag.params args2 x = argOf w.inst.dag.params args x ∨
                  (argOf w.inst.dag.params args2 x = none ∧ s1.nonCache x = false)) :
    let c1 := xCfgOf w.inst s1 w.inst.res args
    let w1 := (xRun w (XObj.fresh s1) args).1
    ∃ ρ2, (xRun w1 (XObj.fresh s2) args2).2.2 = .ok ρ2 ∧
      (∀ x, ρ2 x = den c1 x) ∧
      (∀ c2, c2 = seeded c1 (reused w.inst s1 c1) → ∀ n ∈ entered c2, s1.nonCache n = true ∧ w.inst.dag.isSetup n = false) :=
  VM.C18_cache_roundtrip w s1 s2 p args args2 hfrom1 hin hsel hfrom2 hsucc hwf hargs

/-- C18, a link of a checkpoint chain: the caching run may itself have STARTED from a file (`σ` = the instance's results
    overlaid with it) and checkpoint into file `p` — possibly the very file it started from; the next restart from `p`
    returns the same results and enters only `cache_deps_of` targets of the first executor that are not setup nodes. -/
theorem C18_checkpoint_chain {V : Type} [PyVal V] (w : World V) (s1 s2 : XSpec) (p : Nat) (σ : Results V) (args args2 : List V)
    (hstart : xStart w s1 = some σ) (hσ : StartOK w.inst s1 σ)
    (hin : s1.cacheIn = some p) (hsel : s2.sel = s1.sel) (hfrom2 : s2.fromCache = some p)
    (hsucc : succeeded (xCfgOf w.inst s1 σ args) = true)
    (hwf : WF (xCfgOf w.inst s1 σ args))
    (hargs : ∀ x, argOf w.inst.dag.params args2 x = argOf w.inst.dag.params args x ∨
                  (argOf w.inst.dag.params args2 x = none ∧ s1.nonCache x = false)) :
    let c1 := xCfgOf w.inst s1 σ args
    let w1 := (xRun w (XObj.fresh s1) args).1
    ∃ ρ2, (xRun w1 (XObj.fresh s2) args2).2.2 = .ok ρ2 ∧
      (∀ x, ρ2 x = den c1 x) ∧
      (∀ n ∈ entered (seeded c1 (reused w.inst s1 c1)), s1.nonCache n = true ∧ w.inst.dag.isSetup n = false) :=
  VM.C18_checkpoint_chain w s1 s2 p σ args args2 hstart hσ hin hsel hfrom2 hsucc hwf hargs

/-- the start results of an executor that reads an existing file holding none of its `cache_deps_of` targets meet the
    hypothesis of `C18_checkpoint_chain` (so does an executor without `from_cache`: `VM.startOK_self`) -/
theorem C18_chain_hypothesis_met {V : Type} (w : World V) (s : XSpec) (q : Nat) (f0 : File V)
    (hfrom : s.fromCache = some q) (hfile : w.files q = some f0) (hf : ∀ x, s.nonCache x = true → f0 x = none) :
    xStart w s = some (overlay w.inst.res f0) ∧ StartOK w.inst s (overlay w.inst.res f0) :=
  ⟨by simp [xStart, hfrom, hfile], VM.startOK_overlay w.inst s f0 hf⟩

/-- C18, plain checkpoints (no `cache_deps_of` targets): the restart from the written file enters NO node. -/
theorem C18_chain_runs_nothing_twice {V : Type} [PyVal V] (w : World V) (s1 s2 : XSpec) (p : Nat) (σ : Results V) (args args2 : List V)
    (hstart : xStart w s1 = some σ) (hσ : StartOK w.inst s1 σ) (hplain : ∀ x, s1.nonCache x = false)
    (hin : s1.cacheIn = some p) (hsel : s2.sel = s1.sel) (hfrom2 : s2.fromCache = some p)
    (hsucc : succeeded (xCfgOf w.inst s1 σ args) = true)
    (hwf : WF (xCfgOf w.inst s1 σ args))
    (hargs : ∀ x, argOf w.inst.dag.params args2 x = argOf w.inst.dag.params args x ∨
                  argOf w.inst.dag.params args2 x = none) :
    entered (seeded (xCfgOf w.inst s1 σ args) (reused w.inst s1 (xCfgOf w.inst s1 σ args))) = [] :=
  VM.C18_chain_runs_nothing_twice w s1 s2 p σ args args2 hstart hσ hplain hin hsel hfrom2 hsucc hwf hargs

/-- C18, write-back keeps what was there: an entry of the file an execution started from, not overridden by an argument
    and not one of its `cache_deps_of` targets, is in the file it writes. -/
theorem C18_write_back_keeps {V : Type} [PyVal V] (w : World V) (s : XSpec) (q : Nat) (f0 : File V) (args : List V)
    (hfrom : s.fromCache = some q) (hfile : w.files q = some f0)
    (x : TM.Node) (v : V) (hx : f0 x = some v) (hnc : s.nonCache x = false) (harg : argOf w.inst.dag.params args x = none) :
    xStart w s = some (overlay w.inst.res f0) ∧
      writeFile s (den (xCfgOf w.inst s (overlay w.inst.res f0) args)) x = some v :=
  VM.C18_write_back_keeps w s q f0 args hfrom hfile x v hx hnc harg

/-- C18: what is in the file is not executed — whatever executor reads it (any selection, `cache_deps_of` targets of its own,
    a `cache_in` of its own): a node whose result the file holds is never entered, also when it is one of that executor's
    own `cache_deps_of` targets. -/
theorem C18_file_entries_are_not_executed {V : Type} [PyVal V] (w : World V) (s : XSpec) (q : Nat) (f0 : File V) (args : List V)
    (hfrom : s.fromCache = some q) (hfile : w.files q = some f0) (n : TM.Node) (v : V) (hn : f0 n = some v) :
    xStart w s = some (overlay w.inst.res f0) ∧ n ∉ entered (xCfgOf w.inst s (overlay w.inst.res f0) args) :=
  VM.C18_file_entries_are_not_executed w s q f0 args hfrom hfile n v hn

/-- C11 / C15: a value the instance holds (a setup result, once computed) survives ANY executor run — also a restart from a
    file written by another instance, which may hold a different value for the node (used during that one run only). -/
theorem C11_established_value_survives_executor_runs {V : Type} [PyVal V] (w : World V) (o : XObj) (args : List V)
    (n : TM.Node) (v : V) (h : w.inst.res n = some v) : (xRun w o args).1.inst.res n = some v :=
  VM.xRun_keeps_established w o args n v h

/-- C12 (values) / C19: restricting a table to a dependency-closed set of nodes (a target with its
    ancestors; what composed outputs need) does not change the value of any kept node. -/
theorem C12_restriction_keeps_values {V : Type} [PyVal V] (c : ECfg V) (S : TM.Node → Bool)
    (hcl : isClosedB c S = true) (x : TM.Node) (hx : x ∉ c.nodes ∨ S x = true) :
    den (restrict c S) x = den c x := VM.den_restrict c S hcl x hx

/-- C19: for every well-formed table, every choice of inputs, outputs and supplied values: the composed
    table (inputs turned into holders of the supplied values, restricted to what the outputs need)
    returns for every output exactly what the original pipeline computes "if the input nodes had
    produced these values".  The original is untouched (`compose` is a pure function of the table). -/
theorem C19_compose_correct {V : Type} [PyVal V] (c : ECfg V) (hwf : WF c) (ins outs : List TM.Node) (vals : List V)
    (o : TM.Node) (ho : o ∈ outs) :
    den (composeCfg c ins outs vals) o = den (withInputs c ins vals) o :=
  VM.C19_compose_correct c hwf ins outs vals o ho

/-- C19, the returned tuple: one value per requested output, in request order (an output named several times — or through several
    aliases — is returned as many times), each the value the original pipeline computes from the supplied inputs. -/
theorem C19_compose_return {V : Type} [PyVal V] (c : ECfg V) (hwf : WF c) (ins outs : List TM.Node) (vals : List V) :
    composeReturn c ins outs vals = outs.map (den (withInputs c ins vals)) ∧
    (composeReturn c ins outs vals).length = outs.length :=
  VM.C19_compose_return c hwf ins outs vals

/-- C17 (a): AsyncDAG equals DAG.  Both flavours run the same scheduler over the same table; whatever
    attributes, `max_concurrency` and completion orders the two executions had, if both return they hold
    the same result on every node (same return value, same setup results recorded) and started exactly the
    same nodes, each once. -/
theorem C17a_flavours_agree {V : Type} [PyVal V] (c : ECfg V) (hwf : WF c) (a1 a2 : Attrs) {tr1 tr2 vs1 vs2}
    (h1 : VRun c a1 tr1 vs1) (h2 : VRun c a2 tr2 vs2) (d1 : vs1.st.pc = .done) (d2 : vs2.st.pc = .done) :
    (∀ n, vs1.ρ n = vs2.ρ n) ∧ (∀ n ∈ c.nodes, (starts tr1).count n = (starts tr2).count n) :=
  VM.C17a_flavours_agree c hwf a1 a2 h1 h2 d1 d2

/-- C17 (b): any interleaving of `k` executions (concurrent awaits in one loop), each on its private
    copy of the results: every one that returns computed the denotation of its own table/arguments. -/
theorem C17b_concurrent_awaits_isolated {V : Type} [PyVal V] (es : Nat → Exec V) {tr σ} (h : PRun es tr σ) (i : Nat)
    (hwf : WF (es i).c) (hd : (σ i).st.pc = .done) : ∀ n, (σ i).ρ n = den (es i).c n :=
  VM.C17b_concurrent_awaits_isolated es h i hwf hd

/-- C16 (first clause): several threads calling one DAG at the same time, each with its own arguments —
    an execution works on a private copy of the results, so the statement is the one of C17 (b) with
    threads instead of coroutines: under any interleaving (at the granularity of scheduler steps) every
    call that returns has computed the denotation of ITS OWN table and arguments. -/
theorem C16_concurrent_calls_isolated {V : Type} [PyVal V] (es : Nat → Exec V) {tr σ} (h : PRun es tr σ) (i : Nat)
    (hwf : WF (es i).c) (hd : (σ i).st.pc = .done) : ∀ n, (σ i).ρ n = den (es i).c n :=
  VM.C17b_concurrent_awaits_isolated es h i hwf hd

/-! ## Threads -/
open TH

/-- C16: under EVERY interleaving, each thread observes a prefix of what it observes alone (owner-aware test). -/
theorem C16_owner_safe (progs : Tid → List Act) (hwb : ∀ t, wellBracketed false (progs t) = true)
    (sched : List Tid) (t : Tid) :
    ∃ suffix, runSched .owner g0 progs sched (fun _ => []) t ++ suffix = solo .owner g0 t (progs t) :=
  TH.C16_owner_safe progs hwb sched t

/-- C16 (history): the test the pinned code used is unsafe (fixed in cc99eb5). -/
theorem C16_pinned_witness :
    runSched .pinned g0 progsAB [0, 1, 0, 0] (fun _ => []) 1 = [.gotRef] ∧
    runSched .pinned g0 progsAB [0, 1, 0, 0] (fun _ => []) 0 = [.unit, .gotRef, .built [1003, 7]] :=
  TH.C16_pinned_witness

example : ∀ t, wellBracketed false (progsAB t) = true := by
  intro t; unfold progsAB; split
  · decide
  · split <;> decide

end Props
