import VD.Val
/-! Prototype driver: flat programs in a token protocol; prints plain evaluation and tracer+denotation. -/
open VM VD

abbrev Toks := List String

partial def pVal : Toks → Option (Val × Toks)
  | "N" :: r => some (.none, r)
  | "T" :: r => some (.bool true, r)
  | "F" :: r => some (.bool false, r)
  | "I" :: n :: r => n.toInt?.map fun i => (.int i, r)
  | "S" :: w :: r => some (.str (if w == "\"\"" then "" else w), r)
  | "(" :: k :: r => do let (l, r') ← pVals k.toNat! r; pure (.tuple l, r')
  | "[" :: k :: r => do let (l, r') ← pVals k.toNat! r; pure (.list l, r')
  | "{" :: k :: r => do let (l, r') ← pKVs k.toNat! r; pure (.dict l, r')
  | _ => none
where
  pVals : Nat → Toks → Option (List Val × Toks)
    | 0, r => some ([], r)
    | n+1, r => do let (v, r1) ← pVal r; let (vs, r2) ← pVals n r1; pure (v :: vs, r2)
  pKVs : Nat → Toks → Option (List (String × Val) × Toks)
    | 0, r => some ([], r)
    | n+1, k :: r => do let (v, r1) ← pVal r; let (vs, r2) ← pKVs n r1; pure ((k, v) :: vs, r2)
    | _, _ => none

def pKeys : Nat → Toks → Option (List Key × Toks)
  | 0, r => some ([], r)
  | n+1, "i" :: x :: r => do let (ks, r') ← pKeys n r; pure (.idx x.toInt! :: ks, r')
  | n+1, "s" :: x :: r => do let (ks, r') ← pKeys n r; pure (.name x :: ks, r')
  | _, _ => none

def pArg : Toks → Option (Arg Val × Toks)
  | "c" :: r => do let (v, r') ← pVal r; pure (.const v, r')
  | "v" :: i :: k :: r => do let (ks, r') ← pKeys k.toNat! r; pure (.var i.toNat! ks, r')
  | _ => none

def pArgs : Nat → Toks → Option (List (Arg Val) × Toks)
  | 0, r => some ([], r)
  | n+1, r => do let (a, r1) ← pArg r; let (as, r2) ← pArgs n r1; pure (a :: as, r2)

def pKwArgs : Nat → Toks → Option (List (String × Arg Val) × Toks)
  | 0, r => some ([], r)
  | n+1, k :: r => do let (a, r1) ← pArg r; let (as, r2) ← pKwArgs n r1; pure ((k, a) :: as, r2)
  | _, _ => none

def pCall (t : Toks) : Option (Call Val) :=
  match t with
  | "C" :: fn :: na :: r => do
    let (args, r1) ← pArgs na.toNat! r
    match r1 with
    | nk :: r2 => do
      let (kws, r3) ← pKwArgs nk.toNat! r2
      match r3 with
      | "0" :: _ => pure { fn := fn, args := args, kwargs := kws, active := none }
      | "1" :: r4 => do let (a, _) ← pArg r4; pure { fn := fn, args := args, kwargs := kws, active := some a }
      | _ => none
    | _ => none
  | _ => none

def renderRes (r : Except Err (List Val)) : String :=
  match r with
  | .ok vs => "OK " ++ " ".intercalate (vs.map Val.render)
  | .error _ => "ERR"

partial def readAll (h : IO.FS.Stream) (acc : Array String) : IO (Array String) := do
  let line ← h.getLine
  if line.isEmpty then return acc
  readAll h (acc.push (line.trimAscii.toString))

def toks (s : String) : Toks := (s.splitOn " ").filter (· != "")

def main : IO Unit := do
  let lines ← readAll (← IO.getStdin) #[]
  let mut i := 0
  while i < lines.size do
    match toks lines[i]! with
    | "P" :: seed :: k :: r =>
      let params := match pVal.pVals k.toNat! r with | some (l, _) => l | none => []
      let mut body : List (Call Val) := []
      let mut rets : List (Arg Val) := []
      let mut bad := false
      i := i + 1
      while i < lines.size && lines[i]! != "E" do
        match toks lines[i]! with
        | "R" :: k :: r => match pArgs k.toNat! r with | some (l, _) => rets := l | none => bad := true
        | t => match pCall t with | some c => body := body ++ [c] | none => bad := true
        i := i + 1
      i := i + 1
      if bad then IO.println s!"{seed} PARSE" else
      -- plain
      let plain : Except Err (List Val) := do
        let env ← evalBody interp body params
        rets.mapM (evalArg env)
      -- model: tracer, then sequential denotation of the traced table, then resolve the return references
      let st := traceBody (initState params) body
      let st' := traceArgs st rets
      let cfg : ECfg Val := { nodes := st'.1.nodes, recOf := st'.1.recOf, interp := interp, init := st'.1.init }
      let ρ := den cfg
      let failed := cfg.nodes.any fun n => (outcome cfg ρ n).isNone
      let model : Except Err (List Val) := if failed then .error .usage else st'.2.mapM (resolve ρ)
      IO.println s!"{seed} plain {renderRes plain}"
      IO.println s!"{seed} model {renderRes model}"
    | _ => i := i + 1
