import VD.Val
import VM.FlagThm
/-! Negation witnesses for the two known findings about activation flags on nested calls: concrete
    modules on which the table the tracer builds (what the code does) and the inlining specification
    disagree.  Both lie outside `FlagSafe`, the hypothesis of `C20_nested_inlining_flags`. -/
namespace VD
open VM

/-- callee returns its (unsupplied) defaulted parameter -/
def wDefault : List (Def Val) :=
  [ { params := [some (.int 7)], body := [], ret := .single (.var 0 []) },
    { params := [], body := [.dag 0 [] (some (.const (.bool false)))], ret := .single (.var 0 []) } ]

/-- callee returns an indexed part of the result of one of its nodes -/
def wIndexed : List (Def Val) :=
  [ { params := [], body := [.call { fn := "pair", args := [.const (.int 1)], kwargs := [], active := none } none],
      ret := .single (.var 0 [.idx 0]) },
    { params := [], body := [.dag 0 [] (some (.const (.bool false)))], ret := .single (.var 0 []) } ]

def isSingleNone : Except Err (Shape Val) → Bool
  | .ok (.single .none) => true
  | _ => false

def isSingleInt (k : Int) : Except Err (Shape Val) → Bool
  | .ok (.single (.int i)) => i == k
  | _ => false

def isError : Except Err (Shape Val) → Bool
  | .error _ => true
  | _ => false

end VD

namespace VD
open VM

/-- known finding "returns-unsupplied-default": the specification says None, the table yields the default -/
theorem flag_witness_default :
    isSingleNone (evalTop (withIdent interp) wDefault 1 []) = true ∧
    isSingleInt 7 (runTop interp wDefault 1 []) = true ∧ flagSafeB wDefault = false := by
  refine ⟨?_, ?_, ?_⟩
  · simp [evalTop, evalTopComps, wDefault, evalStmts]; rfl
  · simp [runTop, traceTop, traceTopComps, wDefault, traceStmts]; rfl
  · simp [flagSafeB, stmtFlagSafeB, deadDefB, wDefault, deadStmtsB, argWholeB, bound, Shape.comps]

/-- known finding "indexed part returned": the specification says None, the execution raises -/
theorem flag_witness_indexed :
    isSingleNone (evalTop (withIdent interp) wIndexed 1 []) = true ∧
    isError (runTop interp wIndexed 1 []) = true ∧ flagSafeB wIndexed = false := by
  refine ⟨?_, ?_, ?_⟩
  · simp [evalTop, evalTopComps, wIndexed, evalStmts]; rfl
  · simp [runTop, traceTop, traceTopComps, wIndexed, traceStmts]; rfl
  · simp [flagSafeB, stmtFlagSafeB, deadDefB, wIndexed, deadStmtsB, argWholeB, bound, Shape.comps]

/-- a module WITH a flagged nested call that satisfies `FlagSafe` (non-vacuity of the hypothesis) -/
def wSafe : List (Def Val) :=
  [ { params := [none, some (.int 7)],
      body := [.call { fn := "pair", args := [.var 0 []], kwargs := [], active := none } none,
               .call { fn := "ident", args := [.var 1 []], kwargs := [], active := none } none],
      ret := .tuple [.var 2 [], .var 3 []] },
    { params := [none], body := [.dag 0 [.var 0 []] (some (.var 0 []))], ret := .tuple [.var 1 [], .var 2 []] } ]

theorem wSafe_flagSafe : FlagSafe wSafe := by
  apply flagSafeB_sound
  simp [flagSafeB, stmtFlagSafeB, deadDefB, wSafe, deadStmtsB, argWholeB, bound, Shape.comps]

end VD
