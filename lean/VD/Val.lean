import VM.C01
/-! Prototype: concrete Python-like values and a small function library for differential runs. -/
namespace VD
open VM

inductive Val where
  | none
  | bool (b : Bool)
  | int (i : Int)
  | str (s : String)
  | tuple (l : List Val)
  | list (l : List Val)
  | dict (l : List (String × Val))
deriving Repr, Inhabited

partial def Val.beq : Val → Val → Bool
  | .none, .none => true
  | .bool a, .bool b => a == b
  | .int a, .int b => a == b
  | .bool a, .int b => (if a then 1 else 0) == b        -- Python: True == 1
  | .int a, .bool b => a == (if b then 1 else 0)
  | .str a, .str b => a == b
  | .tuple a, .tuple b => a.length == b.length && (a.zip b).all fun (x, y) => Val.beq x y
  | .list a, .list b => a.length == b.length && (a.zip b).all fun (x, y) => Val.beq x y
  | .dict a, .dict b => a.length == b.length && a.all fun (k, v) => match b.find? (·.1 == k) with
      | some (_, w) => Val.beq v w | Option.none => false
  | _, _ => false

def Val.truthy : Val → Bool
  | .none => false
  | .bool b => b
  | .int i => i != 0
  | .str s => !s.isEmpty
  | .tuple l => !l.isEmpty
  | .list l => !l.isEmpty
  | .dict l => !l.isEmpty

def seqGet (l : List Val) (i : Int) : Option Val :=
  let n : Int := l.length
  let j := if i < 0 then i + n else i
  if j < 0 || j ≥ n then Option.none else l[j.toNat]?

def Val.getItem : Val → Key → Option Val
  | .tuple l, .idx i => seqGet l i
  | .list l, .idx i => seqGet l i
  | .dict l, .name k => (l.find? (·.1 == k)).map (·.2)
  | .str s, .idx i =>          -- Python: indexing a string gives a one-character string
    let cs := s.toList
    let n : Int := cs.length
    let j := if i < 0 then i + n else i
    if j < 0 || j ≥ n then Option.none else (cs[j.toNat]?).map fun c => .str (String.singleton c)
  | _, _ => Option.none

instance : PyVal Val := ⟨Val.none, Val.truthy, Val.getItem⟩

partial def Val.render : Val → String
  | .none => "N"
  | .bool b => if b then "T" else "F"
  | .int i => s!"I{i}"
  | .str s => s!"S{s}"
  | .tuple l => "(" ++ ",".intercalate (l.map Val.render) ++ ")"
  | .list l => "[" ++ ",".intercalate (l.map Val.render) ++ "]"
  | .dict l => "{" ++ ",".intercalate (l.map fun (k, v) => k ++ ":" ++ Val.render v) ++ "}"

/-- integer view used by the arithmetic library functions (Python: bool is an int) -/
def asInt : Val → Option Int
  | .int i => some i
  | .bool b => some (if b then 1 else 0)
  | _ => Option.none

def isIntNotBool : Val → Bool | .int _ => true | _ => false

def kwGet (kws : List (String × Val)) (k : String) (dflt : Val) : Val :=
  match kws.find? (·.1 == k) with | some (_, v) => v | Option.none => dflt

/-- Python's `seq * k` -/
def repSeq (l : List Val) (k : Int) : List Val := (List.replicate k.toNat l).flatten

/-- the function library (same definitions as harness/lib.py) -/
def interp : Interp Val := fun f args kws =>
  match f, args with
  | "ident", [x] => .ok x
  | "tag2", [a] => .ok (.tuple [.str "tag2", a, kwGet kws "b" (.int 0)])
  | "tag2", [a, b] => .ok (.tuple [.str "tag2", a, b])
  | "kw", [a] => .ok (.tuple [.str "kw", a, kwGet kws "k" (.int 1), kwGet kws "j" (.int 2)])
  | "pair", [x] => .ok (.tuple [.tuple [.str "L", x], .tuple [.str "R", x]])
  | "trip", [x] => .ok (.list [x, .tuple [x, x], .dict [("k", x)]])
  | "mkd", [x] => .ok (.dict [("a", x), ("b", .tuple [.str "b", x]), ("n", .list [x, x]), ("(0,1)", .tuple [.str "t", x])])
  | "ispos", [x] => .ok (.bool (match x with | .int i => i > 0 | .bool b => b | _ => false))
  | "num", [x] => .ok (if isIntNotBool x then x else .int 3)
  | "const5", [] => .ok (.int 5)
  | "not_", [x] => .ok (.bool (!x.truthy))
  | "and_", [a, b] => .ok (if a.truthy then b else a)
  | "or_", [a, b] => .ok (if a.truthy then a else b)
  | "_neg", [a] => match asInt a with | some i => .ok (.int (-i)) | Option.none => .error .usage
  | "_eq", [a, b] => .ok (.bool (Val.beq a b))
  | "_ne", [a, b] => .ok (.bool (!(Val.beq a b)))
  | "_add", [.tuple a, .tuple b] => .ok (.tuple (a ++ b))          -- sequence concatenation (not commutative)
  | "_add", [.list a, .list b] => .ok (.list (a ++ b))
  | "_add", [.str a, .str b] => .ok (.str (a ++ b))
  | "_mul", [.tuple a, b] => (match asInt b with | some k => .ok (.tuple (repSeq a k)) | Option.none => .error .usage)
  | "_mul", [.list a, b] => (match asInt b with | some k => .ok (.list (repSeq a k)) | Option.none => .error .usage)
  | "_mul", [b, .tuple a] => (match asInt b with | some k => .ok (.tuple (repSeq a k)) | Option.none => .error .usage)
  | "_mul", [b, .list a] => (match asInt b with | some k => .ok (.list (repSeq a k)) | Option.none => .error .usage)
  | op, [a, b] =>
    match asInt a, asInt b with
    | some x, some y =>
      match op with
      | "_add" => .ok (.int (x + y)) | "_sub" => .ok (.int (x - y)) | "_mul" => .ok (.int (x * y))
      | "_lt" => .ok (.bool (x < y)) | "_le" => .ok (.bool (x ≤ y)) | "_gt" => .ok (.bool (x > y))
      | "_ge" => .ok (.bool (x ≥ y)) | "_eq" => .ok (.bool (x == y)) | "_ne" => .ok (.bool (x != y))
      | "_floordiv" => if y == 0 then .error .usage else .ok (.int (Int.fdiv x y))
      | "_mod" => if y == 0 then .error .usage else .ok (.int (Int.fmod x y))
      | _ => .error .usage
    | _, _ => .error .usage
  | _, _ => .error .usage

end VD
