import TH.Threads
import TH.Safe
