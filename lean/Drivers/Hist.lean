import VD.Val
import VM.Cache
import VM.Executor
import VM.SetupIndep
import GM.SelectExec
import VM.Canon
/-! Line-protocol driver for histories (slice H): one DAG table, several instances, operations
    call / executor run / setup / fork (deep copy) / restart-from-cache.

    H <id> <n>
    N <setup 0|1> <failx 0|1> <usearg 0|1> <retnone 0|1> <flag j|-> <pred>*
                                                           node i returns ("n<i>", *args) or None; args = values of
                                                           preds (+ x, y when usearg); failx: raises when x == 13;
                                                           flag: twz_active = whole result of node j;
                                                           pred ::= <j> | <j>~ | <j>~k   (~ : used as v[-2][0];  ~k : used as v[-2]["k"])
    O <inst> call <k> <sel>^k <na> <value>^na             DAG call / executor run over selection `sel`
    O <inst> setup <k> <sel>^k
    O <inst> execT <k> <T>^k <na> <value>^na               executor(target_nodes=T) called once: the SELECTION is computed here
                                                           (GM.selectNodes: the targets and their ancestors, activation-flag
                                                           producers included), then like call
    O <inst> setupT <k> <T>^k                              setup(target_nodes=T): the setup nodes among that selection
    O <inst> peek <k> <sel>^k <na> <value>^na             like call, instance unchanged
    O <inst> fork <newinst>
    O <inst> seeded <k> <sel>^k <m> <cached>^m <na> <value>^na     restart of the run (sel,args) from a cache holding `cached`
    O <inst> xcache <slot> <k> <sel>^k <m> <noncache>^m <na> <value>^na [C <slot'>]   (C: the executor also has from_cache = file <slot'>)
                                                           a fresh executor with cache_in = file <slot> (cache_deps_of targets
                                                           = noncache) called once (VM.xRun); the answer carries `F <keys>`:
                                                           the ids the model says the file holds (n, n+1 = the DAG's parameters)
    O <inst> xrestart <slot> <k> <sel>^k <na> <value>^na [W <slot'>]  a fresh executor with from_cache = file <slot> (and
                                                           cache_in = file <slot'>, which may be the same file) called once
    O <inst> xmk <xid> <k> <sel>^k [C <slot>]              (C <slot>: with from_cache = file <slot>, read when the object is CALLED)
                                                           an executor object is CREATED on the instance and kept (xid = 0,1,2,… in
                                                           creation order); nothing runs                 -> <id> <opidx> NOOP
    O <inst> xrun <xid> <na> <value>^na                    the kept executor object is called (VM.xRun on the instance AS IT IS NOW):
                                                           -> <id> <opidx> REFUSED  if the object was used before, else like call
    E
    -> <id> -1 REGION closed|open      (once per table: `VM.regionClosedB` on the setup nodes — the hypothesis of the C15 / C11
                                        semantic theorems; every table the real constructor accepts must be `closed`)
    -> <id> <opidx> OK|FAIL E <entered…> R <value or -> per node
-/
open VM VD TM

abbrev Toks := List String

partial def pVal : Toks → Option (Val × Toks)
  | "N" :: r => some (.none, r)
  | "T" :: r => some (.bool true, r)
  | "F" :: r => some (.bool false, r)
  | "I" :: n :: r => n.toInt?.map fun i => (.int i, r)
  | "S" :: w :: r => some (.str (if w == "\"\"" then "" else w), r)
  | "(" :: k :: r => do let (l, r') ← pVals k.toNat! r; pure (.tuple l, r')
  | "{" :: k :: r => do let (l, r') ← pKVs k.toNat! r; pure (.dict l, r')
  | _ => none
where
  pVals : Nat → Toks → Option (List Val × Toks)
    | 0, r => some ([], r)
    | n+1, r => do let (v, r1) ← pVal r; let (vs, r2) ← pVals n r1; pure (v :: vs, r2)
  pKVs : Nat → Toks → Option (List (String × Val) × Toks)
    | 0, r => some ([], r)
    | n+1, k :: r => do let (v, r1) ← pVal r; let (vs, r2) ← pKVs n r1; pure ((k, v) :: vs, r2)
    | _, _ => none

structure NSpec where
  setup : Bool
  failx : Bool
  usearg : Bool
  retNone : Bool        -- the function returns None (a legitimate result, e.g. a side-effect-only setup node)
  flag : Option Nat     -- producer of the activation flag (whole result)
  preds : List (Nat × Option Key)   -- predecessor, and (if any) the key k of a use  v[-2][k]

def parsePred (w : String) : Option (Nat × Option Key) :=
  match w.splitOn "~" with
  | [j] => j.toNat?.map (fun n => (n, none))
  | [j, ""] => j.toNat?.map (fun n => (n, some (Key.idx 0)))
  | [j, k] => j.toNat?.map (fun n => (n, some (Key.name k)))
  | _ => none

def mkInterp (specs : Array NSpec) : Interp Val := fun f args _ =>
  match f.toNat? with
  | none => .error .usage
  | some i =>
    let sp := specs.getD i ⟨false, false, false, false, none, []⟩
    let x := if sp.usearg then args.getD (args.length - 2) .none else .none
    if sp.failx && sp.usearg && Val.beq x (.int 13) then .error (.node i)
    else if sp.retNone then .ok .none
    else .ok (.tuple (.str s!"n{i}" :: args))

def mkDag (specs : Array NSpec) : Dag Val :=
  let n := specs.size
  { nodes := List.range n,
    recOf := fun i =>
      let sp := specs.getD i ⟨false, false, false, false, none, []⟩
      { fn := toString i,
        args := sp.preds.map (fun p => (⟨p.1, match p.2 with | some k => [Key.idx (-2), k] | none => []⟩ : Ref))
                ++ (if sp.usearg then [⟨n, []⟩, ⟨n + 1, []⟩] else []),
        kwargs := [], active := sp.flag.map (fun j => (⟨j, []⟩ : Ref)) },
    isSetup := fun i => (specs.getD i ⟨false, false, false, false, none, []⟩).setup,
    interp := mkInterp specs,
    params := [n, n + 1] }

/-- the dependency graph of the table (arguments and activation-flag producers), for selections -/
def mkGraph (specs : Array NSpec) : GM.G :=
  { nodes := List.range specs.size,
    preds := fun i =>
      let sp := specs.getD i ⟨false, false, false, false, none, []⟩
      sp.preds.map (·.1) ++ (match sp.flag with | some j => [j] | none => []) }

def takeNats (k : Nat) (t : Toks) : List Nat × Toks := ((t.take k).filterMap String.toNat?, t.drop k)

def reportF (sid : String) (idx : Nat) (n : Nat) (c : ECfg Val) (file : String) : String :=
  let ρ := den c
  let ok := succeeded c
  let ent := (entered c).mergeSort (· ≤ ·)
  let vals := (List.range n).map fun i => match ρ i with | some v => v.render | none => "-"
  s!"{sid} {idx} {if ok then "OK" else "FAIL"}{file} E {" ".intercalate (ent.map toString)} R {" ".intercalate vals}"

def report (sid : String) (idx : Nat) (n : Nat) (c : ECfg Val) : String := reportF sid idx n c ""

/-- the node / parameter ids a file holds, with the values of the nodes -/
def fileKeys (n : Nat) (f : File Val) : String :=
  let ks := (List.range (n + 2)).filter (fun i => (f i).isSome)
  " F " ++ " ".intercalate (ks.map fun i => s!"{i}={match f i with | some v => v.render | none => "-"}")

partial def readAll (h : IO.FS.Stream) (acc : Array String) : IO (Array String) := do
  let line ← h.getLine
  if line.isEmpty then return acc
  readAll h (acc.push (line.trimAscii.toString))

def toks (s : String) : Toks := (s.splitOn " ").filter (· != "")

def main : IO Unit := do
  let lines ← readAll (← IO.getStdin) #[]
  let mut i := 0
  while i < lines.size do
    match toks lines[i]! with
    | ["H", sid, n] =>
      let n := n.toNat!
      let mut specs : Array NSpec := #[]
      for j in [0:n] do
        match toks (lines[i + 1 + j]!) with
        | "N" :: su :: fx :: ua :: rn :: fl :: ps =>
          specs := specs.push ⟨su == "1", fx == "1", ua == "1", rn == "1", fl.toNat?, ps.filterMap parsePred⟩
        | _ => pure ()
      let dag := mkDag specs
      let res0 : Results Val := fun x => if x = n + 1 then some (.int 7) else none
      let mut insts : Array (Inst Val) := #[⟨dag, res0⟩]
      let mut files : Nat → Option (File Val) := fun _ => none
      let mut xobjs : Array (Nat × XObj) := #[]
      let mut selsClosed := true     -- every selection computed here satisfies ClosedSel (hypothesis of C15_call_after_any_history)
      -- the hypothesis of C15_call_after_history_is_fresh / C11_setup_value_independent_of_arguments, decided on this table:
      -- the setup nodes form a region closed under all references that holds no parameter
      let closed := regionClosedB dag.recOf dag.nodes dag.isSetup && dag.params.all (fun p => !dag.isSetup p)
      IO.println s!"{sid} -1 REGION {if closed then "closed" else "open"}"
      i := i + 1 + n
      let mut idx := 0
      while i < lines.size && lines[i]! != "E" do
        match toks lines[i]! with
        | "O" :: inst :: "call" :: k :: r =>
          let (sel, r1) := takeNats k.toNat! r
          let args := match r1 with
            | na :: r2 => (match pVal.pVals na.toNat! r2 with | some (l, _) => l | none => [])
            | [] => []
          let it := insts.getD inst.toNat! ⟨dag, res0⟩
          let op : Op Val := .call sel args
          IO.println (report sid idx n (opCfg it op))
          insts := insts.setIfInBounds inst.toNat! (applyOp it op)
        | "O" :: inst :: "execT" :: k :: r =>
          let (T, r1) := takeNats k.toNat! r
          let sel := GM.selectNodes (mkGraph specs) none none (some T)
          selsClosed := selsClosed && closedSelB ⟨dag, res0⟩ dag.isSetup (fun n => sel.contains n)
          let args := match r1 with
            | na :: r2 => (match pVal.pVals na.toNat! r2 with | some (l, _) => l | none => [])
            | [] => []
          let it := insts.getD inst.toNat! ⟨dag, res0⟩
          let op : Op Val := .call sel args
          IO.println (report sid idx n (opCfg it op))
          insts := insts.setIfInBounds inst.toNat! (applyOp it op)
        | "O" :: inst :: "setupT" :: k :: r =>
          let (T, _) := takeNats k.toNat! r
          let sel := (GM.selectNodes (mkGraph specs) none none (some T)).filter dag.isSetup
          selsClosed := selsClosed && closedSelB ⟨dag, res0⟩ dag.isSetup (fun n => sel.contains n)
          let it := insts.getD inst.toNat! ⟨dag, res0⟩
          let op : Op Val := .setup sel
          IO.println (report sid idx n (opCfg it op))
          insts := insts.setIfInBounds inst.toNat! (applyOp it op)
        | "O" :: inst :: "peek" :: k :: r =>      -- like call, but the instance is left as it is
          let (sel, r1) := takeNats k.toNat! r
          let args := match r1 with
            | na :: r2 => (match pVal.pVals na.toNat! r2 with | some (l, _) => l | none => [])
            | [] => []
          let it := insts.getD inst.toNat! ⟨dag, res0⟩
          IO.println (report sid idx n (opCfg it (.call sel args)))
        | "O" :: inst :: "setup" :: k :: r =>
          let (sel, _) := takeNats k.toNat! r
          let it := insts.getD inst.toNat! ⟨dag, res0⟩
          let op : Op Val := .setup sel
          IO.println (report sid idx n (opCfg it op))
          insts := insts.setIfInBounds inst.toNat! (applyOp it op)
        | ["O", inst, "fork", _new] =>
          insts := insts.push (insts.getD inst.toNat! ⟨dag, res0⟩)
          IO.println s!"{sid} {idx} FORK"
        | "O" :: inst :: "seeded" :: k :: r =>
          let (sel, r1) := takeNats k.toNat! r
          match r1 with
          | m :: r2 =>
            let (cached, r3) := takeNats m.toNat! r2
            let args := match r3 with
              | na :: r4 => (match pVal.pVals na.toNat! r4 with | some (l, _) => l | none => [])
              | [] => []
            let it := insts.getD inst.toNat! ⟨dag, res0⟩
            let c := opCfg it (.call sel args)
            let c' := seeded c (fun x => cached.contains x)
            IO.println (report sid idx n c')
            if succeeded c' then insts := insts.setIfInBounds inst.toNat! (copyBack it (den c'))
          | [] => IO.println s!"{sid} {idx} PARSE"
        | "O" :: inst :: "xcache" :: slot :: k :: r =>
          let (sel, r1) := takeNats k.toNat! r
          match r1 with
          | m :: r2 =>
            let (nonc, r3) := takeNats m.toNat! r2
            let (args, rest) := match r3 with
              | na :: r4 => (match pVal.pVals na.toNat! r4 with | some (l, r5) => (l, r5) | none => ([], []))
              | [] => ([], [])
            -- `C <slot'>`: the caching executor itself STARTS from file <slot'> (from_cache next to cache_in / cache_deps_of)
            let from? : Option Nat := match rest with | ["C", s'] => s'.toNat? | _ => none
            let it := insts.getD inst.toNat! ⟨dag, res0⟩
            let spec : XSpec := ⟨sel, fun x => nonc.contains x, some slot.toNat!, from?⟩
            let w : World Val := ⟨it, files⟩
            let r := xRun w (XObj.fresh spec) args
            let c := xCfgOf it spec ((xStart w spec).getD it.res) args
            let fk := match r.2.2, r.1.files slot.toNat! with
              | .ok _, some f => fileKeys n f
              | _, _ => ""
            IO.println (reportF sid idx n c fk)
            insts := insts.setIfInBounds inst.toNat! r.1.inst
            files := r.1.files
          | [] => IO.println s!"{sid} {idx} PARSE"
        | "O" :: inst :: "xmk" :: _xid :: k :: r =>
          let (sel, r1) := takeNats k.toNat! r
          let from? : Option Nat := match r1 with | ["C", slot] => slot.toNat? | _ => none
          xobjs := xobjs.push (inst.toNat!, XObj.fresh ⟨sel, fun _ => false, none, from?⟩)
          IO.println s!"{sid} {idx} NOOP"
        | "O" :: _inst :: "xrun" :: xid :: r =>
          let args := match r with
            | na :: r2 => (match pVal.pVals na.toNat! r2 with | some (l, _) => l | none => [])
            | [] => []
          match xobjs[xid.toNat!]? with
          | none => IO.println s!"{sid} {idx} PARSE"
          | some (ix, o) =>
            let it := insts.getD ix ⟨dag, res0⟩
            let w : World Val := ⟨it, files⟩
            let r := xRun w o args
            if o.used then IO.println s!"{sid} {idx} REFUSED"
            else match xStart w o.spec with
              | none => IO.println s!"{sid} {idx} NOFILE"
              | some start => IO.println (report sid idx n (xCfgOf it o.spec start args))
            insts := insts.setIfInBounds ix r.1.inst
            files := r.1.files
            xobjs := xobjs.setIfInBounds xid.toNat! (ix, r.2.1)
        | "O" :: inst :: "xrestart" :: slot :: k :: r =>
          let (sel, r1) := takeNats k.toNat! r
          let (args, rest) := match r1 with
            | na :: r2 => (match pVal.pVals na.toNat! r2 with | some (l, r3) => (l, r3) | none => ([], []))
            | [] => ([], [])
          -- `W <slot'>`: the restarted executor also has cache_in = file <slot'> (possibly the file it reads)
          let wr? : Option Nat := match rest with | ["W", s'] => s'.toNat? | _ => none
          let it := insts.getD inst.toNat! ⟨dag, res0⟩
          let spec : XSpec := ⟨sel, fun _ => false, wr?, some slot.toNat!⟩
          let w : World Val := ⟨it, files⟩
          match xStart w spec with
          | none => IO.println s!"{sid} {idx} NOFILE"
          | some start =>
            let r := xRun w (XObj.fresh spec) args
            let fk := match wr?, r.2.2 with
              | some s', .ok _ => (match r.1.files s' with | some f => fileKeys n f | none => "")
              | _, _ => ""
            IO.println (reportF sid idx n (xCfgOf it spec start args) fk)
            insts := insts.setIfInBounds inst.toNat! r.1.inst
            files := r.1.files
        | _ => IO.println s!"{sid} {idx} PARSE"
        idx := idx + 1
        i := i + 1
      IO.println s!"{sid} -2 SELECTIONS {if selsClosed then "closed" else "open"}"
      i := i + 1
    | _ => i := i + 1
