import VD.Val
import VM.Compose
/-! Line-protocol driver for compose (slice C19).

    T <id> <n>
    N <ret t|z> <usearg 0|1> <const 0|1> <flag j[/k]|-> <pred>*     node i; value ("n<i>", *args, *(kw, v)) or 0 (ret z);
                                                                pred ::= [<kw>:]<j>[/0]   (keyword name, index-0 key path)
    Q <k> <out>^k <m> <in>^m <value>^m                          holders: x = n (required), y = n+1 (default 7)
    E
    -> <id> <q> OK <value>^k | MISSING | INPUTDEP | FAIL | OPEN (closure hypothesis of the C19 theorem fails)
-/
open VM VD TM

abbrev Toks := List String

partial def pVal : Toks → Option (Val × Toks)
  | "N" :: r => some (.none, r)
  | "T" :: r => some (.bool true, r)
  | "F" :: r => some (.bool false, r)
  | "I" :: n :: r => n.toInt?.map fun i => (.int i, r)
  | "S" :: w :: r => some (.str w, r)
  | "(" :: k :: r => do let (l, r') ← pVals k.toNat! r; pure (.tuple l, r')
  | _ => none
where
  pVals : Nat → Toks → Option (List Val × Toks)
    | 0, r => some ([], r)
    | n+1, r => do let (v, r1) ← pVal r; let (vs, r2) ← pVals n r1; pure (v :: vs, r2)

/-- a predecessor use: node index, optional index-0 key path, optional keyword name -/
structure PUse where
  src : Nat
  idx0 : Bool
  kw : Option String

structure NSpec where
  retz : Bool
  usearg : Bool
  const : Bool
  flag : Option (Nat × Option Nat)     -- producer, optional index into its value
  preds : List PUse

def dflt : NSpec := ⟨false, false, false, none, []⟩

def parsePUse (s : String) : Option PUse :=
  let (kw, rest) := match s.splitOn ":" with
    | [k, r] => (some k, r)
    | _ => (none, s)
  match rest.splitOn "/" with
  | [j] => j.toNat?.map fun n => ⟨n, false, kw⟩
  | [j, _] => j.toNat?.map fun n => ⟨n, true, kw⟩
  | _ => none

def parseFlag (s : String) : Option (Nat × Option Nat) :=
  match s.splitOn "/" with
  | [j] => j.toNat?.map fun n => (n, none)
  | [j, k] => match j.toNat?, k.toNat? with | some n, some i => some (n, some i) | _, _ => none
  | _ => none

def puseRef (p : PUse) : Ref := ⟨p.src, if p.idx0 then [Key.idx 0] else []⟩

def mkCfg (specs : Array NSpec) : ECfg Val :=
  let n := specs.size
  { nodes := List.range n,
    recOf := fun i =>
      let sp := specs.getD i dflt
      { fn := toString i,
        args := (sp.preds.filter (fun p => p.kw.isNone)).map puseRef ++ (if sp.const then [⟨n + 2 + i, []⟩] else [])
                ++ (if sp.usearg then [⟨n, []⟩, ⟨n + 1, []⟩] else []),
        kwargs := (sp.preds.filterMap fun p => p.kw.map fun k => (k, puseRef p)),
        active := sp.flag.map (fun p => (⟨p.1, match p.2 with | none => [] | some k => [Key.idx (Int.ofNat k)]⟩ : Ref)) },
    interp := fun f args kws =>
      match f.toNat? with
      | none => .error .usage
      | some i =>
        if (specs.getD i dflt).retz then .ok (.int 0)
        else .ok (.tuple (.str s!"n{i}" :: args ++ kws.map fun p => .tuple [.str p.1, p.2])),
    init := fun x => if x = n + 1 then some (.int 7) else if x ≥ n + 2 then some (.int 7) else none }

def takeNats (k : Nat) (t : Toks) : List Nat × Toks := ((t.take k).filterMap String.toNat?, t.drop k)

partial def readAll (h : IO.FS.Stream) (acc : Array String) : IO (Array String) := do
  let line ← h.getLine
  if line.isEmpty then return acc
  readAll h (acc.push (line.trimAscii.toString))

def toks (s : String) : Toks := (s.splitOn " ").filter (· != "")

def main : IO Unit := do
  let lines ← readAll (← IO.getStdin) #[]
  let mut i := 0
  while i < lines.size do
    match toks lines[i]! with
    | ["T", sid, n] =>
      let n := n.toNat!
      let mut specs : Array NSpec := #[]
      for j in [0:n] do
        match toks (lines[i + 1 + j]!) with
        | "N" :: rt :: ua :: cs :: fl :: ps =>
          specs := specs.push ⟨rt == "z", ua == "1", cs == "1", parseFlag fl, ps.filterMap parsePUse⟩
        | _ => pure ()
      let c := mkCfg specs
      i := i + 1 + n
      let mut q := 0
      while i < lines.size && lines[i]! != "E" do
        match toks lines[i]! with
        | "Q" :: k :: r =>
          let (outs, r1) := takeNats k.toNat! r
          match r1 with
          | m :: r2 =>
            let (ins, r3) := takeNats m.toNat! r2
            let vals := match pVal.pVals m.toNat! r3 with | some (l, _) => l | none => []
            if inputDependsOnInput c ins then IO.println s!"{sid} {q} INPUTDEP"
            else if !(missingInputs c ins outs [n, n + 1]).isEmpty then IO.println s!"{sid} {q} MISSING"
            else
              let cc := composeCfg c ins outs vals
              let ρ := den cc
              -- hypothesis of VM.C19_compose_computes_outputs, checked on this very table
              if !isClosedB (withInputs c ins vals) (fun x => (needed c ins outs).contains x) then
                IO.println s!"{sid} {q} OPEN"
              else if cc.nodes.any (fun x => (outcome cc ρ x).isNone) then IO.println s!"{sid} {q} FAIL"
              else
                let vs := outs.map fun o => match ρ o with | some v => v.render | none => "N"
                IO.println s!"{sid} {q} OK {" ".intercalate vs}"
          | [] => IO.println s!"{sid} {q} PARSE"
        | _ => IO.println s!"{sid} {q} PARSE"
        q := q + 1
        i := i + 1
      i := i + 1
    | _ => i := i + 1
