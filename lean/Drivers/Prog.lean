import VD.Val
import VM.Prog
import VM.FlagThm
/-! Line-protocol driver for programs (slices V and B).  Protocol: DESIGN.md appendix A.2 (extended).

    M <id> <ndefs> <top> <nargs> value^nargs
    F <nparams> (d value | r)^nparams                          one per definition, followed by its body:
    C <fn> <na> arg^na <nk> (<name> arg)^nk (0 | 1 arg) (u <k> | -)
    G <callee> <na> arg^na (0 | 1 arg)
    R <n|s|t|l|d> <k> (<key>? arg)^k                           closes the definition
    E
    -> <id> plain OK <value> | ERR ;  <id> model OK <value> | ERR ;  <id> flagsafe T|F (VM.flagSafeB) ;  <id> table … (one line per node)
-/
open VM VD

abbrev Toks := List String

partial def pVal : Toks → Option (Val × Toks)
  | "N" :: r => some (.none, r)
  | "T" :: r => some (.bool true, r)
  | "F" :: r => some (.bool false, r)
  | "I" :: n :: r => n.toInt?.map fun i => (.int i, r)
  | "S" :: w :: r => some (.str (if w == "\"\"" then "" else w), r)
  | "(" :: k :: r => do let (l, r') ← pVals k.toNat! r; pure (.tuple l, r')
  | "[" :: k :: r => do let (l, r') ← pVals k.toNat! r; pure (.list l, r')
  | "{" :: k :: r => do let (l, r') ← pKVs k.toNat! r; pure (.dict l, r')
  | _ => none
where
  pVals : Nat → Toks → Option (List Val × Toks)
    | 0, r => some ([], r)
    | n+1, r => do let (v, r1) ← pVal r; let (vs, r2) ← pVals n r1; pure (v :: vs, r2)
  pKVs : Nat → Toks → Option (List (String × Val) × Toks)
    | 0, r => some ([], r)
    | n+1, k :: r => do let (v, r1) ← pVal r; let (vs, r2) ← pKVs n r1; pure ((k, v) :: vs, r2)
    | _, _ => none

def pKeys : Nat → Toks → Option (List Key × Toks)
  | 0, r => some ([], r)
  | n+1, "i" :: x :: r => do let (ks, r') ← pKeys n r; pure (.idx x.toInt! :: ks, r')
  | n+1, "s" :: x :: r => do let (ks, r') ← pKeys n r; pure (.name x :: ks, r')
  | _, _ => none

def pArg : Toks → Option (Arg Val × Toks)
  | "c" :: r => do let (v, r') ← pVal r; pure (.const v, r')
  | "v" :: i :: k :: r => do let (ks, r') ← pKeys k.toNat! r; pure (.var i.toNat! ks, r')
  | _ => none

def pArgs : Nat → Toks → Option (List (Arg Val) × Toks)
  | 0, r => some ([], r)
  | n+1, r => do let (a, r1) ← pArg r; let (as, r2) ← pArgs n r1; pure (a :: as, r2)

def pKwArgs : Nat → Toks → Option (List (String × Arg Val) × Toks)
  | 0, r => some ([], r)
  | n+1, k :: r => do let (a, r1) ← pArg r; let (as, r2) ← pKwArgs n r1; pure ((k, a) :: as, r2)
  | _, _ => none

def pFlag : Toks → Option (Option (Arg Val) × Toks)
  | "0" :: r => some (none, r)
  | "1" :: r => do let (a, r') ← pArg r; pure (some a, r')
  | _ => none

def pStmt (t : Toks) : Option (Stmt Val) :=
  match t with
  | "C" :: fn :: na :: r => do
    let (args, r1) ← pArgs na.toNat! r
    match r1 with
    | nk :: r2 => do
      let (kws, r3) ← pKwArgs nk.toNat! r2
      let (fl, r4) ← pFlag r3
      let c : Call Val := { fn := fn, args := args, kwargs := kws, active := fl }
      match r4 with
      | ["u", k] => pure (.call c (some k.toNat!))
      | ["-"] => pure (.call c none)
      | _ => none
    | _ => none
  | "G" :: callee :: na :: r => do
    let (args, r1) ← pArgs na.toNat! r
    let (fl, _) ← pFlag r1
    pure (.dag callee.toNat! args fl)
  | _ => none

def pParams : Nat → Toks → Option (List (Option Val))
  | 0, _ => some []
  | n+1, "r" :: r => do let ps ← pParams n r; pure (none :: ps)
  | n+1, "d" :: r => do let (v, r1) ← pVal r; let ps ← pParams n r1; pure (some v :: ps)
  | _, _ => none

def pDictItems : Nat → Toks → Option (List (String × Arg Val))
  | 0, _ => some []
  | n+1, k :: r => do let (a, r1) ← pArg r; let rest ← pDictItems n r1; pure ((k, a) :: rest)
  | _, _ => none

/-- return shape; `none` = the definition returns nothing -/
def pRet (t : Toks) : Option (Option (Shape (Arg Val))) :=
  match t with
  | ["R", "n", _] => some none
  | "R" :: "s" :: _ :: r => do let (a, _) ← pArg r; pure (some (.single a))
  | "R" :: "t" :: k :: r => do let (l, _) ← pArgs k.toNat! r; pure (some (.tuple l))
  | "R" :: "l" :: k :: r => do let (l, _) ← pArgs k.toNat! r; pure (some (.list l))
  | "R" :: "d" :: k :: r => do let l ← pDictItems k.toNat! r; pure (some (.dict l))
  | _ => none

def shapeVal : Shape Val → Val
  | .single v => v
  | .tuple l => .tuple l
  | .list l => .list l
  | .dict l => .dict l

def renderRes (noRet : Bool) (r : Except Err (Shape Val)) : String :=
  match r with
  | .ok s => "OK " ++ (if noRet then "N" else (shapeVal s).render)
  | .error _ => "ERR"

def renderKey : Key → String
  | .idx i => s!"i{i}"
  | .name s => s!"s{s}"

def renderRef (st : BState Val) (r : Ref) : String :=
  let base := match st.nodes.idxOf? r.src with
    | some k => s!"n{k}"
    | none => match st.init r.src with
      | some v => "c" ++ v.render
      | none => "?"
  base ++ String.join (r.path.map fun k => "/" ++ renderKey k)

partial def readAll (h : IO.FS.Stream) (acc : Array String) : IO (Array String) := do
  let line ← h.getLine
  if line.isEmpty then return acc
  readAll h (acc.push (line.trimAscii.toString))

def toks (s : String) : Toks := (s.splitOn " ").filter (· != "")

def main : IO Unit := do
  let lines ← readAll (← IO.getStdin) #[]
  let mut i := 0
  while i < lines.size do
    match toks lines[i]! with
    | "M" :: mid :: _nd :: top :: k :: r =>
      let args := match pVal.pVals k.toNat! r with | some (l, _) => l | none => []
      let mut defs : List (Def Val) := []
      let mut noRet : List Bool := []
      let mut bad := false
      let mut curParams : List (Option Val) := []
      let mut curBody : List (Stmt Val) := []
      i := i + 1
      while i < lines.size && lines[i]! != "E" do
        match toks lines[i]! with
        | "F" :: np :: r =>
          match pParams np.toNat! r with
          | some ps => curParams := ps; curBody := []
          | none => bad := true
        | "R" :: r =>
          match pRet ("R" :: r) with
          | some none => defs := defs ++ [{ params := curParams, body := curBody, ret := .tuple [] }]; noRet := noRet ++ [true]
          | some (some sh) => defs := defs ++ [{ params := curParams, body := curBody, ret := sh }]; noRet := noRet ++ [false]
          | none => bad := true
        | t => match pStmt t with | some s => curBody := curBody ++ [s] | none => bad := true
        i := i + 1
      i := i + 1
      if bad then IO.println s!"{mid} PARSE" else
      let topI := top.toNat!
      let nr := noRet.getD topI false
      let plain := evalTop (withIdent interp) defs topI args
      let model := runTop interp defs topI args
      IO.println s!"{mid} plain {renderRes nr plain}"
      IO.println s!"{mid} model {renderRes nr model}"
      IO.println s!"{mid} flagsafe {if flagSafeB defs then "T" else "F"}"
      match traceTop defs topI args with
      | .error _ => IO.println s!"{mid} table ERR"
      | .ok (st, rets) =>
        let mut k := 0
        for n in st.nodes do
          let rc := st.recOf n
          let a := " ".intercalate (rc.args.map (renderRef st))
          let kw := " ".intercalate (rc.kwargs.map fun p => p.1 ++ "=" ++ renderRef st p.2)
          let fl := match rc.active with | some r => renderRef st r | none => "-"
          IO.println s!"{mid} node {k} {rc.fn} args[{a}] kw[{kw}] flag[{fl}]"
          k := k + 1
        IO.println s!"{mid} ret {" ".intercalate (rets.comps.map (renderRef st))}"
    | _ => i := i + 1
