import GM.CP
import GM.Alias
import TM.Cycle
import GM.Config
import VM.Validate
/-! Line-protocol driver for the graph layer (slices G-cp, G-sel).  Protocol: DESIGN.md appendix A.3.

    Q <id> <n>
    N <prio> <debug 0|1> <pred>*                 (n lines; node i = line i; recording order)
    cp                                           -> <id> CP <v0> … <v(n-1)>
    cfg <seq flag 0|1 per node> ; <alias> <prio|-> <seq 0|1|-> ; …     a reconfiguration (GM.applyConfig: config_from_dict/yaml/json)
                                                 -> <id> CFG OK P <prio…> S <seq…> CP <compound priority…> | <id> CFG REFUSED alias|ambiguous
    valid <setup flag 0|1 per node> ; <constant-holder flag 0|1 per node>
                                                 the build-time dependency rules (VM.validateB; the N lines carry the debug flags,
                                                 a predecessor = any dependency: argument, keyword argument or activation flag)
                                                 -> <id> VALID ACCEPT|REFUSE
    cyc                                          -> <id> CYC ACCEPT|REFUSE     the build-time cycle check (TM.acyclicB);
                                                 for this query the N lines may list the nodes in ANY order
    I <node> <id> <tag>*                         (optional, any number: the node's id string and its tags)
    sel <R|-> ; <X|-> ; <T|-> ; <dbg 0|1>        -> <id> SEL <nodes…> | <id> VALUEERROR <why> | <id> OUTOFSCOPE
    asel <R|-> ; <X|-> ; <T|-> ; <dbg 0|1>       the same with ALIASES (r<node> | f | s:<string>), resolved by
                                                 GM.resolveAll (tag first, then id); unknown alias -> VALUEERROR alias
    E
-/
open GM

partial def readAll (h : IO.FS.Stream) (acc : Array String) : IO (Array String) := do
  let line ← h.getLine
  if line.isEmpty then return acc
  readAll h (acc.push (line.trimAscii.toString))

def toks (s : String) : List String := (s.splitOn " ").filter (· != "")

def parseSet (w : List String) : Option (List Node) :=
  match w with
  | ["-"] => none
  | l => some (l.filterMap String.toNat?)

def splitOnTok (l : List String) (sep : String) : List (List String) :=
  let rec go (l : List String) (cur : List String) (acc : List (List String)) : List (List String) :=
    match l with
    | [] => (acc ++ [cur])
    | x :: xs => if x == sep then go xs [] (acc ++ [cur]) else go xs (cur ++ [x]) acc
  go l [] []

def parseAlias (w : String) : Option Alias :=
  if w == "f" then some .foreign
  else if w.startsWith "r" then (w.drop 1).toNat?.map Alias.ref
  else if w.startsWith "s:" then some (.name (w.drop 2).toString)
  else none

/-- `none` = no restriction; `some none` = unparsable -/
def parseAliases (w : List String) : Option (Option (List Alias)) :=
  match w with
  | ["-"] => some none
  | l => (l.mapM parseAlias).map some

def dedup (l : List Node) : List Node := l.foldl (fun acc x => if acc.contains x then acc else acc ++ [x]) []

def showNodes (l : List Node) : String := " ".intercalate ((l.mergeSort (· ≤ ·)).map toString)

def main : IO Unit := do
  let lines ← readAll (← IO.getStdin) #[]
  let mut i := 0
  while i < lines.size do
    match toks lines[i]! with
    | ["Q", qid, n] =>
      let n := n.toNat!
      let mut prio : Array Int := #[]
      let mut dbg : Array Bool := #[]
      let mut preds : Array (List Node) := #[]
      for j in [0:n] do
        match toks (lines[i + 1 + j]!) with
        | "N" :: p :: d :: ps =>
          prio := prio.push p.toInt!; dbg := dbg.push (d == "1"); preds := preds.push (ps.filterMap String.toNat?)
        | _ => pure ()
      let g : G := { nodes := List.range n, preds := fun m => preds.getD m [] }
      let prioF : Node → Int := fun m => prio.getD m 0
      let dbgF : Node → Bool := fun m => dbg.getD m false
      i := i + 1 + n
      let mut idA : Array String := Array.replicate n ""
      let mut tagA : Array (List String) := Array.replicate n []
      while i < lines.size && lines[i]! != "E" do
        match toks lines[i]! with
        | "I" :: m :: name :: tags =>
          idA := idA.set! m.toNat! name; tagA := tagA.set! m.toNat! tags
        | "asel" :: rest =>
          let nm : Naming := { n := n, idOf := fun m => idA.getD m "", tagsOf := fun m => tagA.getD m [] }
          match splitOnTok rest ";" with
          | [r, x, t, [d]] =>
            match parseAliases r, parseAliases x, parseAliases t with
            | some Ra, some Xa, some Ta =>
              let res (o : Option (List Alias)) : Option (Option (List Node)) :=
                match o with | none => some none | some l => (resolveAll nm l).map (fun z => some (dedup z))
              match res Ra, res Xa, res Ta with
              | some R, some X, some T =>
                match selectChecked g R X T with
                | .error .notRoot => IO.println s!"{qid} VALUEERROR notroot"
                | .error .targetMissing => IO.println s!"{qid} VALUEERROR target"
                | .error .excludeMissing => IO.println s!"{qid} OUTOFSCOPE"
                | .ok sel =>
                  let gi := induced g (sel.contains ·)
                  let out := extendDebug g dbgF sel (leaves gi) (d == "1")
                  IO.println s!"{qid} SEL {showNodes out}"
              | _, _, _ => IO.println s!"{qid} VALUEERROR alias"
            | _, _, _ => IO.println s!"{qid} PARSE"
          | _ => IO.println s!"{qid} PARSE"
        | "cfg" :: rest =>
          let nm : Naming := { n := n, idOf := fun m => idA.getD m "", tagsOf := fun m => tagA.getD m [] }
          match splitOnTok rest ";" with
          | seqs :: ents =>
            let seqA : Array Bool := (seqs.map (· == "1")).toArray
            -- an entry written `s:<alias> ! !` is MALFORMED (a priority that is not an int / an entry that is not a mapping)
            let entries : List (Option RawEntry) := ents.map fun e =>
              match e with
              | [al, "!", "!"] => (parseAlias al).map fun a => (⟨⟨a, none, none⟩, false⟩ : RawEntry)
              | [al, p, sq] => (parseAlias al).map fun a =>
                  (⟨⟨a, if p == "-" then none else p.toInt?, if sq == "-" then none else some (sq == "1")⟩, true⟩ : RawEntry)
              | _ => none
            match entries.mapM id with
            | none => IO.println s!"{qid} PARSE"
            | some es =>
              let a0 : Attr := ⟨prioF, fun m => seqA.getD m false⟩
              -- the state after the call (GM.reconfigure): a refused configuration leaves everything as it was
              let a' := reconfigure nm a0 es
              let ps := " ".intercalate ((List.range n).map fun m => toString (a'.prio m))
              let ss := " ".intercalate ((List.range n).map fun m => if a'.seq m then "1" else "0")
              let cps := " ".intercalate ((List.range n).map fun m => toString (cpAll g a'.prio m))
              let verdict := match applyRaw nm a0 es with
                | .error (.cfg .unknownAlias) => "REFUSED alias"
                | .error (.cfg .ambiguous) => "REFUSED ambiguous"
                | .error .malformed => "REFUSED malformed"
                | .ok _ => "OK"
              IO.println s!"{qid} CFG {verdict} P {ps} S {ss} CP {cps}"
          | [] => IO.println s!"{qid} PARSE"
        | "valid" :: rest =>
          match splitOnTok rest ";" with
          | [su, co] =>
            let suA : Array Bool := (su.map (· == "1")).toArray
            let coA : Array Bool := (co.map (· == "1")).toArray
            let recOf : Node → VM.NodeRec := fun m => ⟨"", (g.preds m).map (fun p => (⟨p, []⟩ : VM.Ref)), [], none⟩
            let marks : VM.Marks := ⟨dbgF, fun m => suA.getD m false, fun m => coA.getD m false⟩
            IO.println s!"{qid} VALID {if VM.validateB recOf (List.range n) marks then "ACCEPT" else "REFUSE"}"
          | _ => IO.println s!"{qid} PARSE"
        | ["cyc"] =>
          IO.println s!"{qid} CYC {if TM.acyclicB (List.range n) g.preds then "ACCEPT" else "REFUSE"}"
        | ["cp"] =>
          IO.println s!"{qid} CP {" ".intercalate ((List.range n).map fun m => toString (cpAll g prioF m))}"
        | "sel" :: rest =>
          match splitOnTok rest ";" with
          | [r, x, t, [d]] =>
            let R := parseSet r; let X := parseSet x; let T := parseSet t
            match selectChecked g R X T with
            | .error .notRoot => IO.println s!"{qid} VALUEERROR notroot"
            | .error .targetMissing => IO.println s!"{qid} VALUEERROR target"
            | .error .excludeMissing => IO.println s!"{qid} OUTOFSCOPE"
            | .ok sel =>
              let gi := induced g (sel.contains ·)
              let out := extendDebug g dbgF sel (leaves gi) (d == "1")
              IO.println s!"{qid} SEL {showNodes out}"
          | _ => IO.println s!"{qid} PARSE"
        | _ => IO.println s!"{qid} PARSE"
        i := i + 1
      i := i + 1
    | _ => i := i + 1
