import TM.Accept
/-! Line-protocol acceptor for scheduler traces (slice S).  The successor function is `TM.next`,
    for which `TM.next_sound` is proved: every accepted trace is a `TM.Run` of the relation the
    property theorems quantify over.  Protocol: DESIGN.md appendix A.1.

    stdin blocks:
      S <id> <n> <maxc>
      N <cp> <seq 0|1> <res t|a|m> <active 0|1> <fails 0|1> <pred>*      (n lines, node i = line i)
      D <node|?> <c|a> | I <node> | W <c|a> <F|A> <node>* | R | X <node|?> | A
      E
    stdout per block:  <id> ACCEPT <maxStates> <pcs-visited> | <id> REJECT <pos> <line>
-/
open TM

structure NodeInfo where
  cp : Int
  seq : Bool
  res : Res
  active : Bool
  fails : Bool
  preds : List Node

def mkCfg (info : Array NodeInfo) (maxc : Nat) : Cfg :=
  let get (i : Node) : NodeInfo :=
    info.getD i { cp := 0, seq := false, res := .thread, active := true, fails := false, preds := [] }
  { nodes := List.range info.size, preds := fun i => (get i).preds, cp := fun i => (get i).cp,
    seq := fun i => (get i).seq, res := fun i => (get i).res, active := fun i => (get i).active,
    fails := fun i => (get i).fails, maxc := maxc }

/-! The acceptor itself (`closeSt`, `stepObs`, `Obs`) lives in `TM/Accept.lean`, where `accept_sound` is
    proved: a state the acceptor is left with is reached by a run whose labels are explained by the
    observations.  This file only parses the protocol and folds `stepObs` over the observations. -/

def close (cfg : Cfg) (ss : List St) : List St := closeSt cfg ss

def parseOptNode (s : String) : Option Node := if s == "?" then none else s.toNat?

def parseObs (w : List String) : Option Obs :=
  match w with
  | ["D", n, "c"] => some (.dispatch (parseOptNode n) .conc)
  | ["D", n, "a"] => some (.dispatch (parseOptNode n) .asyn)
  | ["I", n] => n.toNat?.map .inline
  | "W" :: k :: m :: ds =>
    if (k == "c" || k == "a") && (m == "F" || m == "A") && ds.all (fun d => d.toNat?.isSome) then
      some (.wait (if k == "c" then .conc else .asyn) (if m == "F" then .first else .all) (ds.filterMap String.toNat?))
    else none
  | ["R"] => some .ret
  | ["X", n] => some (.raise (parseOptNode n))
  | ["A"] => some .abort
  | _ => none

def pcName : Pc → String
  | .top => "top" | .w1 => "w1" | .w2 => "w2" | .pick => "pick" | .s1 => "s1" | .s2 => "s2"
  | .a1 => "a1" | .a2 => "a2" | .done => "done" | .err _ => "err"

partial def readAll (h : IO.FS.Stream) (acc : Array String) : IO (Array String) := do
  let line ← h.getLine
  if line.isEmpty then return acc
  readAll h (acc.push (line.trimAscii.toString))

def toks (s : String) : List String := (s.splitOn " ").filter (· != "")

def main : IO Unit := do
  let lines ← readAll (← IO.getStdin) #[]
  let mut i := 0
  while i < lines.size do
    match toks lines[i]! with
    | ["S", sid, n, maxc] =>
      let n := n.toNat!
      let mut info : Array NodeInfo := #[]
      let mut bad := false
      for j in [0:n] do
        match toks (lines[i + 1 + j]!) with
        | "N" :: cp :: sq :: rs :: ac :: fl :: ps =>
          let r : Res := if rs == "t" then .thread else if rs == "a" then .async else .main
          info := info.push ⟨cp.toInt!, sq == "1", r, ac == "1", fl == "1", ps.filterMap String.toNat?⟩
        | _ => bad := true
      let cfg := mkCfg info maxc.toNat!
      i := i + 1 + n
      let mut ss := close cfg [init cfg]
      let mut pos := 0
      let mut maxStates := ss.length
      let mut pcs : List String := []
      let mut failedAt : Option (Nat × String) := if bad then some (0, "PARSE-N") else none
      let mut terminal := false
      while i < lines.size && lines[i]! != "E" do
        if failedAt.isNone then
          match parseObs (toks lines[i]!) with
          | some o =>
            ss := stepObs cfg ss o
            terminal := match o with | .ret => true | .raise _ => true | .abort => true | _ => false
            if ss.length > maxStates then maxStates := ss.length
            for s in ss do
              let nm := pcName s.pc
              if !pcs.contains nm then pcs := pcs ++ [nm]
            if ss.isEmpty then failedAt := some (pos, lines[i]!)
          | none => failedAt := some (pos, "PARSE " ++ lines[i]!)
        pos := pos + 1
        i := i + 1
      i := i + 1
      match failedAt with
      | none =>
        if terminal then IO.println s!"{sid} ACCEPT {maxStates} {",".intercalate pcs}"
        else IO.println s!"{sid} REJECT {pos} NO-OUTCOME"
      | some (p, l) => IO.println s!"{sid} REJECT {p} {l}"
    | _ => i := i + 1
