import TH.Safe
/-! Line-protocol driver for thread interleavings (slice T, C16).

    X <id> <p|o>                     variant of the description-context test: pinned (lock held by anybody) / owner
    T <tid> <act>*                   B (beginBuild) | R<f> (record) | E (endBuild) | A (the describing function raises) | F<f> (callFn) | D<d> (callDag) | X<d> (callDag through an executor object) | C<d> (a built DAG reconfigured: callDag)
    S <tid>*                         the schedule
    E
    -> <id> <tid> <obs>*             U | REF | BUILT:<f>,<f>… | FAILED | FN<f> | DAG<d>
-/
open TH

def parseAct (s : String) : Option Act :=
  if s == "B" then some .beginBuild
  else if s == "E" then some .endBuild
  else if s == "A" then some .abortBuild
  else if s.startsWith "R" then (s.drop 1).toNat?.map .record
  else if s.startsWith "F" then (s.drop 1).toNat?.map .callFn
  else if s.startsWith "D" then (s.drop 1).toNat?.map .callDag
  else if s.startsWith "X" then (s.drop 1).toNat?.map .callDag     -- the DAG run through an executor object: a DAG run
  -- a built DAG reconfigured (config_from_dict): its nodes are re-created OUTSIDE any description, which consults the same
  -- "is this thread describing?" test as a call does: a use of a built DAG outside a description
  else if s.startsWith "C" then (s.drop 1).toNat?.map .callDag
  else none

def showObs : Obs → String
  | .unit => "U"
  | .gotRef => "REF"
  | .buildFailed => "FAILED"
  | .built t => "BUILT:" ++ ",".intercalate (t.map toString)
  | .ranFn f => s!"FN{f}"
  | .ranDag d => s!"DAG{d}"

partial def readAll (h : IO.FS.Stream) (acc : Array String) : IO (Array String) := do
  let line ← h.getLine
  if line.isEmpty then return acc
  readAll h (acc.push (line.trimAscii.toString))

def toks (s : String) : List String := (s.splitOn " ").filter (· != "")

def main : IO Unit := do
  let lines ← readAll (← IO.getStdin) #[]
  let mut i := 0
  while i < lines.size do
    match toks lines[i]! with
    | ["X", sid, v] =>
      let variant : Variant := if v == "p" then .pinned else .owner
      let mut progs : List (Nat × List Act) := []
      let mut sched : List Nat := []
      i := i + 1
      while i < lines.size && lines[i]! != "E" do
        match toks lines[i]! with
        | "T" :: t :: acts => progs := progs ++ [(t.toNat!, acts.filterMap parseAct)]
        | "S" :: ts => sched := ts.filterMap String.toNat?
        | _ => pure ()
        i := i + 1
      i := i + 1
      let progF : Tid → List Act := fun t => match progs.find? (·.1 == t) with | some p => p.2 | none => []
      let obs := runSched variant g0 progF sched (fun _ => [])
      for (t, _) in progs do
        IO.println s!"{sid} {t} {" ".intercalate ((obs t).map showObs)}"
    | _ => i := i + 1
