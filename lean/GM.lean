import GM.Graph
import GM.Desc
import GM.Select
import GM.Debug
import GM.SelectExec
import GM.CP
import GM.Alias
import GM.Config
