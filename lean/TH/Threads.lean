/-! Prototype: the build lock and the "am I describing?" test as an interleaving of per-thread
    action lists (C16). Two variants of the test: `pinned` (lock is held by anybody) and
    `owner` (lock is held by me). -/
namespace TH

abbrev Tid := Nat

/-- what a thread does, at the granularity of tawazi API calls -/
inductive Act where
  | beginBuild            -- enter `@dag`: take the lock, reset the global table
  | record (f : Nat)      -- a decorated function is called inside the describing function
  | endBuild              -- leave `@dag`: package the table, release the lock
  | abortBuild            -- the describing function raises: nothing is built, the lock is released
  | callFn (f : Nat)      -- a decorated function is called outside any describing function of this thread
  | callDag (d : Nat)     -- an already built DAG is called by this thread outside its own describing function
deriving DecidableEq, Repr

/-- what the caller observes -/
inductive Obs where
  | built (table : List Nat)   -- result of endBuild: the recorded call sites
  | ranFn (f : Nat)            -- the wrapped function was executed (or the configured error raised)
  | ranDag (d : Nat)           -- the DAG was executed and a value returned
  | buildFailed                -- the build raised (the describing function's own exception)
  | gotRef                     -- a `UsageExecNode` was returned instead of a value (only right while describing)
  | unit
deriving DecidableEq, Repr

structure G where
  owner : Option Tid
  table : List Nat             -- nodes recorded into the global table (function / spliced-DAG ids)
deriving Repr

inductive Variant where | pinned | owner deriving DecidableEq

def describing (v : Variant) (g : G) (t : Tid) : Bool :=
  match v with
  | .pinned => g.owner.isSome
  | .owner => g.owner == some t

/-- one atomic action of thread `t`; `none` = blocked (lock taken) -/
def act (v : Variant) (g : G) (t : Tid) : Act → Option (G × Obs)
  | .beginBuild => if g.owner.isSome then none else some ({ owner := some t, table := [] }, .unit)
  | .record f => some ({ g with table := g.table ++ [f] }, .gotRef)        -- only issued by a thread inside its own build
  | .endBuild => some ({ owner := none, table := [] }, .built g.table)
  | .abortBuild => some ({ owner := none, table := [] }, .buildFailed)
  | .callFn f => if describing v g t then some ({ g with table := g.table ++ [f] }, .gotRef) else some (g, .ranFn f)
  | .callDag d => if describing v g t then some ({ g with table := g.table ++ [1000 + d] }, .gotRef) else some (g, .ranDag d)

/-- a thread program is *well bracketed*: `record` only between its own beginBuild/endBuild, and
    `callFn`/`callDag` only outside them -/
def wellBracketed : Bool → List Act → Bool
  | inside, [] => !inside
  | false, .beginBuild :: r => wellBracketed true r
  | true, .record _ :: r => wellBracketed true r
  | true, .endBuild :: r => wellBracketed false r
  | true, .abortBuild :: r => wellBracketed false r
  | false, .callFn _ :: r => wellBracketed false r
  | false, .callDag _ :: r => wellBracketed false r
  | _, _ => false

/-- what a thread observes when it runs alone -/
def solo (v : Variant) : G → Tid → List Act → List Obs
  | _, _, [] => []
  | g, t, a :: r => match act v g t a with
    | some (g', o) => o :: solo v g' t r
    | none => []

/-- interleavings: a schedule is a list of thread ids; each entry lets that thread do its next action -/
def runSched (v : Variant) : G → (Tid → List Act) → List Tid → (Tid → List Obs) → (Tid → List Obs)
  | _, _, [], obs => obs
  | g, progs, t :: sched, obs =>
    match progs t with
    | [] => runSched v g progs sched obs
    | a :: rest =>
      match act v g t a with
      | none => runSched v g progs sched obs                       -- blocked: the slot is wasted
      | some (g', o) =>
        runSched v g' (fun x => if x = t then rest else progs x) sched
          (fun x => if x = t then obs t ++ [o] else obs x)

/-! ### the pinned test is wrong: a two-thread witness (defect D3) -/

def progA : List Act := [.beginBuild, .record 7, .endBuild]
def progB : List Act := [.callDag 3]
def progsAB : Tid → List Act := fun t => if t = 0 then progA else if t = 1 then progB else []
def g0 : G := { owner := none, table := [] }

/-- thread 1 calls a finished DAG while thread 0 is describing: it gets a reference instead of a
    value, and thread 0's DAG contains a node it never wrote -/
theorem C16_pinned_witness :
    runSched .pinned g0 progsAB [0, 1, 0, 0] (fun _ => []) 1 = [.gotRef] ∧
    runSched .pinned g0 progsAB [0, 1, 0, 0] (fun _ => []) 0 = [.unit, .gotRef, .built [1003, 7]] := by
  decide

/-- with the owner-aware test the same interleaving is harmless -/
theorem C16_owner_same_schedule :
    runSched .owner g0 progsAB [0, 1, 0, 0] (fun _ => []) 1 = [.ranDag 3] ∧
    runSched .owner g0 progsAB [0, 1, 0, 0] (fun _ => []) 0 = [.unit, .gotRef, .built [7]] := by
  decide

end TH
