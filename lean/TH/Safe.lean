import TH.Threads
/-! Prototype: with the owner-aware test, every interleaving gives each thread a prefix of what it
    observes when running alone (C16, model level). -/
namespace TH

/-- the global state as thread `t` would see it if it ran alone -/
def view (g : G) (t : Tid) : G := if g.owner = some t then g else g0

structure SInv (full : Tid → List Act) (g : G) (progs : Tid → List Act) (obs : Tid → List Obs) : Prop where
  eqn  : ∀ t, obs t ++ solo .owner (view g t) t (progs t) = solo .owner g0 t (full t)
  brk  : ∀ t, wellBracketed (decide (g.owner = some t)) (progs t) = true
  idle : g.owner = none → g.table = []

theorem view_owner {g : G} {t : Tid} (h : g.owner = some t) : view g t = g := by simp [view, h]
theorem view_other {g : G} {t : Tid} (h : g.owner ≠ some t) : view g t = g0 := by simp [view, h]

theorem sinv_step (full : Tid → List Act) (g : G) (progs : Tid → List Act) (obs : Tid → List Obs)
    (h : SInv full g progs obs) (t : Tid) (a : Act) (rest : List Act) (hp : progs t = a :: rest)
    (g' : G) (o : Obs) (hact : act .owner g t a = some (g', o)) :
    SInv full g' (fun x => if x = t then rest else progs x) (fun x => if x = t then obs t ++ [o] else obs x) := by
  have hb := h.brk t
  rw [hp] at hb
  by_cases hown : g.owner = some t
  · -- t is describing
    have hv : view g t = g := view_owner hown
    have he := h.eqn t
    rw [hp, hv] at he
    simp only [hown, decide_true] at hb
    cases a with
    | beginBuild => simp [wellBracketed] at hb
    | callFn f => simp [wellBracketed] at hb
    | callDag d => simp [wellBracketed] at hb
    | record f =>
      simp only [act] at hact
      obtain ⟨rfl, rfl⟩ : ({ g with table := g.table ++ [f] } : G) = g' ∧ Obs.gotRef = o := by
        injection hact with h1; injection h1 with h1 h2; exact ⟨h1, h2⟩
      have hown' : ({ g with table := g.table ++ [f] } : G).owner = some t := hown
      refine ⟨?_, ?_, ?_⟩
      · intro x
        by_cases hx : x = t
        · subst hx
          simp only [if_true, view_owner hown', List.append_assoc]
          rw [← he]; simp [solo, act]
        · simp only [if_neg hx]
          have : ({ g with table := g.table ++ [f] } : G).owner ≠ some x := by
            intro hh; rw [hown] at hh; injection hh with hh; exact hx hh.symm
          have hgx : g.owner ≠ some x := by intro hh; rw [hown] at hh; injection hh with hh; exact hx hh.symm
          have he' := h.eqn x; rw [view_other hgx] at he'; rw [view_other this]; exact he'
      · intro x
        by_cases hx : x = t
        · subst hx; simp only [if_true]; simp [wellBracketed] at hb; simpa [hown] using hb
        · simp only [if_neg hx]; exact h.brk x
      · intro hn; rw [hown] at hn; cases hn
    | endBuild =>
      simp only [act] at hact
      obtain ⟨rfl, rfl⟩ : ({ owner := none, table := [] } : G) = g' ∧ Obs.built g.table = o := by
        injection hact with h1; injection h1 with h1 h2; exact ⟨h1, h2⟩
      refine ⟨?_, ?_, fun _ => rfl⟩
      · intro x
        have hvx : view ({ owner := none, table := [] } : G) x = g0 := by simp [view]
        by_cases hx : x = t
        · subst hx
          simp only [if_true, hvx, List.append_assoc]
          rw [← he]; simp [solo, act, g0]
        · simp only [if_neg hx, hvx]
          have hgx : g.owner ≠ some x := by intro hh; rw [hown] at hh; injection hh with hh; exact hx hh.symm
          have he' := h.eqn x; rw [view_other hgx] at he'; exact he'
      · intro x
        by_cases hx : x = t
        · subst hx; simp only [if_true]; simp [wellBracketed] at hb; simpa using hb
        · simp only [if_neg hx]
          have hgx : g.owner ≠ some x := by intro hh; rw [hown] at hh; injection hh with hh; exact hx hh.symm
          have := h.brk x; simpa [hgx] using this
    | abortBuild =>
      simp only [act] at hact
      obtain ⟨rfl, rfl⟩ : ({ owner := none, table := [] } : G) = g' ∧ Obs.buildFailed = o := by
        injection hact with h1; injection h1 with h1 h2; exact ⟨h1, h2⟩
      refine ⟨?_, ?_, fun _ => rfl⟩
      · intro x
        have hvx : view ({ owner := none, table := [] } : G) x = g0 := by simp [view]
        by_cases hx : x = t
        · subst hx
          simp only [if_true, hvx, List.append_assoc]
          rw [← he]; simp [solo, act, g0]
        · simp only [if_neg hx, hvx]
          have hgx : g.owner ≠ some x := by intro hh; rw [hown] at hh; injection hh with hh; exact hx hh.symm
          have he' := h.eqn x; rw [view_other hgx] at he'; exact he'
      · intro x
        by_cases hx : x = t
        · subst hx; simp only [if_true]; simp [wellBracketed] at hb; simpa using hb
        · simp only [if_neg hx]
          have hgx : g.owner ≠ some x := by intro hh; rw [hown] at hh; injection hh with hh; exact hx hh.symm
          have := h.brk x; simpa [hgx] using this
  · -- t is not describing
    have hv : view g t = g0 := view_other hown
    have he := h.eqn t
    rw [hp, hv] at he
    simp only [hown, decide_false] at hb
    have hdesc : describing .owner g t = false := by
      simp only [describing]; cases ho : g.owner with
      | none => rfl
      | some u => simp; intro hh; exact hown (by rw [ho, hh])
    cases a with
    | record f => simp [wellBracketed] at hb
    | endBuild => simp [wellBracketed] at hb
    | abortBuild => simp [wellBracketed] at hb
    | beginBuild =>
      simp only [act] at hact
      cases ho : g.owner with
      | some u => simp [ho] at hact
      | none =>
        simp [ho] at hact
        obtain ⟨rfl, rfl⟩ := hact
        refine ⟨?_, ?_, fun hn => by cases hn⟩
        · intro x
          by_cases hx : x = t
          · subst hx
            simp only [if_true, List.append_assoc]
            rw [← he]; simp [solo, act, g0, view]
          · simp only [if_neg hx]
            have : view ({ owner := some t, table := [] } : G) x = g0 := by
              simp [view]; intro hh; exact absurd hh.symm hx
            have hgx : g.owner ≠ some x := by rw [ho]; simp
            have he' := h.eqn x; rw [view_other hgx] at he'; rw [this]; exact he'
        · intro x
          by_cases hx : x = t
          · subst hx; simp only [if_true]; simp [wellBracketed] at hb; simpa using hb
          · simp only [if_neg hx]
            have h1 : ¬ (some t = some x) := by intro hh; injection hh with hh; exact hx hh.symm
            have := h.brk x; simpa [ho, h1] using this
    | callFn f =>
      simp only [act, hdesc] at hact
      simp at hact
      obtain ⟨rfl, rfl⟩ := hact
      refine ⟨?_, ?_, h.idle⟩
      · intro x
        by_cases hx : x = t
        · subst hx
          simp only [if_true, List.append_assoc, hv]
          rw [← he]; simp [solo, act, describing, g0]
        · simp only [if_neg hx]; exact h.eqn x
      · intro x
        by_cases hx : x = t
        · subst hx; simp only [if_true]; simp [wellBracketed] at hb; simpa [hown] using hb
        · simp only [if_neg hx]; exact h.brk x
    | callDag d =>
      simp only [act, hdesc] at hact
      simp at hact
      obtain ⟨rfl, rfl⟩ := hact
      refine ⟨?_, ?_, h.idle⟩
      · intro x
        by_cases hx : x = t
        · subst hx
          simp only [if_true, List.append_assoc, hv]
          rw [← he]; simp [solo, act, describing, g0]
        · simp only [if_neg hx]; exact h.eqn x
      · intro x
        by_cases hx : x = t
        · subst hx; simp only [if_true]; simp [wellBracketed] at hb; simpa [hown] using hb
        · simp only [if_neg hx]; exact h.brk x

theorem sinv_run (full : Tid → List Act) : ∀ (sched : List Tid) (g : G) (progs : Tid → List Act) (obs : Tid → List Obs),
    SInv full g progs obs →
    ∀ t, ∃ suffix, runSched .owner g progs sched obs t ++ suffix = solo .owner g0 t (full t) := by
  intro sched
  induction sched with
  | nil => intro g progs obs h t; exact ⟨_, h.eqn t⟩
  | cons u sched ih =>
    intro g progs obs h t
    simp only [runSched]
    cases hp : progs u with
    | nil => exact ih g progs obs h t
    | cons a rest =>
      simp only []
      cases hact : act .owner g u a with
      | none => exact ih g progs obs h t
      | some r =>
        obtain ⟨g', o⟩ := r
        exact ih g' _ _ (sinv_step full g progs obs h u a rest hp g' o hact) t

/-- **C16** (model level, owner-aware test): whatever the interleaving, every thread observes a prefix
    of what it observes when it runs alone — a DAG call returns the DAG's result, a decorated function
    called outside a description is executed, and a build packages exactly its own call sites. -/
theorem C16_owner_safe (progs : Tid → List Act) (hwb : ∀ t, wellBracketed false (progs t) = true)
    (sched : List Tid) (t : Tid) :
    ∃ suffix, runSched .owner g0 progs sched (fun _ => []) t ++ suffix = solo .owner g0 t (progs t) := by
  apply sinv_run progs sched g0 progs (fun _ => [])
  refine ⟨?_, ?_, fun _ => rfl⟩
  · intro x; simp [view, g0]
  · intro x; simpa [g0] using hwb x

end TH
