import TM.Props2
/-! Prototype: terminal states, SeqInv → C05, failure containment → C14. -/
namespace TM

def Pc.live : Pc → Bool
  | .done => false
  | .err _ => false
  | _ => true

theorem site_live {p1 p2 p3 m} (h : WaitSite p1 p2 p3 m) : p1.live = true ∧ p2.live = true := by
  cases h <;> exact ⟨rfl, rfl⟩

/-- every step starts in a live (non-terminal) state: `done` and `err` are terminal -/
theorem step_src_live {cfg : Cfg} {s l s'} (hs : Step cfg s l s') : s.pc.live = true := by
  cases hs with
  | top_done h _ => rw [h]; rfl
  | top_block h _ _ => rw [h]; rfl
  | top_pick h _ _ => rw [h]; rfl
  | wa_skip hw h _ => rw [h]; exact (site_live hw).1
  | wa_ok D hw h _ _ _ _ _ => rw [h]; exact (site_live hw).1
  | wa_err D d hw h _ _ _ _ _ _ => rw [h]; exact (site_live hw).1
  | wc_skip hw h _ => rw [h]; exact (site_live hw).2
  | wc_ok D hw h _ _ _ _ _ => rw [h]; exact (site_live hw).2
  | wc_err D d hw h _ _ _ _ _ _ => rw [h]; exact (site_live hw).2
  | pick_none h _ => rw [h]; rfl
  | pick_seqwait n h _ _ _ => rw [h]; rfl
  | pick_skip n h _ _ _ => rw [h]; rfl
  | pick_thread n h _ _ _ _ => rw [h]; rfl
  | pick_async n h _ _ _ _ => rw [h]; rfl
  | pick_main_ok n h _ _ _ _ _ => rw [h]; rfl
  | pick_main_err n h _ _ _ _ _ => rw [h]; rfl

/-- **C14a**: after a failure has been observed nothing happens any more -/
theorem C14_err_terminal {cfg : Cfg} {s l s'} (e : Node) (h : s.pc = .err e) : ¬ Step cfg s l s' := by
  intro hs; have := step_src_live hs; rw [h] at this; cases this

/-! ### failure facts carried by the trace -/

structure FInv (cfg : Cfg) (tr : List Label) (s : St) : Prop where
  finok  : ∀ n ∈ fins tr, cfg.fails n = false
  errsrc : ∀ e, s.pc = .err e → cfg.fails e = true ∧ e ∈ starts tr

theorem finv_step (cfg : Cfg) (hnd : cfg.nodes.Nodup) {tr s l s'} (hr : Run cfg tr s) (h : FInv cfg tr s)
    (hs : Step cfg s l s') : FInv cfg (l :: tr) s' := by
  have ti := tinv_of_run cfg hnd hr
  have hlive := step_src_live hs
  have noerr : ∀ e, s.pc ≠ .err e := fun e he => by rw [he] at hlive; cases hlive
  obtain ⟨fo, es⟩ := h
  cases hs with
  | top_done _ _ => exact ⟨by simpa [Label.fin] using fo, fun e he => by cases he⟩
  | top_block _ _ _ => exact ⟨by simpa [Label.fin] using fo, fun e he => by cases he⟩
  | top_pick _ _ _ => exact ⟨by simpa [Label.fin] using fo, fun e he => by cases he⟩
  | wa_skip hw _ _ => exact ⟨by simpa [Label.fin] using fo, fun e he => by cases hw <;> cases he⟩
  | wa_ok D hw _ _ _ _ _ hok =>
    refine ⟨?_, fun e he => by cases hw <;> cases he⟩
    intro n hn; simp [Label.fin] at hn
    rcases hn with h | h
    · exact hok n h
    · exact fo n h
  | wa_err D d hw _ _ _ hsub _ hd hf =>
    refine ⟨by simpa [Label.fin] using fo, ?_⟩
    intro e he
    have : d = e := by injection he
    subst this
    refine ⟨hf, ?_⟩
    have : d ∈ s.flight := List.mem_append_right _ (hsub d hd)
    simpa [Label.start] using ti.flstart d this
  | wc_skip hw _ _ => exact ⟨by simpa [Label.fin] using fo, fun e he => by cases hw <;> cases he⟩
  | wc_ok D hw _ _ _ _ _ hok =>
    refine ⟨?_, fun e he => by cases hw <;> cases he⟩
    intro n hn; simp [Label.fin] at hn
    rcases hn with h | h
    · exact hok n h
    · exact fo n h
  | wc_err D d hw _ _ _ hsub _ hd hf =>
    refine ⟨by simpa [Label.fin] using fo, ?_⟩
    intro e he
    have : d = e := by injection he
    subst this
    refine ⟨hf, ?_⟩
    have : d ∈ s.flight := List.mem_append_left _ (hsub d hd)
    simpa [Label.start] using ti.flstart d this
  | pick_none _ _ => exact ⟨by simpa [Label.fin] using fo, fun e he => by cases he⟩
  | pick_seqwait n _ _ _ _ => exact ⟨by simpa [Label.fin] using fo, fun e he => by cases he⟩
  | pick_skip n _ _ _ _ => exact ⟨by simpa [Label.fin] using fo, fun e he => by cases he⟩
  | pick_thread n _ _ _ _ _ =>
    exact ⟨by simpa [Label.fin] using fo, fun e he => absurd he (afterDispatch_not_err cfg n e)⟩
  | pick_async n _ _ _ _ _ =>
    exact ⟨by simpa [Label.fin] using fo, fun e he => absurd he (afterDispatch_not_err cfg n e)⟩
  | pick_main_ok n _ _ _ _ _ hok =>
    refine ⟨?_, fun e he => absurd he (afterDispatch_not_err cfg n e)⟩
    intro x hx; simp [Label.fin] at hx
    rcases hx with rfl | hx
    · exact hok
    · exact fo x hx
  | pick_main_err n _ _ _ _ _ hf =>
    refine ⟨by simpa [Label.fin] using fo, ?_⟩
    intro e he
    have : n = e := by injection he
    subst this
    exact ⟨hf, by simp [Label.start]⟩

theorem finv_of_run (cfg : Cfg) (hnd : cfg.nodes.Nodup) {tr s} (hr : Run cfg tr s) : FInv cfg tr s := by
  induction hr with
  | init => exact ⟨by simp [fins], fun e he => by simp [init] at he⟩
  | step hr0 hs ih => exact finv_step cfg hnd hr0 ih hs

/-- **C14b**: the call fails only because a node that was started fails -/
theorem C14_err_is_node_failure (cfg : Cfg) (hnd : cfg.nodes.Nodup) {tr s} (hr : Run cfg tr s)
    (e : Node) (h : s.pc = .err e) : cfg.fails e = true ∧ e ∈ starts tr ∧ cfg.active e = true := by
  have f := (finv_of_run cfg hnd hr).errsrc e h
  exact ⟨f.1, f.2, (tinv_of_run cfg hnd hr).sact e f.2⟩

/-- **C14c**: no direct dependent of a node that (would) fail is ever started — hence, with C02
    applied along a path, no transitive dependent either: every dependency of a started node has
    finished successfully or was deactivated. -/
theorem C14_no_dependent_of_failed (cfg : Cfg) (hnd : cfg.nodes.Nodup) {tr s} (hr : Run cfg tr s) :
    ∀ post l pre, tr = post ++ l :: pre → ∀ n, l.start = some n →
      ∀ p ∈ cfg.preds n, p ∈ cfg.nodes → (cfg.fails p = false ∧ p ∈ fins pre) ∨ (cfg.active p = false ∧ p ∈ skips pre) := by
  intro post l pre htr n hl p hp hpn
  -- the prefix `pre` is itself a run; use its invariants
  have key : ∀ {tr s}, Run cfg tr s → ∀ post l pre, tr = post ++ l :: pre → ∃ s0, Run cfg pre s0 := by
    intro tr s hr
    induction hr with
    | init => intro post l pre h; simp at h
    | @step tr0 s0 l0 s1 hr0 _ ih =>
      intro post l pre h
      cases post with
      | nil => simp at h; obtain ⟨_, rfl⟩ := h; exact ⟨s0, hr0⟩
      | cons x post' => simp at h; exact ih post' l pre h.2
  obtain ⟨s0, hr0⟩ := key hr post l pre htr
  rcases C02_deps_before_start cfg hnd hr post l pre htr n hl p hp hpn with h | h
  · exact Or.inl ⟨(finv_of_run cfg hnd hr0).finok p h, h⟩
  · exact Or.inr ⟨(tinv_of_run cfg hnd hr0).kact p h, h⟩

end TM
