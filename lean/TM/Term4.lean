import TM.Term3
namespace TM

theorem mu_setPc (s : St) (p : Pc) : mu { s with pc := p } = mu s := rfl

theorem ne_nil_of_mem' {l : List Node} {a : Node} (h : a ∈ l) : l ≠ [] := by
  intro hh; rw [hh] at h; simp at h

theorem mu_dispatch {cfg : Cfg} {s : St} (h : Inv cfg s) {n : Node} (hn : n ∈ s.runnable)
    (s' : St) (hg : s'.graph = s.graph) (hf : s'.inflight = s.inflight + 1) : mu s' + 1 = mu s := by
  have hnf := h.disj n hn
  have hlt : s.inflight < s.graph.length := by
    have := nodup_subset_length (n :: s.flight) s.graph
      (List.nodup_cons.mpr ⟨hnf, h.fnodup⟩)
      (by intro x hx; rcases List.mem_cons.mp hx with rfl | hx; exact runnable_sub_graph h x hn; exact flight_sub_graph h x hx)
    simp [St.flight, St.inflight] at this ⊢; omega
  simp only [mu, hg, hf]; omega

/-- **every step strictly lowers the measure** -/
theorem M_step (cfg : Cfg) (hac : Acyclic cfg) (hm : 0 < cfg.maxc) {s l s'} (hi : Inv cfg s)
    (hs : Step cfg s l s') : M cfg s' < M cfg s := by
  have hok := abs_ok cfg hac hm hi
  cases hs with
  | top_done h1 h2 =>
    apply M_lt_of_edge cfg _ hok
    simp [A.succs, St.abs, h1, Pc.abs, h2]
  | top_block h1 h2 h3 =>
    apply M_lt_of_edge cfg _ hok
    have : s.graph.isEmpty = false := by simpa using h2
    rcases h3 with h3 | h3 <;> simp [A.succs, St.abs, h1, Pc.abs, this, h3]
  | top_pick h1 h2 h3 =>
    apply M_lt_of_edge cfg _ hok
    have hg : s.graph.isEmpty = false := by simpa using h2
    have hf : s.inflight ≠ cfg.maxc := fun h => h3 (Or.inl h)
    have hr : s.runnable.isEmpty = false := by
      cases hrr : s.runnable with
      | nil => exact absurd (Or.inr hrr) h3
      | cons _ _ => rfl
    simp [A.succs, St.abs, h1, Pc.abs, hg, hf, hr]
  | wa_skip hw h1 h2 =>
    apply M_lt_of_edge cfg _ hok
    cases hw <;> simp [A.succs, St.abs, h1, Pc.abs, h2]
  | wa_ok D hw h1 hne hnd hsub _ _ =>
    apply M_lt_of_mu
    have := mu_finishAll D s hi hnd (fun d hd => List.mem_append_right _ (hsub d hd))
    have hl : 0 < D.length := List.length_pos_iff.mpr hne
    rw [mu_setPc]; omega
  | wa_err D d hw h1 hne _ hsub _ hd _ =>
    apply M_lt_of_edge cfg _ hok
    have : s.asyn.isEmpty = false := by
      cases ha : s.asyn with
      | nil => have := hsub d hd; rw [ha] at this; simp at this
      | cons _ _ => rfl
    cases hw <;> simp [A.succs, St.abs, h1, Pc.abs, this]
  | wc_skip hw h1 h2 =>
    apply M_lt_of_edge cfg _ hok
    cases hw <;> simp [A.succs, St.abs, h1, Pc.abs, h2]
  | wc_ok D hw h1 hne hnd hsub _ _ =>
    apply M_lt_of_mu
    have := mu_finishAll D s hi hnd (fun d hd => List.mem_append_left _ (hsub d hd))
    have hl : 0 < D.length := List.length_pos_iff.mpr hne
    rw [mu_setPc]; omega
  | wc_err D d hw h1 hne _ hsub _ hd _ =>
    apply M_lt_of_edge cfg _ hok
    have : s.conc.isEmpty = false := by
      cases hc : s.conc with
      | nil => have := hsub d hd; rw [hc] at this; simp at this
      | cons _ _ => rfl
    cases hw <;> simp [A.succs, St.abs, h1, Pc.abs, this]
  | pick_none h1 h2 =>
    apply M_lt_of_edge cfg _ hok
    simp [A.succs, St.abs, h1, Pc.abs, h2]
  | pick_seqwait n h1 hb _ hin =>
    apply M_lt_of_edge cfg _ hok
    have hr : s.runnable.isEmpty = false := by
      cases hrr : s.runnable with
      | nil => have := hb.1; rw [hrr] at this; simp at this
      | cons _ _ => rfl
    have hfl : (s.asyn.isEmpty && s.conc.isEmpty) = false := by
      cases ha : s.asyn with
      | cons _ _ => simp
      | nil =>
        cases hc : s.conc with
        | cons _ _ => simp
        | nil => simp [St.inflight, ha, hc] at hin
    simp [A.succs, St.abs, h1, Pc.abs, hr, hfl]
  | pick_skip n h1 hb _ _ =>
    apply M_lt_of_mu
    have := mu_take hi hb.1
    rw [mu_setPc]; omega
  | pick_thread n h1 hb _ _ _ =>
    apply M_lt_of_mu
    have := mu_dispatch hi hb.1
      { s with runnable := s.runnable.filter (· != n), conc := n :: s.conc, pc := afterDispatch cfg n }
      rfl (by simp [St.inflight]; omega)
    omega
  | pick_async n h1 hb _ _ _ =>
    apply M_lt_of_mu
    have := mu_dispatch hi hb.1
      { s with runnable := s.runnable.filter (· != n), asyn := n :: s.asyn, pc := afterDispatch cfg n }
      rfl (by simp [St.inflight]; omega)
    omega
  | pick_main_ok n h1 hb _ _ _ _ =>
    apply M_lt_of_mu
    have := mu_take hi hb.1
    rw [mu_setPc]; omega
  | pick_main_err n h1 hb _ _ _ _ =>
    apply M_lt_of_edge cfg _ hok
    have hr : s.runnable.isEmpty = false := by
      cases hrr : s.runnable with
      | nil => have := hb.1; rw [hrr] at this; simp at this
      | cons _ _ => rfl
    simp [A.succs, St.abs, h1, Pc.abs, hr]

/-- **C09** (model level): every run is finite, with an explicit bound on its length. -/
theorem C09_run_length_bounded (cfg : Cfg) (hnd : cfg.nodes.Nodup) (hac : Acyclic cfg) (hm : 0 < cfg.maxc)
    {tr s} (hr : Run cfg tr s) : tr.length + M cfg s ≤ M cfg (init cfg) := by
  induction hr with
  | init => simp
  | @step tr0 s0 l s1 hr0 hs ih =>
    have hi := (tinv_of_run cfg hnd hr0).inv
    have := M_step cfg hac hm hi hs
    simp only [List.length_cons]; omega

theorem M_init_le (cfg : Cfg) : M cfg (init cfg) ≤ 32 * cfg.nodes.length + 12 := by
  have := rank_le ((init cfg).abs cfg)
  simp only [M, mu, init, St.inflight, List.length_nil] at *
  omega

theorem C09_bound (cfg : Cfg) (hnd : cfg.nodes.Nodup) (hac : Acyclic cfg) (hm : 0 < cfg.maxc)
    {tr s} (hr : Run cfg tr s) : tr.length ≤ 32 * cfg.nodes.length + 12 := by
  have h1 := C09_run_length_bounded cfg hnd hac hm hr
  have h2 := M_init_le cfg
  omega

end TM
