import TM.C08p
/-! Prototype: C17(c) — the event loop is only blocked by a thread-wait; with no thread-resource nodes
    every wait is a yielding (async) wait; with mixed resources a blocking wait can happen while an
    async-thread node is still running. -/
namespace TM

/-- **C17c_partial**: without thread-resource nodes the scheduler never performs a blocking wait -/
theorem C17c_partial (cfg : Cfg) (hnt : NoThread cfg) {tr s s'} (hr : Run cfg tr s) {m D}
    (hs : Step cfg s (.wait .conc m D) s') : False := by
  have hk := kinv_of_run cfg hr
  have hc := conc_nil_of_nothread hnt hk
  cases hs with
  | wc_ok _ _ _ hne _ hsub _ _ =>
    obtain ⟨d, hd⟩ := List.exists_mem_of_ne_nil D hne
    have := hsub d hd; rw [hc] at this; simp at this

/-- two async-thread nodes and one thread node, `max_concurrency = 3` -/
def lcfg : Cfg :=
  { nodes := [0, 1, 2], preds := fun _ => [], cp := fun n => 2 - (n : Int), seq := fun _ => false,
    res := fun n => if n = 2 then .thread else .async, active := fun _ => true, fails := fun _ => false,
    maxc := 3 }

def l6 : St := { graph := [1, 2], runnable := [], conc := [2], asyn := [1], pc := .w2 }

theorem l_run : Run lcfg
    [.wait .asyn .first [0], .tau, .dispatch 2 .conc, .tau, .dispatch 1 .asyn, .tau, .dispatch 0 .asyn, .tau] l6 := by
  have r0 : Run lcfg [] (init lcfg) := Run.init
  have r1 := Run.step r0 (Step.top_pick (cfg := lcfg) rfl (by decide) (by decide))
  have r2 := Run.step r1 (Step.pick_async (cfg := lcfg) 0 rfl ⟨by decide, by decide⟩ (by simp [CanGo, lcfg]) rfl rfl)
  have r3 := Run.step r2 (Step.top_pick (cfg := lcfg) rfl (by decide) (by decide))
  have r4 := Run.step r3 (Step.pick_async (cfg := lcfg) 1 rfl ⟨by decide, by decide⟩ (by simp [CanGo, lcfg]) rfl rfl)
  have r5 := Run.step r4 (Step.top_pick (cfg := lcfg) rfl (by decide) (by decide))
  have r6 := Run.step r5 (Step.pick_thread (cfg := lcfg) 2 rfl ⟨by decide, by decide⟩ (by simp [CanGo, lcfg]) rfl rfl)
  have r7 := Run.step r6 (Step.top_block (cfg := lcfg) rfl (by decide) (by decide))
  exact Run.step r7 (Step.wa_ok (cfg := lcfg) [0] WaitSite.block rfl (by decide) (by decide) (by decide)
    (by intro h; cases h) (by decide))

/-- **C17c witness**: from `l6` the scheduler performs a *blocking* wait on thread node 2 while the
    async-thread node 1 is still in flight — the loop is not free. -/
theorem C17c_mixed_witness : (∃ s', Step lcfg l6 (.wait .conc .first [2]) s') ∧ l6.asyn ≠ [] :=
  ⟨⟨_, Step.wc_ok [2] WaitSite.block rfl (by decide) (by decide) (by decide) (by intro h; cases h) (by decide)⟩,
   by decide⟩

end TM
