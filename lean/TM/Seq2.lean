import TM.Seq
/-! Prototype: SeqInv → C05. -/
namespace TM

structure SInv (cfg : Cfg) (s : St) : Prop where
  seqpc : ∀ m ∈ s.flight, cfg.seq m = true → (s.pc = .a1 ∨ s.pc = .a2 ∨ ∃ e, s.pc = .err e)
  a2    : s.pc = .a2 → s.asyn = []

theorem flight_finishAll_sub (cfg : Cfg) (D : List Node) (s : St) :
    ∀ x ∈ (finishAll cfg s D).flight, x ∈ s.flight :=
  fun x hx => ((mem_flight_finishAll cfg D s x).1 hx).1

theorem flight_take_sub (cfg : Cfg) (s : St) (n : Node) :
    ∀ x ∈ (finish cfg { s with runnable := s.runnable.filter (· != n) } n).flight, x ∈ s.flight := by
  intro x hx
  rw [mem_flight_finish] at hx
  exact hx.1

/-- if no sequential node is in flight in `s`, and the new flight is a subset, nothing to show -/
theorem sinv_of_noseq {cfg : Cfg} {s' : St} (h : ∀ m ∈ s'.flight, cfg.seq m = false) (ha2 : s'.pc ≠ .a2) :
    SInv cfg s' :=
  ⟨fun m hm hs => (by rw [h m hm] at hs; cases hs), fun h => absurd h ha2⟩

theorem noseq_of_pc {cfg : Cfg} {s : St} (h : SInv cfg s) (h1 : s.pc ≠ .a1) (h2 : s.pc ≠ .a2)
    (h3 : ∀ e, s.pc ≠ .err e) : ∀ m ∈ s.flight, cfg.seq m = false := by
  intro m hm
  cases hseq : cfg.seq m with
  | false => rfl
  | true =>
    rcases h.seqpc m hm hseq with h | h | ⟨e, h⟩
    · exact absurd h h1
    · exact absurd h h2
    · exact absurd h (h3 e)

theorem asyn_finishAll_all (cfg : Cfg) (s : St) (D : List Node) (hall : ∀ d ∈ s.asyn, d ∈ D) :
    (finishAll cfg s D).asyn = [] := by
  apply List.eq_nil_iff_forall_not_mem.mpr
  intro x hx
  have := (mem_asyn_finishAll cfg D s x).1 hx
  exact this.2 (hall x this.1)

theorem conc_finishAll_all (cfg : Cfg) (s : St) (D : List Node) (hall : ∀ d ∈ s.conc, d ∈ D) :
    (finishAll cfg s D).conc = [] := by
  apply List.eq_nil_iff_forall_not_mem.mpr
  intro x hx
  have := (mem_conc_finishAll cfg D s x).1 hx
  exact this.2 (hall x this.1)

theorem asyn_finishAll_nil (cfg : Cfg) (s : St) (D : List Node) (h : s.asyn = []) :
    (finishAll cfg s D).asyn = [] := by
  apply List.eq_nil_iff_forall_not_mem.mpr
  intro x hx
  have := (mem_asyn_finishAll cfg D s x).1 hx
  rw [h] at this; simp at this

theorem sinv_step (cfg : Cfg) {s l s'} (h : SInv cfg s) (hs : Step cfg s l s') : SInv cfg s' := by
  cases hs with
  | top_done h1 _ =>
    have hno := noseq_of_pc h (by rw [h1]; simp) (by rw [h1]; simp) (by rw [h1]; simp); exact sinv_of_noseq (fun m hm => hno m hm) (by simp)
  | top_block h1 _ _ =>
    have hno := noseq_of_pc h (by rw [h1]; simp) (by rw [h1]; simp) (by rw [h1]; simp); exact sinv_of_noseq (fun m hm => hno m hm) (by simp)
  | top_pick h1 _ _ =>
    have hno := noseq_of_pc h (by rw [h1]; simp) (by rw [h1]; simp) (by rw [h1]; simp); exact sinv_of_noseq (fun m hm => hno m hm) (by simp)
  | wa_skip hw h1 h2 =>
    cases hw with
    | block => have hno := noseq_of_pc h (by rw [h1]; simp) (by rw [h1]; simp) (by rw [h1]; simp); exact sinv_of_noseq (fun m hm => hno m hm) (by simp)
    | seqw => have hno := noseq_of_pc h (by rw [h1]; simp) (by rw [h1]; simp) (by rw [h1]; simp); exact sinv_of_noseq (fun m hm => hno m hm) (by simp)
    | drain => exact ⟨fun m hm hsq => Or.inr (Or.inl rfl), fun _ => h2⟩
  | wa_ok D hw h1 _ _ _ hall _ =>
    cases hw with
    | block =>
      refine sinv_of_noseq ?_ (by simp)
      intro m hm
      exact noseq_of_pc h (by rw [h1]; simp) (by rw [h1]; simp) (by rw [h1]; simp) m (flight_finishAll_sub cfg D s m hm)
    | seqw =>
      refine sinv_of_noseq ?_ (by simp)
      intro m hm
      exact noseq_of_pc h (by rw [h1]; simp) (by rw [h1]; simp) (by rw [h1]; simp) m (flight_finishAll_sub cfg D s m hm)
    | drain =>
      exact ⟨fun m hm hsq => Or.inr (Or.inl rfl), fun _ => asyn_finishAll_all cfg s D (hall rfl)⟩
  | wa_err D d hw _ _ _ _ _ _ _ => exact ⟨fun m hm hsq => Or.inr (Or.inr ⟨d, rfl⟩), fun h => by cases h⟩
  | wc_skip hw h1 h2 =>
    cases hw with
    | block => have hno := noseq_of_pc h (by rw [h1]; simp) (by rw [h1]; simp) (by rw [h1]; simp); exact sinv_of_noseq (fun m hm => hno m hm) (by simp)
    | seqw => have hno := noseq_of_pc h (by rw [h1]; simp) (by rw [h1]; simp) (by rw [h1]; simp); exact sinv_of_noseq (fun m hm => hno m hm) (by simp)
    | drain =>
      -- conc = [] and (pc = a2 ⇒ asyn = []) : nothing in flight
      refine sinv_of_noseq ?_ (by simp)
      intro m hm
      have ha := h.a2 h1
      have : m ∈ s.conc ++ s.asyn := hm
      rw [h2, ha] at this; simp at this
  | wc_ok D hw h1 _ _ _ hall _ =>
    cases hw with
    | block =>
      refine sinv_of_noseq ?_ (by simp)
      intro m hm
      exact noseq_of_pc h (by rw [h1]; simp) (by rw [h1]; simp) (by rw [h1]; simp) m (flight_finishAll_sub cfg D s m hm)
    | seqw =>
      refine sinv_of_noseq ?_ (by simp)
      intro m hm
      exact noseq_of_pc h (by rw [h1]; simp) (by rw [h1]; simp) (by rw [h1]; simp) m (flight_finishAll_sub cfg D s m hm)
    | drain =>
      refine sinv_of_noseq ?_ (by simp)
      intro m hm
      have hc := conc_finishAll_all cfg s D (hall rfl)
      have ha := asyn_finishAll_nil cfg s D (h.a2 h1)
      have : m ∈ (finishAll cfg s D).conc ++ (finishAll cfg s D).asyn := hm
      rw [hc, ha] at this; simp at this
  | wc_err D d hw _ _ _ _ _ _ _ => exact ⟨fun m hm hsq => Or.inr (Or.inr ⟨d, rfl⟩), fun h => by cases h⟩
  | pick_none h1 _ =>
    have hno := noseq_of_pc h (by rw [h1]; simp) (by rw [h1]; simp) (by rw [h1]; simp); exact sinv_of_noseq (fun m hm => hno m hm) (by simp)
  | pick_seqwait n h1 _ _ _ =>
    have hno := noseq_of_pc h (by rw [h1]; simp) (by rw [h1]; simp) (by rw [h1]; simp); exact sinv_of_noseq (fun m hm => hno m hm) (by simp)
  | pick_skip n h1 _ _ _ =>
    refine sinv_of_noseq ?_ (by simp)
    intro m hm
    exact noseq_of_pc h (by rw [h1]; simp) (by rw [h1]; simp) (by rw [h1]; simp) m (flight_take_sub cfg s n m hm)
  | pick_thread n h1 _ hgo _ _ =>
    have hno := noseq_of_pc h (by rw [h1]; simp) (by rw [h1]; simp) (by rw [h1]; simp)
    refine ⟨?_, ?_⟩
    · intro m hm hsq
      have hm' : m ∈ n :: (s.conc ++ s.asyn) := hm
      rcases List.mem_cons.mp hm' with rfl | hm'
      · left; simp [afterDispatch, hsq]
      · have := hno m hm'; rw [this] at hsq; cases hsq
    · intro h; simp only [afterDispatch] at h; split at h <;> cases h
  | pick_async n h1 _ hgo _ _ =>
    have hno := noseq_of_pc h (by rw [h1]; simp) (by rw [h1]; simp) (by rw [h1]; simp)
    refine ⟨?_, ?_⟩
    · intro m hm hsq
      have hm' : m ∈ s.conc ++ n :: s.asyn := hm
      have : m = n ∨ m ∈ s.conc ++ s.asyn := by
        simp only [List.mem_append, List.mem_cons] at hm' ⊢; grind
      rcases this with rfl | hm''
      · left; simp [afterDispatch, hsq]
      · have := hno m hm''; rw [this] at hsq; cases hsq
    · intro h; simp only [afterDispatch] at h; split at h <;> cases h
  | pick_main_ok n h1 _ hgo _ _ _ =>
    have hno := noseq_of_pc h (by rw [h1]; simp) (by rw [h1]; simp) (by rw [h1]; simp)
    refine ⟨?_, ?_⟩
    · intro m hm hsq
      have := hno m (flight_take_sub cfg s n m hm); rw [this] at hsq; cases hsq
    · intro h; simp only [afterDispatch] at h; split at h <;> cases h
  | pick_main_err n _ _ _ _ _ _ => exact ⟨fun m hm hsq => Or.inr (Or.inr ⟨n, rfl⟩), fun h => by cases h⟩

theorem sinv_of_run (cfg : Cfg) {tr s} (hr : Run cfg tr s) : SInv cfg s := by
  induction hr with
  | init => exact ⟨fun m hm => by simp [init, St.flight] at hm, fun h => by simp [init] at h⟩
  | step _ hs ih => exact sinv_step cfg ih hs

/-- **C05** (model level). When a node is started, no sequential node is in flight; and a sequential
    node is started only when nothing at all is in flight. (In flight = started and not yet observed
    finished, by `TInv`; an inline node starts and finishes in this same step.) -/
theorem C05_sequential_exclusive (cfg : Cfg) {tr s l s'} (hr : Run cfg tr s) (hs : Step cfg s l s')
    {n} (hl : l.start = some n) :
    (∀ m ∈ s.flight, cfg.seq m = false) ∧ (cfg.seq n = true → s.flight = []) := by
  have hb := start_best hs hl
  have si := sinv_of_run cfg hr
  refine ⟨noseq_of_pc si (by rw [hb.1]; simp) (by rw [hb.1]; simp) (by rw [hb.1]; simp), ?_⟩
  intro hsq
  have : s.inflight = 0 := by
    by_cases h0 : s.inflight = 0
    · exact h0
    · exact absurd ⟨hsq, h0⟩ hb.2.2
  simp only [St.inflight] at this
  have hc : s.conc = [] := List.eq_nil_of_length_eq_zero (by omega)
  have ha : s.asyn = [] := List.eq_nil_of_length_eq_zero (by omega)
  simp [St.flight, hc, ha]

end TM
