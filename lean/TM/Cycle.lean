import TM.Term4
/-! The build-time cycle check (`DiGraphEx.from_exec_nodes`: `find_cycle` → `NetworkXUnfeasible`) as an
    executable test on a dependency table, and what it buys: the hypothesis `Acyclic` of the termination
    theorem is not an assumption about "well-behaved users" — it is exactly what the constructor enforces,
    also for tables that were not traced (hand-built `ExecNode`s, `compose`, `config_from_dict` rebuilds).

    `peel` removes every node that has no predecessor left (Kahn); the table is accepted iff `|nodes|`
    rounds empty it.

    * `acyclicB_sound`      accepted  → `Acyclic` (a rank function is constructed: the number of rounds survived)
    * `acyclicB_complete`   `Acyclic` → accepted
    * `acyclicB_false_of_cycle`  any non-empty set of nodes each of which has a predecessor in the set
                                 (a cycle, a self-loop, a terminal cycle below an acyclic part …) is refused
    * `C09_accepted_table_terminates`  accepted tables terminate (with the bound of `C09_bound`). -/
namespace TM

/-- one round: keep the nodes that still have a predecessor among the remaining ones -/
def peel (preds : Node → List Node) (g : List Node) : List Node :=
  g.filter fun n => (preds n).any fun p => g.contains p

def peelN (preds : Node → List Node) : Nat → List Node → List Node
  | 0, g => g
  | k+1, g => peelN preds k (peel preds g)

/-- the build-time test: `|nodes|` rounds of peeling leave nothing -/
def acyclicB (nodes : List Node) (preds : Node → List Node) : Bool := (peelN preds nodes.length nodes).isEmpty

/-- rounds survived -/
def rankOf (preds : Node → List Node) : Nat → List Node → Node → Nat
  | 0, _, _ => 0
  | k+1, g, n => if g.contains n then 1 + rankOf preds k (peel preds g) n else 0

theorem mem_peel {preds : Node → List Node} {g : List Node} {n : Node} :
    n ∈ peel preds g ↔ n ∈ g ∧ ∃ p ∈ preds n, p ∈ g := by
  simp [peel, List.mem_filter]

theorem rankOf_pos {preds : Node → List Node} : ∀ (k : Nat) (g : List Node) (n : Node),
    n ∈ g → peelN preds k g = [] → 0 < rankOf preds k g n := by
  intro k g n hn hk
  cases k with
  | zero => simp [peelN] at hk; subst hk; simp at hn
  | succ k => simp only [rankOf, List.contains_iff_mem, hn, if_true]; omega

theorem rankOf_lt {preds : Node → List Node} : ∀ (k : Nat) (g : List Node) (n p : Node),
    n ∈ g → p ∈ preds n → peelN preds k g = [] → rankOf preds k g p < rankOf preds k g n := by
  intro k
  induction k with
  | zero => intro g n p hn _ hk; simp [peelN] at hk; subst hk; simp at hn
  | succ k ih =>
    intro g n p hn hp hk
    simp only [peelN] at hk
    by_cases hpg : p ∈ g
    · have hn' : n ∈ peel preds g := mem_peel.mpr ⟨hn, p, hp, hpg⟩
      simp only [rankOf, List.contains_iff_mem, hn, hpg, if_true]
      by_cases hpp : p ∈ peel preds g
      · have := ih (peel preds g) n p hn' hp hk
        omega
      · have h0 : rankOf preds k (peel preds g) p = 0 := by
          cases k with
          | zero => rfl
          | succ k => simp [rankOf, hpp]
        have := rankOf_pos k (peel preds g) n hn' hk
        omega
    · simp only [rankOf, List.contains_iff_mem, hn, hpg, if_true, if_false]; omega

/-- **soundness of the build check**: an accepted table (whose references stay inside the table) is acyclic -/
theorem acyclicB_sound (cfg : Cfg) (hclosed : ∀ n, n ∉ cfg.nodes → cfg.preds n = [])
    (h : acyclicB cfg.nodes cfg.preds = true) : Acyclic cfg := by
  refine ⟨rankOf cfg.preds cfg.nodes.length cfg.nodes, ?_⟩
  intro n p hp
  by_cases hn : n ∈ cfg.nodes
  · exact rankOf_lt _ _ n p hn hp (by simpa [acyclicB, List.isEmpty_iff] using h)
  · rw [hclosed n hn] at hp; simp at hp

theorem peel_length_lt (cfg : Cfg) (hac : Acyclic cfg) (g : List Node) (hg : g ≠ []) :
    (peel cfg.preds g).length < g.length := by
  obtain ⟨n, hn, hroot⟩ := exists_root cfg hac g hg
  unfold peel
  rw [List.length_filter_lt_length_iff_exists]
  refine ⟨n, hn, ?_⟩
  simp only [List.any_eq_true, List.contains_iff_mem, not_exists, not_and]
  intro p hp
  exact hroot p hp

theorem peelN_length (cfg : Cfg) (hac : Acyclic cfg) : ∀ (k : Nat) (g : List Node),
    (peelN cfg.preds k g).length ≤ g.length - k := by
  intro k
  induction k with
  | zero => intro g; simp [peelN]
  | succ k ih =>
    intro g
    simp only [peelN]
    by_cases hg : g = []
    · subst hg
      have := ih (peel cfg.preds [])
      simp [peel] at this ⊢
      omega
    · have h1 := peel_length_lt cfg hac g hg
      have h2 := ih (peel cfg.preds g)
      omega

/-- **completeness of the build check**: every acyclic table is accepted -/
theorem acyclicB_complete (cfg : Cfg) (hac : Acyclic cfg) : acyclicB cfg.nodes cfg.preds = true := by
  have := peelN_length cfg hac cfg.nodes.length cfg.nodes
  simp only [Nat.sub_self, Nat.le_zero_eq, List.length_eq_zero_iff] at this
  simp [acyclicB, this]

/-- a set of nodes each of which has a predecessor in the set survives every round -/
theorem subset_peelN {preds : Node → List Node} (c : List Node) (hc : ∀ n ∈ c, ∃ p ∈ preds n, p ∈ c) :
    ∀ (k : Nat) (g : List Node), (∀ n ∈ c, n ∈ g) → ∀ n ∈ c, n ∈ peelN preds k g := by
  intro k
  induction k with
  | zero => intro g hg n hn; exact hg n hn
  | succ k ih =>
    intro g hg n hn
    simp only [peelN]
    refine ih (peel preds g) ?_ n hn
    intro m hm
    obtain ⟨p, hp, hpc⟩ := hc m hm
    exact mem_peel.mpr ⟨hg m hm, p, hp, hg p hpc⟩

/-- **every cycle is refused**: a non-empty set of nodes of the table, each with a predecessor in the set
    (a cycle of any length, a self-loop, several cycles; wherever it sits in the table — also a "terminal"
    cycle from which no leaf is reachable), makes the build check fail. -/
theorem acyclicB_false_of_cycle (nodes : List Node) (preds : Node → List Node) (c : List Node) (hne : c ≠ [])
    (hsub : ∀ n ∈ c, n ∈ nodes) (hc : ∀ n ∈ c, ∃ p ∈ preds n, p ∈ c) : acyclicB nodes preds = false := by
  cases c with
  | nil => exact absurd rfl hne
  | cons a c =>
    have := subset_peelN (a :: c) hc nodes.length nodes hsub a (by simp)
    simp only [acyclicB, List.isEmpty_eq_false_iff]
    intro h; rw [h] at this; simp at this

/-- **C09 for every table the constructor accepts**, traced or not: duplicate-free, references inside the
    table, build check passed, `max_concurrency ≥ 1` — every scheduler run has at most `32·|nodes| + 12` steps. -/
theorem C09_accepted_table_terminates (cfg : Cfg) (hnd : cfg.nodes.Nodup)
    (hclosed : ∀ n, n ∉ cfg.nodes → cfg.preds n = []) (hchk : acyclicB cfg.nodes cfg.preds = true)
    (hm : 0 < cfg.maxc) {tr s} (hr : Run cfg tr s) : tr.length ≤ 32 * cfg.nodes.length + 12 :=
  C09_bound cfg hnd (acyclicB_sound cfg hclosed hchk) hm hr

end TM
