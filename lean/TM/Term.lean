import TM.Props2
/-! Prototype: termination (C09) via a finite abstraction of silent steps. -/
namespace TM

inductive APc where | top | w1 | w2 | pick | s1 | s2 | a1 | a2 | done | err
deriving DecidableEq, Repr

structure A where
  pc : APc
  aE : Bool   -- asyn = []
  cE : Bool   -- conc = []
  rE : Bool   -- runnable = []
  gE : Bool   -- graph = []
  full : Bool -- inflight = maxc
deriving DecidableEq, Repr

def Pc.abs : Pc → APc
  | .top => .top | .w1 => .w1 | .w2 => .w2 | .pick => .pick | .s1 => .s1 | .s2 => .s2
  | .a1 => .a1 | .a2 => .a2 | .done => .done | .err _ => .err

def St.abs (cfg : Cfg) (s : St) : A :=
  { pc := s.pc.abs, aE := s.asyn.isEmpty, cE := s.conc.isEmpty, rE := s.runnable.isEmpty,
    gE := s.graph.isEmpty, full := decide (s.inflight = cfg.maxc) }

/-- data constraints that hold in every reachable state (from `Inv`, acyclicity, `0 < maxc`) -/
def A.ok (a : A) : Bool :=
  (a.gE || !a.rE || !(a.aE && a.cE)) &&        -- non-empty graph has a root: runnable or in flight
  (!a.full || !(a.aE && a.cE))                   -- inflight = maxc > 0 ⇒ something in flight

/-- over-approximation of the steps that do not decrease `2·|graph| − inflight`
    (silent steps, `ret`, and the moves to `err`), on abstract states with the same data -/
def A.succs (a : A) : List APc :=
  match a.pc with
  | .top => if a.gE then [.done] else if a.full || a.rE then [.w1] else [.pick]
  | .w1 => (if a.aE then [.w2] else [.err])
  | .w2 => (if a.cE then [.pick] else [.err])
  | .pick => (if a.rE then [.top] else ([.err] ++ if !(a.aE && a.cE) then [.s1] else []))
  | .s1 => (if a.aE then [.s2] else [.err])
  | .s2 => (if a.cE then [.top] else [.err])
  | .a1 => (if a.aE then [.a2] else [.err])
  | .a2 => (if a.cE then [.top] else [.err])
  | .done => []
  | .err => []

def A.withPc (a : A) (p : APc) : A := { a with pc := p }

/-- longest path in the abstract no-progress graph, by fuel -/
def longest : Nat → A → Nat
  | 0, _ => 0
  | k+1, a => (a.succs.map fun p => 1 + longest k (a.withPc p)).foldl max 0

def rank (a : A) : Nat := longest 12 a

/-- the abstract no-progress graph is acyclic on `ok` data: rank strictly decreases along every edge -/
theorem rank_decreases : ∀ (a : A), a.ok = true → ∀ p ∈ a.succs, rank (a.withPc p) < rank a := by
  intro a
  obtain ⟨pc, aE, cE, rE, gE, full⟩ := a
  cases pc <;> cases aE <;> cases cE <;> cases rE <;> cases gE <;> cases full <;> decide

theorem rank_le (a : A) : rank a ≤ 12 := by
  obtain ⟨pc, aE, cE, rE, gE, full⟩ := a
  cases pc <;> cases aE <;> cases cE <;> cases rE <;> cases gE <;> cases full <;> decide

end TM
