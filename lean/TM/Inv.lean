import TM.Sched
/-! Structural invariant of the scheduler state, preserved by every step. -/
namespace TM

theorem mem_newRoots (cfg : Cfg) (g : List Node) (r m : Node) :
    m ∈ newRoots cfg g r ↔ m ∈ g ∧ m ≠ r ∧ r ∈ cfg.preds m ∧ ∀ p ∈ cfg.preds m, p ∈ g → p = r := by
  simp [newRoots]
  grind

structure Inv (cfg : Cfg) (s : St) : Prop where
  gsub   : ∀ n ∈ s.graph, n ∈ cfg.nodes
  gnodup : s.graph.Nodup
  rnodup : s.runnable.Nodup
  fnodup : s.flight.Nodup
  disj   : ∀ n ∈ s.runnable, n ∉ s.flight
  rroot  : ∀ n ∈ s.runnable, isRoot cfg s.graph n
  froot  : ∀ n ∈ s.flight, isRoot cfg s.graph n
  compl  : ∀ n, isRoot cfg s.graph n → n ∈ s.runnable ∨ n ∈ s.flight

@[simp] theorem flight_mk (g r c a : List Node) (pc : Pc) :
    St.flight { graph := g, runnable := r, conc := c, asyn := a, pc := pc } = c ++ a := rfl

theorem flight_finish (cfg : Cfg) (s : St) (r : Node) :
    (finish cfg s r).flight = s.flight.filter (· != r) := by
  simp [finish, St.flight, List.filter_append]

/-- `Inv` does not depend on `pc`. -/
theorem Inv.setPc {cfg : Cfg} {s : St} (h : Inv cfg s) (pc : Pc) : Inv cfg { s with pc := pc } :=
  ⟨h.gsub, h.gnodup, h.rnodup, h.fnodup, h.disj, h.rroot, h.froot, h.compl⟩

theorem inv_finish (cfg : Cfg) (s : St) (r : Node) (hi : Inv cfg s) (hr : isRoot cfg s.graph r)
    (hnr : r ∉ s.runnable) : Inv cfg (finish cfg s r) := by
  obtain ⟨gs, gn, rn, fn, dj, rr, fr, cp⟩ := hi
  have key : ∀ m, m ∈ newRoots cfg s.graph r → ¬ isRoot cfg s.graph m := by
    intro m hm h
    rw [mem_newRoots] at hm
    exact h.2 r hm.2.2.1 hr.1
  have hg : ∀ x, x ∈ (finish cfg s r).graph ↔ x ∈ s.graph ∧ x ≠ r := by
    intro x; simp [finish]
  have hrn : ∀ x, x ∈ (finish cfg s r).runnable ↔ x ∈ s.runnable ∨ x ∈ newRoots cfg s.graph r := by
    intro x; simp [finish]
  have hfl : ∀ x, x ∈ (finish cfg s r).flight ↔ x ∈ s.flight ∧ x ≠ r := by
    intro x; rw [flight_finish]; simp
  -- a root of the old graph other than r stays a root
  have keep : ∀ n, isRoot cfg s.graph n → n ≠ r → isRoot cfg (finish cfg s r).graph n := by
    intro n h hne
    exact ⟨(hg n).2 ⟨h.1, hne⟩, fun p hp hpg => h.2 p hp ((hg p).1 hpg).1⟩
  constructor
  · intro n hn; exact gs n ((hg n).1 hn).1
  · exact gn.filter _
  · show (s.runnable ++ newRoots cfg s.graph r).Nodup
    refine List.nodup_append.mpr ⟨rn, gn.filter _, ?_⟩
    intro a ha b hb hab
    subst hab
    exact key a hb (rr a ha)
  · rw [flight_finish]; exact fn.filter _
  · intro n hn hf
    rcases (hrn n).1 hn with h | h
    · exact dj n h ((hfl n).1 hf).1
    · exact key n h (fr n ((hfl n).1 hf).1)
  · intro n hn
    rcases (hrn n).1 hn with h | h
    · exact keep n (rr n h) (fun e => hnr (e ▸ h))
    · rw [mem_newRoots] at h
      refine ⟨(hg n).2 ⟨h.1, h.2.1⟩, ?_⟩
      intro p hp hpg
      have := (hg p).1 hpg
      exact this.2 (h.2.2.2 p hp this.1)
  · intro n hn
    have := (hfl n).1 hn
    exact keep n (fr n this.1) this.2
  · intro n hn
    have hng := (hg n).1 hn.1
    by_cases hrp : r ∈ cfg.preds n
    · left
      refine (hrn n).2 (Or.inr ?_)
      rw [mem_newRoots]
      refine ⟨hng.1, hng.2, hrp, ?_⟩
      intro p hp hpg
      by_cases hpr : p = r
      · exact hpr
      · exact absurd ((hg p).2 ⟨hpg, hpr⟩) (hn.2 p hp)
    · have hroot : isRoot cfg s.graph n := by
        refine ⟨hng.1, ?_⟩
        intro p hp hpg
        have : p ≠ r := fun h => hrp (h ▸ hp)
        exact hn.2 p hp ((hg p).2 ⟨hpg, this⟩)
      rcases cp n hroot with h | h
      · left; exact (hrn n).2 (Or.inl h)
      · right; exact (hfl n).2 ⟨h, hng.2⟩

theorem inv_finishAll (cfg : Cfg) (D : List Node) : ∀ (s : St), Inv cfg s → D.Nodup →
    (∀ d ∈ D, d ∈ s.flight) → Inv cfg (finishAll cfg s D) := by
  induction D with
  | nil => intro s h _ _; exact h
  | cons d D ih =>
    intro s hi hnd hsub
    have hd : d ∈ s.flight := hsub d (by simp)
    have h1 : Inv cfg (finish cfg s d) :=
      inv_finish cfg s d hi (hi.froot d hd) (fun h => hi.disj d h hd)
    simp only [finishAll, List.foldl_cons]
    apply ih (finish cfg s d) h1 (List.nodup_cons.mp hnd).2
    intro e he
    rw [flight_finish]
    simp only [List.mem_filter, bne_iff_ne, ne_eq]
    refine ⟨hsub e (by simp [he]), ?_⟩
    intro h; subst h
    exact (List.nodup_cons.mp hnd).1 he

/-- Taking the best candidate out of `runnable` and finishing it at once (skip / inline). -/
theorem inv_take_finish (cfg : Cfg) (s : St) (n : Node) (hi : Inv cfg s) (hn : n ∈ s.runnable) :
    Inv cfg (finish cfg { s with runnable := s.runnable.filter (· != n) } n) := by
  -- first move n into an auxiliary flight slot? simpler: prove directly from inv_finish on a state
  -- where n has been moved from runnable to conc.
  have hroot := hi.rroot n hn
  have hnf := hi.disj n hn
  let s1 : St := { s with runnable := s.runnable.filter (· != n), conc := n :: s.conc }
  have h1 : Inv cfg s1 := by
    refine ⟨hi.gsub, hi.gnodup, hi.rnodup.filter _, ?_, ?_, ?_, ?_, ?_⟩
    · show (n :: s.conc ++ s.asyn).Nodup
      exact List.nodup_cons.mpr ⟨hnf, hi.fnodup⟩
    · intro x hx hf
      simp only [s1, List.mem_filter, bne_iff_ne, ne_eq] at hx
      have hf' : x ∈ n :: (s.conc ++ s.asyn) := hf
      rcases List.mem_cons.mp hf' with h | h
      · exact hx.2 h
      · exact hi.disj x hx.1 h
    · intro x hx
      simp only [s1, List.mem_filter] at hx
      exact hi.rroot x hx.1
    · intro x hx
      have hf' : x ∈ n :: (s.conc ++ s.asyn) := hx
      rcases List.mem_cons.mp hf' with h | h
      · exact h ▸ hroot
      · exact hi.froot x h
    · intro x hx
      rcases hi.compl x hx with h | h
      · by_cases hxn : x = n
        · right; show x ∈ n :: (s.conc ++ s.asyn); simp [hxn]
        · left; simp only [s1, List.mem_filter, bne_iff_ne, ne_eq]; exact ⟨h, hxn⟩
      · right; show x ∈ n :: (s.conc ++ s.asyn); exact List.mem_cons_of_mem _ h
  have h2 : Inv cfg (finish cfg s1 n) := by
    apply inv_finish cfg s1 n h1 hroot
    simp [s1]
  -- finishing n in s1 gives the same state as finishing it directly (n ∉ s.conc)
  have hnc : n ∉ s.conc := fun h => hnf (List.mem_append_left _ h)
  have : finish cfg s1 n = finish cfg { s with runnable := s.runnable.filter (· != n) } n := by
    simp only [finish, s1]
    congr 1
    simp [List.filter_cons]
  rw [← this]; exact h2

theorem inv_dispatch_conc (cfg : Cfg) (s : St) (n : Node) (pc : Pc) (hi : Inv cfg s) (hn : n ∈ s.runnable) :
    Inv cfg { s with runnable := s.runnable.filter (· != n), conc := n :: s.conc, pc := pc } := by
  have hroot := hi.rroot n hn
  have hnf := hi.disj n hn
  refine ⟨hi.gsub, hi.gnodup, hi.rnodup.filter _, ?_, ?_, ?_, ?_, ?_⟩
  · show (n :: s.conc ++ s.asyn).Nodup
    exact List.nodup_cons.mpr ⟨hnf, hi.fnodup⟩
  · intro x hx hf
    simp only [List.mem_filter, bne_iff_ne, ne_eq] at hx
    have hf' : x ∈ n :: (s.conc ++ s.asyn) := hf
    rcases List.mem_cons.mp hf' with h | h
    · exact hx.2 h
    · exact hi.disj x hx.1 h
  · intro x hx
    simp only [List.mem_filter] at hx
    exact hi.rroot x hx.1
  · intro x hx
    have hf' : x ∈ n :: (s.conc ++ s.asyn) := hx
    rcases List.mem_cons.mp hf' with h | h
    · exact h ▸ hroot
    · exact hi.froot x h
  · intro x hx
    rcases hi.compl x hx with h | h
    · by_cases hxn : x = n
      · right; show x ∈ n :: (s.conc ++ s.asyn); simp [hxn]
      · left; simp only [List.mem_filter, bne_iff_ne, ne_eq]; exact ⟨h, hxn⟩
    · right; show x ∈ n :: (s.conc ++ s.asyn); exact List.mem_cons_of_mem _ h

theorem inv_dispatch_asyn (cfg : Cfg) (s : St) (n : Node) (pc : Pc) (hi : Inv cfg s) (hn : n ∈ s.runnable) :
    Inv cfg { s with runnable := s.runnable.filter (· != n), asyn := n :: s.asyn, pc := pc } := by
  have hroot := hi.rroot n hn
  have hnf := hi.disj n hn
  have hperm : ∀ x, x ∈ s.conc ++ n :: s.asyn ↔ x = n ∨ x ∈ s.conc ++ s.asyn := by
    intro x; simp only [List.mem_append, List.mem_cons]; constructor <;> (intro h; rcases h with h | h | h <;> simp [h])
  refine ⟨hi.gsub, hi.gnodup, hi.rnodup.filter _, ?_, ?_, ?_, ?_, ?_⟩
  · show (s.conc ++ n :: s.asyn).Nodup
    have := hi.fnodup
    simp only [St.flight] at this hnf
    rw [List.nodup_append] at this ⊢
    refine ⟨this.1, List.nodup_cons.mpr ⟨fun h => hnf (List.mem_append_right _ h), this.2.1⟩, ?_⟩
    intro a ha b hb
    rcases List.mem_cons.mp hb with h | h
    · intro hab; subst hab; subst h; exact hnf (List.mem_append_left _ ha)
    · exact this.2.2 a ha b h
  · intro x hx hf
    simp only [List.mem_filter, bne_iff_ne, ne_eq] at hx
    rcases (hperm x).1 hf with h | h
    · exact hx.2 h
    · exact hi.disj x hx.1 h
  · intro x hx
    simp only [List.mem_filter] at hx
    exact hi.rroot x hx.1
  · intro x hx
    rcases (hperm x).1 hx with h | h
    · exact h ▸ hroot
    · exact hi.froot x h
  · intro x hx
    rcases hi.compl x hx with h | h
    · by_cases hxn : x = n
      · right; exact (hperm x).2 (Or.inl hxn)
      · left; simp only [List.mem_filter, bne_iff_ne, ne_eq]; exact ⟨h, hxn⟩
    · right; exact (hperm x).2 (Or.inr h)

theorem inv_init (cfg : Cfg) (hnd : cfg.nodes.Nodup) : Inv cfg (init cfg) := by
  refine ⟨fun n h => h, hnd, hnd.filter _, by simp [init, St.flight], by simp [init, St.flight], ?_, by simp [init, St.flight], ?_⟩
  · intro n hn
    simp only [init, List.mem_filter, List.all_eq_true, Bool.not_eq_eq_eq_not, Bool.not_true, List.contains_eq_mem, decide_eq_false_iff_not] at hn
    exact ⟨hn.1, hn.2⟩
  · intro n hn
    left
    simp only [init, List.mem_filter, List.all_eq_true, Bool.not_eq_eq_eq_not, Bool.not_true, List.contains_eq_mem, decide_eq_false_iff_not]
    exact ⟨hn.1, hn.2⟩

theorem inv_step (cfg : Cfg) {s l s'} (hi : Inv cfg s) (hs : Step cfg s l s') : Inv cfg s' := by
  cases hs with
  | top_done _ _ => exact hi.setPc _
  | top_block _ _ _ => exact hi.setPc _
  | top_pick _ _ _ => exact hi.setPc _
  | wa_skip _ _ _ => exact hi.setPc _
  | wa_ok D _ _ _ hnd hsub _ _ =>
    exact (inv_finishAll cfg D s hi hnd (fun d hd => List.mem_append_right _ (hsub d hd))).setPc _
  | wa_err D d _ _ _ _ _ _ _ _ => exact hi.setPc _
  | wc_skip _ _ _ => exact hi.setPc _
  | wc_ok D _ _ _ hnd hsub _ _ =>
    exact (inv_finishAll cfg D s hi hnd (fun d hd => List.mem_append_left _ (hsub d hd))).setPc _
  | wc_err D d _ _ _ _ _ _ _ _ => exact hi.setPc _
  | pick_none _ _ => exact hi.setPc _
  | pick_seqwait n _ _ _ _ => exact hi.setPc _
  | pick_skip n _ hb _ _ => exact (inv_take_finish cfg s n hi hb.1).setPc _
  | pick_thread n _ hb _ _ _ => exact inv_dispatch_conc cfg s n _ hi hb.1
  | pick_async n _ hb _ _ _ => exact inv_dispatch_asyn cfg s n _ hi hb.1
  | pick_main_ok n _ hb _ _ _ _ => exact (inv_take_finish cfg s n hi hb.1).setPc _
  | pick_main_err n _ hb _ _ _ _ => exact hi.setPc _

end TM
