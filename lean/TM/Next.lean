import TM.Sched
/-! Prototype: executable successor function for the acceptor and its soundness w.r.t. `Step`. -/
namespace TM

def bests (cfg : Cfg) (s : St) : List Node :=
  s.runnable.filter fun n => s.runnable.all fun m => decide (cfg.cp m ≤ cfg.cp n)

theorem mem_bests {cfg : Cfg} {s : St} {n : Node} : n ∈ bests cfg s ↔ Best cfg s n := by
  simp [bests, Best]

def canGo (cfg : Cfg) (s : St) (n : Node) : Bool := !(cfg.seq n && s.inflight != 0)

theorem canGo_iff {cfg : Cfg} {s : St} {n : Node} : canGo cfg s n = true ↔ CanGo cfg s n := by
  simp only [canGo, CanGo]
  cases cfg.seq n <;> simp

/-- which wait site (if any) has its async wait at `pc` -/
def siteA : Pc → Option (Pc × Pc × Mode)
  | .w1 => some (.w2, .pick, .first) | .s1 => some (.s2, .top, .first) | .a1 => some (.a2, .top, .all)
  | _ => none
/-- which wait site (if any) has its thread wait at `pc` -/
def siteC : Pc → Option (Pc × Pc × Mode)
  | .w2 => some (.w1, .pick, .first) | .s2 => some (.s1, .top, .first) | .a2 => some (.a1, .top, .all)
  | _ => none

theorem siteA_sound {p p2 p3 m} (h : siteA p = some (p2, p3, m)) : WaitSite p p2 p3 m := by
  cases p <;> simp [siteA] at h <;> obtain ⟨rfl, rfl, rfl⟩ := h <;> constructor

theorem siteC_sound {p p1 p3 m} (h : siteC p = some (p1, p3, m)) : WaitSite p1 p p3 m := by
  cases p <;> simp [siteC] at h <;> obtain ⟨rfl, rfl, rfl⟩ := h <;> constructor

def okSet (fl D : List Node) (m : Mode) : Bool :=
  !D.isEmpty && decide D.Nodup && D.all (fl.contains ·) && (m != .all || fl.all (D.contains ·))

/-- all successors of `s` under label `l` -/
def next (cfg : Cfg) (s : St) : Label → List St
  | .ret => if s.pc = .top ∧ s.graph = [] then [{ s with pc := .done }] else []
  | .tau =>
    (if s.pc = .top ∧ s.graph ≠ [] ∧ (s.inflight = cfg.maxc ∨ s.runnable = []) then [{ s with pc := .w1 }] else []) ++
    (if s.pc = .top ∧ s.graph ≠ [] ∧ ¬ (s.inflight = cfg.maxc ∨ s.runnable = []) then [{ s with pc := .pick }] else []) ++
    (match siteA s.pc with
      | some (p2, _, _) => if s.asyn = [] then [{ s with pc := p2 }] else []
      | none => []) ++
    (match siteC s.pc with
      | some (_, p3, _) => if s.conc = [] then [{ s with pc := p3 }] else []
      | none => []) ++
    (if s.pc = .pick ∧ s.runnable = [] then [{ s with pc := .top }] else []) ++
    (if s.pc = .pick then
      ((bests cfg s).filter fun n => cfg.seq n && s.inflight != 0).map fun _ => { s with pc := .s1 }
     else [])
  | .wait .asyn m D =>
    match siteA s.pc with
    | some (p2, _, m') =>
      if m = m' ∧ okSet s.asyn D m = true ∧ D.all (fun d => !cfg.fails d) = true
      then [{ finishAll cfg s D with pc := p2 }] else []
    | none => []
  | .wait .conc m D =>
    match siteC s.pc with
    | some (_, p3, m') =>
      if m = m' ∧ okSet s.conc D m = true ∧ D.all (fun d => !cfg.fails d) = true
      then [{ finishAll cfg s D with pc := p3 }] else []
    | none => []
  | .waitFail .asyn m D d =>
    match siteA s.pc with
    | some (_, _, m') =>
      if m = m' ∧ okSet s.asyn D m = true ∧ d ∈ D ∧ cfg.fails d = true then [{ s with pc := .err d }] else []
    | none => []
  | .waitFail .conc m D d =>
    match siteC s.pc with
    | some (_, _, m') =>
      if m = m' ∧ okSet s.conc D m = true ∧ d ∈ D ∧ cfg.fails d = true then [{ s with pc := .err d }] else []
    | none => []
  | .skip n =>
    if s.pc = .pick ∧ n ∈ bests cfg s ∧ canGo cfg s n = true ∧ cfg.active n = false then
      [{ finish cfg { s with runnable := s.runnable.filter (· != n) } n with pc := .top }] else []
  | .dispatch n .conc =>
    if s.pc = .pick ∧ n ∈ bests cfg s ∧ canGo cfg s n = true ∧ cfg.active n = true ∧ cfg.res n = .thread then
      [{ s with runnable := s.runnable.filter (· != n), conc := n :: s.conc, pc := afterDispatch cfg n }] else []
  | .dispatch n .asyn =>
    if s.pc = .pick ∧ n ∈ bests cfg s ∧ canGo cfg s n = true ∧ cfg.active n = true ∧ cfg.res n = .async then
      [{ s with runnable := s.runnable.filter (· != n), asyn := n :: s.asyn, pc := afterDispatch cfg n }] else []
  | .inline n =>
    if s.pc = .pick ∧ n ∈ bests cfg s ∧ canGo cfg s n = true ∧ cfg.active n = true ∧ cfg.res n = .main ∧ cfg.fails n = false then
      [{ finish cfg { s with runnable := s.runnable.filter (· != n) } n with pc := afterDispatch cfg n }] else []
  | .inlineFail n =>
    if s.pc = .pick ∧ n ∈ bests cfg s ∧ canGo cfg s n = true ∧ cfg.active n = true ∧ cfg.res n = .main ∧ cfg.fails n = true then
      [{ s with pc := .err n }] else []

theorem okSet_sound {fl D : List Node} {m : Mode} (h : okSet fl D m = true) :
    D ≠ [] ∧ D.Nodup ∧ (∀ d ∈ D, d ∈ fl) ∧ (m = .all → ∀ d ∈ fl, d ∈ D) := by
  simp only [okSet, Bool.and_eq_true, Bool.not_eq_true', List.isEmpty_eq_false_iff, decide_eq_true_eq,
    List.all_eq_true, List.contains_eq_mem, Bool.or_eq_true, bne_iff_ne, ne_eq] at h
  refine ⟨h.1.1.1, h.1.1.2, h.1.2, ?_⟩
  intro hm
  rcases h.2 with h2 | h2
  · exact absurd hm h2
  · exact h2

/-- **soundness of the acceptor's successor function**: whatever `next` offers is a `Step`. -/
theorem next_sound (cfg : Cfg) (s : St) (l : Label) (s' : St) (h : s' ∈ next cfg s l) : Step cfg s l s' := by
  cases l with
  | ret =>
    simp only [next] at h
    split at h
    · rename_i hc; simp at h; subst h; exact Step.top_done hc.1 hc.2
    · simp at h
  | tau =>
    simp only [next, List.mem_append] at h
    rcases h with ((((h | h) | h) | h) | h) | h
    · split at h
      · rename_i hc; simp at h; subst h; exact Step.top_block hc.1 hc.2.1 hc.2.2
      · simp at h
    · split at h
      · rename_i hc; simp at h; subst h; exact Step.top_pick hc.1 hc.2.1 hc.2.2
      · simp at h
    · split at h
      · rename_i p2 p3 m heq
        split at h
        · rename_i ha; simp at h; subst h; exact Step.wa_skip (siteA_sound heq) rfl ha
        · simp at h
      · simp at h
    · split at h
      · rename_i p1 p3 m heq
        split at h
        · rename_i hc; simp at h; subst h; exact Step.wc_skip (siteC_sound heq) rfl hc
        · simp at h
      · simp at h
    · split at h
      · rename_i hc; simp at h; subst h; exact Step.pick_none hc.1 hc.2
      · simp at h
    · split at h
      · rename_i hp
        simp only [List.mem_map, List.mem_filter, Bool.and_eq_true, bne_iff_ne, ne_eq] at h
        obtain ⟨n, ⟨hb, hsq, hin⟩, rfl⟩ := h
        exact Step.pick_seqwait n hp (mem_bests.1 hb) hsq hin
      · simp at h
  | wait k m D =>
    cases k with
    | asyn =>
      simp only [next] at h
      split at h
      · rename_i p2 p3 m' heq
        split at h
        · rename_i hc; simp at h; subst h
          obtain ⟨rfl, hok, hf⟩ := hc
          obtain ⟨h1, h2, h3, h4⟩ := okSet_sound hok
          exact Step.wa_ok D (siteA_sound heq) rfl h1 h2 h3 h4 (by simpa using hf)
        · simp at h
      · simp at h
    | conc =>
      simp only [next] at h
      split at h
      · rename_i p1 p3 m' heq
        split at h
        · rename_i hc; simp at h; subst h
          obtain ⟨rfl, hok, hf⟩ := hc
          obtain ⟨h1, h2, h3, h4⟩ := okSet_sound hok
          exact Step.wc_ok D (siteC_sound heq) rfl h1 h2 h3 h4 (by simpa using hf)
        · simp at h
      · simp at h
  | waitFail k m D d =>
    cases k with
    | asyn =>
      simp only [next] at h
      split at h
      · rename_i p2 p3 m' heq
        split at h
        · rename_i hc; simp at h; subst h
          obtain ⟨rfl, hok, hd, hf⟩ := hc
          obtain ⟨h1, h2, h3, h4⟩ := okSet_sound hok
          exact Step.wa_err D d (siteA_sound heq) rfl h1 h2 h3 h4 hd hf
        · simp at h
      · simp at h
    | conc =>
      simp only [next] at h
      split at h
      · rename_i p1 p3 m' heq
        split at h
        · rename_i hc; simp at h; subst h
          obtain ⟨rfl, hok, hd, hf⟩ := hc
          obtain ⟨h1, h2, h3, h4⟩ := okSet_sound hok
          exact Step.wc_err D d (siteC_sound heq) rfl h1 h2 h3 h4 hd hf
        · simp at h
      · simp at h
  | skip n =>
    simp only [next] at h
    split at h
    · rename_i hc; simp at h; subst h
      exact Step.pick_skip n hc.1 (mem_bests.1 hc.2.1) (canGo_iff.1 hc.2.2.1) hc.2.2.2
    · simp at h
  | dispatch n k =>
    cases k with
    | conc =>
      simp only [next] at h
      split at h
      · rename_i hc; simp at h; subst h
        exact Step.pick_thread n hc.1 (mem_bests.1 hc.2.1) (canGo_iff.1 hc.2.2.1) hc.2.2.2.1 hc.2.2.2.2
      · simp at h
    | asyn =>
      simp only [next] at h
      split at h
      · rename_i hc; simp at h; subst h
        exact Step.pick_async n hc.1 (mem_bests.1 hc.2.1) (canGo_iff.1 hc.2.2.1) hc.2.2.2.1 hc.2.2.2.2
      · simp at h
  | inline n =>
    simp only [next] at h
    split at h
    · rename_i hc; simp at h; subst h
      exact Step.pick_main_ok n hc.1 (mem_bests.1 hc.2.1) (canGo_iff.1 hc.2.2.1) hc.2.2.2.1 hc.2.2.2.2.1 hc.2.2.2.2.2
    · simp at h
  | inlineFail n =>
    simp only [next] at h
    split at h
    · rename_i hc; simp at h; subst h
      exact Step.pick_main_err n hc.1 (mem_bests.1 hc.2.1) (canGo_iff.1 hc.2.2.1) hc.2.2.2.1 hc.2.2.2.2.1 hc.2.2.2.2.2
    · simp at h

end TM
