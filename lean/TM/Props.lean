import TM.TraceStep2
/-! Prototype property theorems C02 C03 C05 C06 over the scheduler LTS. -/
namespace TM

theorem pc_not_err_of_eq {s : St} {p : Pc} (h : s.pc = p) (hp : ∀ e, p ≠ .err e) : ∀ e, s.pc ≠ .err e :=
  fun e he => hp e (h ▸ he)

theorem afterDispatch_not_err (cfg : Cfg) (n : Node) : ∀ e, afterDispatch cfg n ≠ .err e := by
  intro e; unfold afterDispatch; split <;> (intro h; cases h)

theorem tinv_step (cfg : Cfg) {tr s l s'} (h : TInv cfg tr s) (hs : Step cfg s l s') :
    TInv cfg (l :: tr) s' := by
  cases hs with
  | top_done h1 _ => exact h.silent _ _ rfl rfl rfl (fun n hn => by rw [h1] at hn; cases hn)
  | top_block h1 _ _ => exact h.silent _ _ rfl rfl rfl (fun n hn => by rw [h1] at hn; cases hn)
  | top_pick h1 _ _ => exact h.silent _ _ rfl rfl rfl (fun n hn => by rw [h1] at hn; cases hn)
  | wa_skip hw h1 _ =>
    exact h.silent _ _ rfl rfl rfl (fun n hn => absurd (h1 ▸ hn) ((not_err_of_site hw).1 n))
  | wa_ok D hw h1 _ hnd hsub _ _ =>
    exact h.waitOk _ _ D _ hnd (fun d hd => List.mem_append_right _ (hsub d hd))
      (pc_not_err_of_eq h1 (not_err_of_site hw).1)
  | wa_err D d hw h1 _ _ _ _ _ _ =>
    exact h.silent _ _ rfl rfl rfl (fun n hn => absurd (h1 ▸ hn) ((not_err_of_site hw).1 n))
  | wc_skip hw h1 _ =>
    exact h.silent _ _ rfl rfl rfl (fun n hn => absurd (h1 ▸ hn) ((not_err_of_site hw).2 n))
  | wc_ok D hw h1 _ hnd hsub _ _ =>
    exact h.waitOk _ _ D _ hnd (fun d hd => List.mem_append_left _ (hsub d hd))
      (pc_not_err_of_eq h1 (not_err_of_site hw).2)
  | wc_err D d hw h1 _ _ _ _ _ _ =>
    exact h.silent _ _ rfl rfl rfl (fun n hn => absurd (h1 ▸ hn) ((not_err_of_site hw).2 n))
  | pick_none h1 _ => exact h.silent _ _ rfl rfl rfl (fun n hn => by rw [h1] at hn; cases hn)
  | pick_seqwait n h1 _ _ _ => exact h.silent _ _ rfl rfl rfl (fun n hn => by rw [h1] at hn; cases hn)
  | pick_skip n h1 hb _ ha =>
    exact h.takeFinish n _ false hb.1 (pc_not_err_of_eq h1 (fun e he => by cases he)) ha
  | pick_thread n h1 hb _ ha _ =>
    have hpc := pc_not_err_of_eq h1 (fun e he => by cases he)
    refine h.dispatch n .conc _ hb.1 hpc ha (inv_dispatch_conc cfg s n _ h.inv hb.1) rfl ?_ (afterDispatch_not_err cfg n)
    intro x; show x ∈ n :: s.conc ++ s.asyn ↔ _; simp [St.flight]
  | pick_async n h1 hb _ ha _ =>
    have hpc := pc_not_err_of_eq h1 (fun e he => by cases he)
    refine h.dispatch n .asyn _ hb.1 hpc ha (inv_dispatch_asyn cfg s n _ h.inv hb.1) rfl ?_ (afterDispatch_not_err cfg n)
    intro x; show x ∈ s.conc ++ n :: s.asyn ↔ _; simp [St.flight]; grind
  | pick_main_ok n h1 hb _ ha _ _ =>
    exact h.takeFinish n _ true hb.1 (pc_not_err_of_eq h1 (fun e he => by cases he)) ha
  | pick_main_err n h1 hb _ ha _ _ =>
    exact h.inlineFail n hb.1 (pc_not_err_of_eq h1 (fun e he => by cases he)) ha

theorem tinv_init (cfg : Cfg) (hnd : cfg.nodes.Nodup) : TInv cfg [] (init cfg) := by
  refine ⟨inv_init cfg hnd, ?_, by simp [starts], by simp [skips], by simp [starts], ?_, by simp [fins], by simp [starts], by simp [skips], by simp [starts]⟩
  · intro n; simp [fins, skips, init]
  · intro n hn; simp [init, St.flight] at hn

theorem tinv_of_run (cfg : Cfg) (hnd : cfg.nodes.Nodup) {tr s} (hr : Run cfg tr s) : TInv cfg tr s := by
  induction hr with
  | init => exact tinv_init cfg hnd
  | step _ hs ih => exact tinv_step cfg ih hs

/-- a label that starts `n` is only possible when `n` is a best runnable candidate -/
theorem start_best {cfg : Cfg} {s l s'} (hs : Step cfg s l s') {n} (hl : l.start = some n) :
    s.pc = .pick ∧ Best cfg s n ∧ CanGo cfg s n := by
  cases hs <;> simp [Label.start] at hl <;> (subst hl; refine ⟨?_, ?_, ?_⟩ <;> assumption)

/-- **C02** (model level). In every run, when a node is started every dependency that belongs to the
    execution has already finished or been skipped. Traces are newest-first, so "before" = in `pre`. -/
theorem C02_deps_before_start (cfg : Cfg) (hnd : cfg.nodes.Nodup) {tr s} (hr : Run cfg tr s) :
    ∀ post l pre, tr = post ++ l :: pre → ∀ n, l.start = some n →
      ∀ p ∈ cfg.preds n, p ∈ cfg.nodes → p ∈ fins pre ∨ p ∈ skips pre := by
  induction hr with
  | init => intro post l pre h; simp at h
  | @step tr0 s0 l0 s1 hr0 hs ih =>
    intro post l pre h n hl p hp hpn
    cases post with
    | nil =>
      simp at h
      obtain ⟨rfl, rfl⟩ := h
      have ti := tinv_of_run cfg hnd hr0
      have hb := (start_best hs hl).2.1
      have hroot := ti.inv.rroot n hb.1
      exact (ti.gone p).2 ⟨hpn, hroot.2 p hp⟩
    | cons x post' =>
      simp at h
      exact ih post' l pre h.2 n hl p hp hpn

/-- **C03a**: no node is started twice, whatever happens later (also in runs that end in an error). -/
theorem C03_start_at_most_once (cfg : Cfg) (hnd : cfg.nodes.Nodup) {tr s} (hr : Run cfg tr s) :
    (starts tr).Nodup := (tinv_of_run cfg hnd hr).snodup

/-- only selected nodes are ever started -/
theorem C03_only_selected (cfg : Cfg) (hnd : cfg.nodes.Nodup) {tr s} (hr : Run cfg tr s) :
    ∀ n ∈ starts tr, n ∈ cfg.nodes := (tinv_of_run cfg hnd hr).ssel

theorem done_graph_empty (cfg : Cfg) {tr s} (hr : Run cfg tr s) : s.pc = .done → s.graph = [] := by
  cases hr with
  | init => intro h; simp [init] at h
  | step _ hs =>
    intro h
    cases hs with
    | top_done _ hg => exact hg
    | wa_skip hw _ _ => cases hw <;> cases h
    | wa_ok D hw _ _ _ _ _ _ => cases hw <;> cases h
    | wc_skip hw _ _ => cases hw <;> cases h
    | wc_ok D hw _ _ _ _ _ _ => cases hw <;> cases h
    | pick_thread n _ _ _ _ _ => simp only [afterDispatch] at h; split at h <;> cases h
    | pick_async n _ _ _ _ _ => simp only [afterDispatch] at h; split at h <;> cases h
    | pick_main_ok n _ _ _ _ _ _ => simp only [afterDispatch] at h; split at h <;> cases h
    | _ => cases h

/-- **C03b**: a run that returns normally started every selected active node exactly once and
    skipped every selected inactive node exactly once, and nothing else. -/
theorem C03_exactly_once_at_done (cfg : Cfg) (hnd : cfg.nodes.Nodup) {tr s} (hr : Run cfg tr s)
    (hd : s.pc = .done) : ∀ n ∈ cfg.nodes,
      (cfg.active n = true → (starts tr).count n = 1 ∧ n ∉ skips tr) ∧
      (cfg.active n = false → n ∉ starts tr ∧ (skips tr).count n = 1) := by
  intro n hn
  have ti := tinv_of_run cfg hnd hr
  have hg := done_graph_empty cfg hr hd
  have hgone := (ti.gone n).2 ⟨hn, by simp [hg]⟩
  constructor
  · intro ha
    have hk : n ∉ skips tr := fun h => by have := ti.kact n h; simp [ha] at this
    have hf : n ∈ fins tr := by rcases hgone with h | h; exact h; exact absurd h hk
    exact ⟨by rw [ti.snodup.count]; simp [ti.finstart n hf], hk⟩
  · intro ha
    have hs : n ∉ starts tr := fun h => by have := ti.sact n h; simp [ha] at this
    have hk : n ∈ skips tr := by
      rcases hgone with h | h
      · exact absurd (ti.finstart n h) hs
      · exact h
    exact ⟨hs, by rw [ti.knodup.count]; simp [hk]⟩

/-- **C06** (model level): whatever is started or skipped is a maximal-priority member of the ready
    set, and the ready set is exactly the roots of the remaining graph that are not in flight. -/
theorem C06_best_ready (cfg : Cfg) (hnd : cfg.nodes.Nodup) {tr s l s'} (hr : Run cfg tr s)
    (hs : Step cfg s l s') {n} (hl : l.start = some n ∨ l = .skip n) :
    (isRoot cfg s.graph n ∧ n ∉ s.flight) ∧
    ∀ m, isRoot cfg s.graph m → m ∉ s.flight → cfg.cp m ≤ cfg.cp n := by
  have ti := tinv_of_run cfg hnd hr
  have hb : Best cfg s n := by
    rcases hl with hl | hl
    · exact (start_best hs hl).2.1
    · subst hl; cases hs; assumption
  refine ⟨⟨ti.inv.rroot n hb.1, ti.inv.disj n hb.1⟩, ?_⟩
  intro m hm hmf
  rcases ti.inv.compl m hm with h | h
  · exact hb.2 m h
  · exact absurd h hmf

end TM
