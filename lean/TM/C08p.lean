import TM.C08w
/-! Prototype: C08_partial — with a single pooled kind, every blocking wait satisfies `BlockOK`. -/
namespace TM

def NoAsync (cfg : Cfg) : Prop := ∀ n, cfg.res n ≠ .async
def NoThread (cfg : Cfg) : Prop := ∀ n, cfg.res n ≠ .thread

/-- in-flight lists only contain nodes of the matching resource -/
structure KInv (cfg : Cfg) (s : St) : Prop where
  conc : ∀ n ∈ s.conc, cfg.res n = .thread
  asyn : ∀ n ∈ s.asyn, cfg.res n = .async

theorem kinv_step (cfg : Cfg) {s l s'} (h : KInv cfg s) (hs : Step cfg s l s') : KInv cfg s' := by
  obtain ⟨hc, ha⟩ := h
  cases hs with
  | wa_ok D _ _ _ _ _ _ _ =>
    exact ⟨fun n hn => hc n ((mem_conc_finishAll cfg D s n).1 hn).1, fun n hn => ha n ((mem_asyn_finishAll cfg D s n).1 hn).1⟩
  | wc_ok D _ _ _ _ _ _ _ =>
    exact ⟨fun n hn => hc n ((mem_conc_finishAll cfg D s n).1 hn).1, fun n hn => ha n ((mem_asyn_finishAll cfg D s n).1 hn).1⟩
  | pick_skip n _ _ _ _ =>
    exact ⟨fun x hx => hc x (by simp [finish] at hx; exact hx.1), fun x hx => ha x (by simp [finish] at hx; exact hx.1)⟩
  | pick_main_ok n _ _ _ _ _ _ =>
    exact ⟨fun x hx => hc x (by simp [finish] at hx; exact hx.1), fun x hx => ha x (by simp [finish] at hx; exact hx.1)⟩
  | pick_thread n _ _ _ _ hr =>
    exact ⟨fun x hx => by rcases List.mem_cons.mp hx with rfl | hx; exact hr; exact hc x hx, ha⟩
  | pick_async n _ _ _ _ hr =>
    exact ⟨hc, fun x hx => by rcases List.mem_cons.mp hx with rfl | hx; exact hr; exact ha x hx⟩
  | _ => exact ⟨hc, ha⟩

theorem kinv_of_run (cfg : Cfg) {tr s} (hr : Run cfg tr s) : KInv cfg s := by
  induction hr with
  | init => exact ⟨by simp [init], by simp [init]⟩
  | step _ hs ih => exact kinv_step cfg ih hs

theorem asyn_nil_of_noasync {cfg : Cfg} (hna : NoAsync cfg) {s : St} (hk : KInv cfg s) : s.asyn = [] := by
  apply List.eq_nil_iff_forall_not_mem.mpr
  intro x hx; exact hna x (hk.asyn x hx)

theorem conc_nil_of_nothread {cfg : Cfg} (hnt : NoThread cfg) {s : St} (hk : KInv cfg s) : s.conc = [] := by
  apply List.eq_nil_iff_forall_not_mem.mpr
  intro x hx; exact hnt x (hk.conc x hx)

/-- `BlockOK` only looks at the four lists, not at `pc` -/
theorem blockOK_setPc {cfg : Cfg} {s : St} (p : Pc) : BlockOK cfg { s with pc := p } ↔ BlockOK cfg s := Iff.rfl

theorem afterDispatch_eq (cfg : Cfg) (n : Node) :
    (afterDispatch cfg n = .a1 ∧ cfg.seq n = true) ∨ (afterDispatch cfg n = .top ∧ cfg.seq n = false) := by
  unfold afterDispatch
  cases h : cfg.seq n <;> simp

theorem seq_of_after {cfg : Cfg} {n : Node} (hp : afterDispatch cfg n = .a1 ∨ afterDispatch cfg n = .a2) :
    cfg.seq n = true := by
  rcases afterDispatch_eq cfg n with ⟨h, hs⟩ | ⟨h, _⟩
  · exact hs
  · rw [h] at hp; rcases hp with hp | hp <;> cases hp

theorem after_ne {cfg : Cfg} {n : Node} {p : Pc} (h1 : p ≠ .a1) (h2 : p ≠ .top) : afterDispatch cfg n ≠ p := by
  rcases afterDispatch_eq cfg n with ⟨h, _⟩ | ⟨h, _⟩ <;> rw [h] <;> intro hh <;> first | exact h1 hh.symm | exact h2 hh.symm

/-- what the scheduler knows at each wait site -/
structure WInv (cfg : Cfg) (s : St) : Prop where
  w1 : s.pc = .w1 → BlockOK cfg s
  s1 : s.pc = .s1 → BlockOK cfg s
  a1 : (s.pc = .a1 ∨ s.pc = .a2) → ∀ x ∈ s.flight, cfg.seq x = true
  -- second wait of a pair: still fine if the first one did not wait (or there is nothing to wait for)
  w2 : s.pc = .w2 → (BlockOK cfg s ∨ s.conc = [])
  s2 : s.pc = .s2 → (BlockOK cfg s ∨ s.conc = [])

theorem winv_step (cfg : Cfg) (hone : NoAsync cfg ∨ NoThread cfg) {s l s'} (hk : KInv cfg s) (h : WInv cfg s)
    (hs : Step cfg s l s') : WInv cfg s' := by
  have hk' := kinv_step cfg hk hs
  cases hs with
  | top_done _ _ => exact ⟨by simp, by simp, by simp, by simp, by simp⟩
  | top_block h1 h2 h3 =>
    refine ⟨fun _ => ?_, by simp, by simp, by simp, by simp⟩
    rcases h3 with h3 | h3
    · exact Or.inl h3
    · exact Or.inr (Or.inl h3)
  | top_pick _ _ _ => exact ⟨by simp, by simp, by simp, by simp, by simp⟩
  | wa_skip hw h1 h2 =>
    cases hw with
    | block => exact ⟨by simp, by simp, by simp, fun _ => Or.inl (h.w1 h1), by simp⟩
    | seqw => exact ⟨by simp, by simp, by simp, by simp, fun _ => Or.inl (h.s1 h1)⟩
    | drain => exact ⟨by simp, by simp, fun _ => h.a1 (Or.inl h1), by simp, by simp⟩
  | wa_ok D hw h1 hne _ hsub _ _ =>
    -- an async wait really happened: so there are async nodes, hence (single kind) no thread nodes
    have hcn : (finishAll cfg s D).conc = [] := by
      rcases hone with hna | hnt
      · have := asyn_nil_of_noasync hna hk
        obtain ⟨d, hd⟩ := List.exists_mem_of_ne_nil D hne
        have := hsub d hd; simp_all
      · have : KInv cfg (finishAll cfg s D) := ⟨hk'.conc, hk'.asyn⟩
        exact conc_nil_of_nothread hnt this
    cases hw with
    | block => exact ⟨by simp, by simp, by simp, fun _ => Or.inr hcn, by simp⟩
    | seqw => exact ⟨by simp, by simp, by simp, by simp, fun _ => Or.inr hcn⟩
    | drain =>
      refine ⟨by simp, by simp, fun _ => ?_, by simp, by simp⟩
      intro x hx
      exact h.a1 (Or.inl h1) x (flight_finishAll_sub cfg D s x hx)
  | wa_err D d hw _ _ _ _ _ _ _ => exact ⟨by simp, by simp, by simp, by simp, by simp⟩
  | wc_skip hw h1 h2 =>
    cases hw <;> exact ⟨by simp, by simp, by simp, by simp, by simp⟩
  | wc_ok D hw h1 _ _ _ _ _ =>
    cases hw <;> exact ⟨by simp, by simp, by simp, by simp, by simp⟩
  | wc_err D d hw _ _ _ _ _ _ _ => exact ⟨by simp, by simp, by simp, by simp, by simp⟩
  | pick_none _ _ => exact ⟨by simp, by simp, by simp, by simp, by simp⟩
  | pick_seqwait n h1 hb hsq _ =>
    exact ⟨by simp, fun _ => Or.inr (Or.inr (Or.inr ⟨n, hb, hsq⟩)), by simp, by simp, by simp⟩
  | pick_skip n _ _ _ _ => exact ⟨by simp, by simp, by simp, by simp, by simp⟩
  | pick_thread n h1 hb hgo _ _ =>
    refine ⟨fun hp => absurd hp (after_ne (by simp) (by simp)), fun hp => absurd hp (after_ne (by simp) (by simp)),
      ?_, fun hp => absurd hp (after_ne (by simp) (by simp)), fun hp => absurd hp (after_ne (by simp) (by simp))⟩
    intro hp x hx
    have hsq : cfg.seq n = true := seq_of_after hp
    have h0 : s.inflight = 0 := by
      by_cases h0 : s.inflight = 0
      · exact h0
      · exact absurd ⟨hsq, h0⟩ hgo
    have hx' : x ∈ n :: (s.conc ++ s.asyn) := hx
    simp only [St.inflight] at h0
    have hc : s.conc = [] := List.eq_nil_of_length_eq_zero (by omega)
    have ha : s.asyn = [] := List.eq_nil_of_length_eq_zero (by omega)
    rw [hc, ha] at hx'; simp at hx'; subst hx'; exact hsq
  | pick_async n h1 hb hgo _ _ =>
    refine ⟨fun hp => absurd hp (after_ne (by simp) (by simp)), fun hp => absurd hp (after_ne (by simp) (by simp)),
      ?_, fun hp => absurd hp (after_ne (by simp) (by simp)), fun hp => absurd hp (after_ne (by simp) (by simp))⟩
    intro hp x hx
    have hsq : cfg.seq n = true := seq_of_after hp
    have h0 : s.inflight = 0 := by
      by_cases h0 : s.inflight = 0
      · exact h0
      · exact absurd ⟨hsq, h0⟩ hgo
    have hx' : x ∈ s.conc ++ n :: s.asyn := hx
    simp only [St.inflight] at h0
    have hc : s.conc = [] := List.eq_nil_of_length_eq_zero (by omega)
    have ha : s.asyn = [] := List.eq_nil_of_length_eq_zero (by omega)
    rw [hc, ha] at hx'; simp at hx'; subst hx'; exact hsq
  | pick_main_ok n h1 hb hgo _ _ _ =>
    refine ⟨fun hp => absurd hp (after_ne (by simp) (by simp)), fun hp => absurd hp (after_ne (by simp) (by simp)),
      ?_, fun hp => absurd hp (after_ne (by simp) (by simp)), fun hp => absurd hp (after_ne (by simp) (by simp))⟩
    intro hp x hx
    have hsq : cfg.seq n = true := seq_of_after hp
    have h0 : s.inflight = 0 := by
      by_cases h0 : s.inflight = 0
      · exact h0
      · exact absurd ⟨hsq, h0⟩ hgo
    have hx' := flight_take_sub cfg s n x hx
    simp only [St.inflight] at h0
    have hc : s.conc = [] := List.eq_nil_of_length_eq_zero (by omega)
    have ha : s.asyn = [] := List.eq_nil_of_length_eq_zero (by omega)
    simp [St.flight, hc, ha] at hx'
  | pick_main_err n _ _ _ _ _ _ => exact ⟨by simp, by simp, by simp, by simp, by simp⟩

theorem winv_of_run (cfg : Cfg) (hone : NoAsync cfg ∨ NoThread cfg) {tr s} (hr : Run cfg tr s) : WInv cfg s := by
  induction hr with
  | init => exact ⟨by simp [init], by simp [init], by simp [init], by simp [init], by simp [init]⟩
  | step hr0 hs ih => exact winv_step cfg hone (kinv_of_run cfg hr0) ih hs

/-- **C08_partial** (model level): when the pooled nodes are all of one kind, the scheduler blocks
    only if `max_concurrency` nodes are in flight, or nothing is ready, or a sequential node is
    running or is a best ready candidate. -/
theorem C08_partial (cfg : Cfg) (hone : NoAsync cfg ∨ NoThread cfg) {tr s s'} (hr : Run cfg tr s)
    {k m D} (hs : Step cfg s (.wait k m D) s') : BlockOK cfg s := by
  have hw := winv_of_run cfg hone hr
  have seqOK : (s.pc = .a1 ∨ s.pc = .a2) → ∀ d ∈ D, d ∈ s.flight → BlockOK cfg s := by
    intro hp d hd hdf
    obtain ⟨x, hx⟩ : ∃ x, x ∈ D := ⟨d, hd⟩
    exact Or.inr (Or.inr (Or.inl ⟨d, hdf, hw.a1 hp d hdf⟩))
  cases hs with
  | wa_ok _ hsite h1 hne _ hsub _ _ =>
    obtain ⟨d, hd⟩ := List.exists_mem_of_ne_nil D hne
    cases hsite with
    | block => exact hw.w1 h1
    | seqw => exact hw.s1 h1
    | drain => exact seqOK (Or.inl h1) d hd (List.mem_append_right _ (hsub d hd))
  | wc_ok _ hsite h1 hne _ hsub _ _ =>
    obtain ⟨d, hd⟩ := List.exists_mem_of_ne_nil D hne
    have hcne : s.conc ≠ [] := fun hh => by have := hsub d hd; rw [hh] at this; simp at this
    cases hsite with
    | block => rcases hw.w2 h1 with h | h; exact h; exact absurd h hcne
    | seqw => rcases hw.s2 h1 with h | h; exact h; exact absurd h hcne
    | drain => exact seqOK (Or.inr h1) d hd (List.mem_append_left _ (hsub d hd))

end TM
