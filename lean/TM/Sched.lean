/-! Scheduler LTS, v2 (prototype in intended final shape). Core Lean only. -/
namespace TM

abbrev Node := Nat

inductive Res where | thread | async | main deriving DecidableEq, Repr
inductive Kind where | conc | asyn deriving DecidableEq, Repr
inductive Mode where | first | all deriving DecidableEq, Repr

structure Cfg where
  nodes  : List Node
  preds  : Node → List Node
  cp     : Node → Int
  seq    : Node → Bool
  res    : Node → Res
  active : Node → Bool
  fails  : Node → Bool
  maxc   : Nat

inductive Pc where
  | top | w1 | w2 | pick | s1 | s2 | a1 | a2 | done | err (n : Node)
deriving DecidableEq, Repr

structure St where
  graph    : List Node
  runnable : List Node
  conc     : List Node
  asyn     : List Node
  pc       : Pc
deriving DecidableEq, Repr

inductive Label where
  | tau
  | dispatch (n : Node) (k : Kind)
  | inline (n : Node)
  | inlineFail (n : Node)
  | skip (n : Node)
  | wait (k : Kind) (m : Mode) (D : List Node)
  | waitFail (k : Kind) (m : Mode) (D : List Node) (d : Node)
  | ret
deriving DecidableEq, Repr

def St.flight (s : St) : List Node := s.conc ++ s.asyn
def St.inflight (s : St) : Nat := s.conc.length + s.asyn.length

def newRoots (cfg : Cfg) (g : List Node) (r : Node) : List Node :=
  g.filter fun m => m != r && (cfg.preds m).contains r &&
    (cfg.preds m).all fun p => !(g.contains p) || p == r

def finish (cfg : Cfg) (s : St) (r : Node) : St :=
  { s with graph := s.graph.filter (· != r),
           runnable := s.runnable ++ newRoots cfg s.graph r,
           conc := s.conc.filter (· != r),
           asyn := s.asyn.filter (· != r) }

def finishAll (cfg : Cfg) (s : St) (D : List Node) : St := D.foldl (finish cfg) s

def isRoot (cfg : Cfg) (g : List Node) (n : Node) : Prop := n ∈ g ∧ ∀ p ∈ cfg.preds n, p ∉ g

def Best (cfg : Cfg) (s : St) (n : Node) : Prop :=
  n ∈ s.runnable ∧ ∀ m ∈ s.runnable, cfg.cp m ≤ cfg.cp n

/-- the three wait pairs: (pc before async wait, pc between, pc after thread wait, mode) -/
inductive WaitSite : Pc → Pc → Pc → Mode → Prop
  | block : WaitSite .w1 .w2 .pick .first
  | seqw  : WaitSite .s1 .s2 .top .first
  | drain : WaitSite .a1 .a2 .top .all

def CanGo (cfg : Cfg) (s : St) (n : Node) : Prop := ¬ (cfg.seq n = true ∧ s.inflight ≠ 0)

def afterDispatch (cfg : Cfg) (n : Node) : Pc := if cfg.seq n then .a1 else .top

inductive Step (cfg : Cfg) : St → Label → St → Prop
  | top_done {s} : s.pc = .top → s.graph = [] → Step cfg s .ret { s with pc := .done }
  | top_block {s} : s.pc = .top → s.graph ≠ [] → (s.inflight = cfg.maxc ∨ s.runnable = []) →
      Step cfg s .tau { s with pc := .w1 }
  | top_pick {s} : s.pc = .top → s.graph ≠ [] → ¬ (s.inflight = cfg.maxc ∨ s.runnable = []) →
      Step cfg s .tau { s with pc := .pick }
  | wa_skip {s} {p1 p2 p3 m} : WaitSite p1 p2 p3 m → s.pc = p1 → s.asyn = [] →
      Step cfg s .tau { s with pc := p2 }
  | wa_ok {s} {p1 p2 p3 m} (D : List Node) : WaitSite p1 p2 p3 m → s.pc = p1 →
      D ≠ [] → D.Nodup → (∀ d ∈ D, d ∈ s.asyn) → (m = .all → ∀ d ∈ s.asyn, d ∈ D) →
      (∀ d ∈ D, cfg.fails d = false) →
      Step cfg s (.wait .asyn m D) { finishAll cfg s D with pc := p2 }
  | wa_err {s} {p1 p2 p3 m} (D : List Node) (d : Node) : WaitSite p1 p2 p3 m → s.pc = p1 →
      D ≠ [] → D.Nodup → (∀ d ∈ D, d ∈ s.asyn) → (m = .all → ∀ d ∈ s.asyn, d ∈ D) →
      d ∈ D → cfg.fails d = true →
      Step cfg s (.waitFail .asyn m D d) { s with pc := .err d }
  | wc_skip {s} {p1 p2 p3 m} : WaitSite p1 p2 p3 m → s.pc = p2 → s.conc = [] →
      Step cfg s .tau { s with pc := p3 }
  | wc_ok {s} {p1 p2 p3 m} (D : List Node) : WaitSite p1 p2 p3 m → s.pc = p2 →
      D ≠ [] → D.Nodup → (∀ d ∈ D, d ∈ s.conc) → (m = .all → ∀ d ∈ s.conc, d ∈ D) →
      (∀ d ∈ D, cfg.fails d = false) →
      Step cfg s (.wait .conc m D) { finishAll cfg s D with pc := p3 }
  | wc_err {s} {p1 p2 p3 m} (D : List Node) (d : Node) : WaitSite p1 p2 p3 m → s.pc = p2 →
      D ≠ [] → D.Nodup → (∀ d ∈ D, d ∈ s.conc) → (m = .all → ∀ d ∈ s.conc, d ∈ D) →
      d ∈ D → cfg.fails d = true →
      Step cfg s (.waitFail .conc m D d) { s with pc := .err d }
  | pick_none {s} : s.pc = .pick → s.runnable = [] → Step cfg s .tau { s with pc := .top }
  | pick_seqwait {s} (n) : s.pc = .pick → Best cfg s n → cfg.seq n = true → s.inflight ≠ 0 →
      Step cfg s .tau { s with pc := .s1 }
  | pick_skip {s} (n) : s.pc = .pick → Best cfg s n → CanGo cfg s n → cfg.active n = false →
      Step cfg s (.skip n)
        { finish cfg { s with runnable := s.runnable.filter (· != n) } n with pc := .top }
  | pick_thread {s} (n) : s.pc = .pick → Best cfg s n → CanGo cfg s n →
      cfg.active n = true → cfg.res n = .thread →
      Step cfg s (.dispatch n .conc)
        { s with runnable := s.runnable.filter (· != n), conc := n :: s.conc,
                 pc := afterDispatch cfg n }
  | pick_async {s} (n) : s.pc = .pick → Best cfg s n → CanGo cfg s n →
      cfg.active n = true → cfg.res n = .async →
      Step cfg s (.dispatch n .asyn)
        { s with runnable := s.runnable.filter (· != n), asyn := n :: s.asyn,
                 pc := afterDispatch cfg n }
  | pick_main_ok {s} (n) : s.pc = .pick → Best cfg s n → CanGo cfg s n →
      cfg.active n = true → cfg.res n = .main → cfg.fails n = false →
      Step cfg s (.inline n)
        { finish cfg { s with runnable := s.runnable.filter (· != n) } n with
            pc := afterDispatch cfg n }
  | pick_main_err {s} (n) : s.pc = .pick → Best cfg s n → CanGo cfg s n →
      cfg.active n = true → cfg.res n = .main → cfg.fails n = true →
      Step cfg s (.inlineFail n) { s with pc := .err n }

def init (cfg : Cfg) : St :=
  { graph := cfg.nodes,
    runnable := cfg.nodes.filter fun n => (cfg.preds n).all fun p => !(cfg.nodes.contains p),
    conc := [], asyn := [], pc := .top }

/-- runs, newest label first -/
inductive Run (cfg : Cfg) : List Label → St → Prop
  | init : Run cfg [] (init cfg)
  | step {tr s l s'} : Run cfg tr s → Step cfg s l s' → Run cfg (l :: tr) s'

end TM
