import TM.NextComplete
/-! The acceptor used by the correspondence check (on-the-fly subset construction over `next`), and its
    soundness as a whole: if the acceptor is left with a state `s` after an observation sequence, then
    there is a run of the LTS ending in `s` whose visible labels are exactly those observations.
    (So "trace accepted" means, provably, "the real trace is a run of the model the theorems are about".) -/
namespace TM

def dedupSt (l : List St) : List St :=
  l.foldl (fun acc s => if acc.contains s then acc else acc ++ [s]) []

def silentSucc (cfg : Cfg) (s : St) : List St :=
  next cfg s .tau ++ s.runnable.flatMap (fun n => next cfg s (.skip n))

/-- closure under silent steps (`tau`, `skip`), bounded by fuel -/
def closureSt (cfg : Cfg) : Nat → List St → List St → List St
  | 0, seen, _ => seen
  | fuel+1, seen, frontier =>
    match frontier with
    | [] => seen
    | _ =>
      let new := dedupSt ((frontier.flatMap (silentSucc cfg)).filter (fun s => !seen.contains s))
      closureSt cfg fuel (seen ++ new) new

def closeSt (cfg : Cfg) (ss : List St) : List St :=
  closureSt cfg (64 * cfg.nodes.length + 64) (dedupSt ss) (dedupSt ss)

/-- what the harness observes of the real scheduler -/
inductive Obs where
  | dispatch (n : Option Node) (k : Kind)     -- ticket drawn; `none`: its node never reported entry
  | inline (n : Node)
  | wait (k : Kind) (m : Mode) (D : List Node)
  | ret
  | raise (n : Option Node)                    -- the call raised, attributed to node `n`
  | abort                                      -- the call raised something that is not a node failure

/-- all model states compatible with one more observation (input and output closed under silent steps) -/
def stepObs (cfg : Cfg) (ss : List St) : Obs → List St
  | .dispatch (some n) k => closeSt cfg (ss.flatMap fun s => next cfg s (.dispatch n k))
  | .dispatch none k => closeSt cfg (ss.flatMap fun s => s.runnable.flatMap fun n => next cfg s (.dispatch n k))
  | .inline n =>
    if cfg.fails n then closeSt cfg (ss.flatMap fun s => next cfg s (.inlineFail n))
    else closeSt cfg (ss.flatMap fun s => next cfg s (.inline n))
  | .wait k m D =>
    if (D.filter cfg.fails).isEmpty then closeSt cfg (ss.flatMap fun s => next cfg s (.wait k m D))
    else dedupSt (ss.flatMap fun s => (D.filter cfg.fails).flatMap fun d => next cfg s (.waitFail k m D d))
  | .ret => dedupSt (ss.flatMap fun s => next cfg s .ret)
  | .raise (some n) => ss.filter fun s => s.pc = .err n
  | .raise none => []
  | .abort => ss

def acceptFrom (cfg : Cfg) : List St → List Obs → List St
  | ss, [] => ss
  | ss, o :: rest => acceptFrom cfg (stepObs cfg ss o) rest

def accept (cfg : Cfg) (obs : List Obs) : List St := acceptFrom cfg (closeSt cfg [init cfg]) obs

/-! ### soundness -/

def Label.silent : Label → Bool
  | .tau => true
  | .skip _ => true
  | _ => false

/-- an observation is explained by a (non-silent) label -/
def ObsMatch : Obs → Label → Prop
  | .dispatch (some n) k, .dispatch n' k' => n = n' ∧ k = k'
  | .dispatch none k, .dispatch _ k' => k = k'
  | .inline n, .inline n' => n = n'
  | .inline n, .inlineFail n' => n = n'
  | .wait k m D, .wait k' m' D' => k = k' ∧ m = m' ∧ D = D'
  | .wait k m D, .waitFail k' m' D' _ => k = k' ∧ m = m' ∧ D = D'
  | .ret, .ret => True
  | _, _ => False

/-- `Explains tr obs`: the trace (newest first) consists of silent labels and, in order, one label per
    label-bearing observation (oldest first); `raise` / `abort` observations carry no label -/
inductive Explains : List Label → List Obs → Prop
  | nil : Explains [] []
  | silent {tr obs l} : Explains tr obs → l.silent = true → Explains (l :: tr) obs
  | visible {tr obs l o} : Explains tr obs → ObsMatch o l → Explains (l :: tr) (obs ++ [o])
  | outcome {tr obs o} : Explains tr obs → (o = .abort ∨ ∃ n, o = .raise n) → Explains tr (obs ++ [o])

def Reached (cfg : Cfg) (obs : List Obs) (s : St) : Prop := ∃ tr, Run cfg tr s ∧ Explains tr obs

theorem mem_dedupSt {l : List St} {s : St} (h : s ∈ dedupSt l) : s ∈ l := by
  unfold dedupSt at h
  have : ∀ (l acc : List St), s ∈ l.foldl (fun acc s => if acc.contains s then acc else acc ++ [s]) acc → s ∈ acc ∨ s ∈ l := by
    intro l
    induction l with
    | nil => intro acc h; exact Or.inl h
    | cons a rest ih =>
      intro acc h
      simp only [List.foldl_cons] at h
      rcases ih _ h with h1 | h1
      · split at h1
        · exact Or.inl h1
        · rcases List.mem_append.mp h1 with h2 | h2
          · exact Or.inl h2
          · simp at h2; subst h2; exact Or.inr (by simp)
      · exact Or.inr (by simp [h1])
  rcases this l [] h with h1 | h1
  · simp at h1
  · exact h1

theorem silentSucc_sound {cfg : Cfg} {s s' : St} (h : s' ∈ silentSucc cfg s) :
    ∃ l, l.silent = true ∧ Step cfg s l s' := by
  simp only [silentSucc, List.mem_append, List.mem_flatMap] at h
  rcases h with h | ⟨n, _, h⟩
  · exact ⟨.tau, rfl, next_sound cfg s .tau s' h⟩
  · exact ⟨.skip n, rfl, next_sound cfg s (.skip n) s' h⟩

theorem reached_silent {cfg : Cfg} {obs : List Obs} {s s' : St} (hr : Reached cfg obs s)
    (h : s' ∈ silentSucc cfg s) : Reached cfg obs s' := by
  obtain ⟨tr, hrun, hex⟩ := hr
  obtain ⟨l, hl, hs⟩ := silentSucc_sound h
  exact ⟨l :: tr, Run.step hrun hs, Explains.silent hex hl⟩

theorem closureSt_sound (cfg : Cfg) (obs : List Obs) : ∀ (fuel : Nat) (seen frontier : List St),
    (∀ s ∈ seen, Reached cfg obs s) → (∀ s ∈ frontier, Reached cfg obs s) →
    ∀ s ∈ closureSt cfg fuel seen frontier, Reached cfg obs s := by
  intro fuel
  induction fuel with
  | zero => intro seen _ hs _ s h; exact hs s h
  | succ f ih =>
    intro seen frontier hs hf s h
    cases frontier with
    | nil => exact hs s h
    | cons a rest =>
      simp only [closureSt] at h
      have hnew : ∀ x ∈ dedupSt (((a :: rest).flatMap (silentSucc cfg)).filter (fun s => !seen.contains s)),
          Reached cfg obs x := by
        intro x hx
        have hx' := mem_dedupSt hx
        obtain ⟨hx1, _⟩ := List.mem_filter.mp hx'
        obtain ⟨y, hy, hxy⟩ := List.mem_flatMap.mp hx1
        exact reached_silent (hf y hy) hxy
      apply ih _ _ _ hnew s h
      intro x hx
      rcases List.mem_append.mp hx with h1 | h1
      · exact hs x h1
      · exact hnew x h1

theorem closeSt_sound (cfg : Cfg) (obs : List Obs) (ss : List St) (h : ∀ s ∈ ss, Reached cfg obs s) :
    ∀ s ∈ closeSt cfg ss, Reached cfg obs s := by
  intro s hs
  have hd : ∀ x ∈ dedupSt ss, Reached cfg obs x := fun x hx => h x (mem_dedupSt hx)
  exact closureSt_sound cfg obs _ _ _ hd hd s hs

theorem reached_visible {cfg : Cfg} {obs : List Obs} {s s' : St} {l : Label} {o : Obs}
    (hr : Reached cfg obs s) (hn : s' ∈ next cfg s l) (hm : ObsMatch o l) : Reached cfg (obs ++ [o]) s' := by
  obtain ⟨tr, hrun, hex⟩ := hr
  exact ⟨l :: tr, Run.step hrun (next_sound cfg s l s' hn), Explains.visible hex hm⟩

theorem stepObs_sound (cfg : Cfg) (obs : List Obs) (ss : List St) (o : Obs)
    (h : ∀ s ∈ ss, Reached cfg obs s) : ∀ s ∈ stepObs cfg ss o, Reached cfg (obs ++ [o]) s := by
  intro s' hs'
  cases o with
  | dispatch on k =>
    cases on with
    | some n =>
      simp only [stepObs] at hs'
      apply closeSt_sound cfg _ _ _ s' hs'
      intro x hx
      obtain ⟨y, hy, hxy⟩ := List.mem_flatMap.mp hx
      exact reached_visible (h y hy) hxy (by simp [ObsMatch])
    | none =>
      simp only [stepObs] at hs'
      apply closeSt_sound cfg _ _ _ s' hs'
      intro x hx
      obtain ⟨y, hy, hxy⟩ := List.mem_flatMap.mp hx
      obtain ⟨n, _, hxn⟩ := List.mem_flatMap.mp hxy
      exact reached_visible (h y hy) hxn (by simp [ObsMatch])
  | inline n =>
    simp only [stepObs] at hs'
    split at hs'
    · apply closeSt_sound cfg _ _ _ s' hs'
      intro x hx
      obtain ⟨y, hy, hxy⟩ := List.mem_flatMap.mp hx
      exact reached_visible (h y hy) hxy (by simp [ObsMatch])
    · apply closeSt_sound cfg _ _ _ s' hs'
      intro x hx
      obtain ⟨y, hy, hxy⟩ := List.mem_flatMap.mp hx
      exact reached_visible (h y hy) hxy (by simp [ObsMatch])
  | wait k m D =>
    simp only [stepObs] at hs'
    split at hs'
    · apply closeSt_sound cfg _ _ _ s' hs'
      intro x hx
      obtain ⟨y, hy, hxy⟩ := List.mem_flatMap.mp hx
      exact reached_visible (h y hy) hxy (by simp [ObsMatch])
    · have hx := mem_dedupSt hs'
      obtain ⟨y, hy, hxy⟩ := List.mem_flatMap.mp hx
      obtain ⟨d, _, hxd⟩ := List.mem_flatMap.mp hxy
      exact reached_visible (h y hy) hxd (by simp [ObsMatch])
  | ret =>
    simp only [stepObs] at hs'
    have hx := mem_dedupSt hs'
    obtain ⟨y, hy, hxy⟩ := List.mem_flatMap.mp hx
    exact reached_visible (h y hy) hxy (by simp [ObsMatch])
  | raise on =>
    cases on with
    | some n =>
      simp only [stepObs] at hs'
      obtain ⟨hmem, _⟩ := List.mem_filter.mp hs'
      obtain ⟨tr, hrun, hex⟩ := h s' hmem
      exact ⟨tr, hrun, Explains.outcome hex (Or.inr ⟨some n, rfl⟩)⟩
    | none => simp [stepObs] at hs'
  | abort =>
    simp only [stepObs] at hs'
    obtain ⟨tr, hrun, hex⟩ := h s' hs'
    exact ⟨tr, hrun, Explains.outcome hex (Or.inl rfl)⟩

theorem acceptFrom_sound (cfg : Cfg) : ∀ (rest : List Obs) (obs : List Obs) (ss : List St),
    (∀ s ∈ ss, Reached cfg obs s) → ∀ s ∈ acceptFrom cfg ss rest, Reached cfg (obs ++ rest) s := by
  intro rest
  induction rest with
  | nil => intro obs ss h s hs; simpa [acceptFrom] using h s hs
  | cons o rest ih =>
    intro obs ss h s hs
    simp only [acceptFrom] at hs
    have := ih (obs ++ [o]) (stepObs cfg ss o) (stepObs_sound cfg obs ss o h) s hs
    simpa [List.append_assoc] using this

/-- **soundness of trace acceptance**: every state the acceptor is left with after the observation
    sequence `obs` is reached by a run of the LTS whose labels are explained by exactly `obs`; and if the
    last observation is `raise n`, that run ended in `err n` -/
theorem accept_sound (cfg : Cfg) (obs : List Obs) (s : St) (h : s ∈ accept cfg obs) :
    ∃ tr, Run cfg tr s ∧ Explains tr obs := by
  have h0 : ∀ x ∈ closeSt cfg [init cfg], Reached cfg [] x := by
    apply closeSt_sound
    intro x hx
    simp at hx; subst hx
    exact ⟨[], Run.init, Explains.nil⟩
  have := acceptFrom_sound cfg obs [] _ h0 s h
  simpa [Reached] using this

theorem accept_raise_err (cfg : Cfg) (obs : List Obs) (n : Node) (s : St)
    (h : s ∈ accept cfg (obs ++ [.raise (some n)])) : s.pc = .err n := by
  unfold accept at h
  have : ∀ (rest : List Obs) (ss : List St), s ∈ acceptFrom cfg ss (rest ++ [.raise (some n)]) → s.pc = .err n := by
    intro rest
    induction rest with
    | nil =>
      intro ss h
      simp only [List.nil_append, acceptFrom, stepObs] at h
      have := (List.mem_filter.mp h).2
      simpa using this
    | cons o rest ih => intro ss h; exact ih _ (by simpa [acceptFrom] using h)
  exact this obs _ h

end TM
