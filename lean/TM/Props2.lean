import TM.Props
/-! Prototype: C04 (bound), C05 (sequential exclusivity), C14 (failure containment), C08 (blocking condition). -/
namespace TM

theorem length_filter_ne_le (l : List Node) (r : Node) : (l.filter (· != r)).length ≤ l.length :=
  List.length_filter_le _ _

theorem conc_finishAll_le (cfg : Cfg) (D : List Node) : ∀ s : St,
    (finishAll cfg s D).conc.length ≤ s.conc.length ∧ (finishAll cfg s D).asyn.length ≤ s.asyn.length := by
  induction D with
  | nil => intro s; exact ⟨Nat.le_refl _, Nat.le_refl _⟩
  | cons d D ih =>
    intro s
    simp only [finishAll, List.foldl_cons] at *
    have := ih (finish cfg s d)
    have h1 : (finish cfg s d).conc.length ≤ s.conc.length := length_filter_ne_le _ _
    have h2 : (finish cfg s d).asyn.length ≤ s.asyn.length := length_filter_ne_le _ _
    exact ⟨Nat.le_trans this.1 h1, Nat.le_trans this.2 h2⟩

theorem mem_conc_finishAll (cfg : Cfg) (D : List Node) : ∀ (s : St) (x : Node),
    x ∈ (finishAll cfg s D).conc ↔ x ∈ s.conc ∧ x ∉ D := by
  induction D with
  | nil => intro s x; simp [finishAll]
  | cons d D ih =>
    intro s x
    simp only [finishAll, List.foldl_cons] at *
    rw [ih]; simp [finish]; grind

theorem mem_asyn_finishAll (cfg : Cfg) (D : List Node) : ∀ (s : St) (x : Node),
    x ∈ (finishAll cfg s D).asyn ↔ x ∈ s.asyn ∧ x ∉ D := by
  induction D with
  | nil => intro s x; simp [finishAll]
  | cons d D ih =>
    intro s x
    simp only [finishAll, List.foldl_cons] at *
    rw [ih]; simp [finish]; grind

/-- finishing a non-empty `D ⊆ asyn` strictly shrinks `asyn` -/
theorem asyn_finishAll_lt (cfg : Cfg) (s : St) (D : List Node) (hne : D ≠ []) (hsub : ∀ d ∈ D, d ∈ s.asyn) :
    (finishAll cfg s D).asyn.length < s.asyn.length := by
  obtain ⟨d, hd⟩ := List.exists_mem_of_ne_nil D hne
  -- the result is a sublist of asyn missing d
  have hsubl : ∀ (D : List Node) (s : St), List.Sublist (finishAll cfg s D).asyn s.asyn := by
    intro D; induction D with
    | nil => intro s; exact List.Sublist.refl _
    | cons e D ih =>
      intro s; simp only [finishAll, List.foldl_cons] at *
      exact (ih (finish cfg s e)).trans List.filter_sublist
  have hlen := (hsubl D s).length_le
  rcases Nat.lt_or_eq_of_le hlen with h | h
  · exact h
  · have heq := (hsubl D s).eq_of_length h
    have : d ∈ (finishAll cfg s D).asyn := heq ▸ hsub d hd
    exact absurd hd ((mem_asyn_finishAll cfg D s d).1 this).2

theorem conc_finishAll_lt (cfg : Cfg) (s : St) (D : List Node) (hne : D ≠ []) (hsub : ∀ d ∈ D, d ∈ s.conc) :
    (finishAll cfg s D).conc.length < s.conc.length := by
  obtain ⟨d, hd⟩ := List.exists_mem_of_ne_nil D hne
  have hsubl : ∀ (D : List Node) (s : St), List.Sublist (finishAll cfg s D).conc s.conc := by
    intro D; induction D with
    | nil => intro s; exact List.Sublist.refl _
    | cons e D ih =>
      intro s; simp only [finishAll, List.foldl_cons] at *
      exact (ih (finish cfg s e)).trans List.filter_sublist
  have hlen := (hsubl D s).length_le
  rcases Nat.lt_or_eq_of_le hlen with h | h
  · exact h
  · have heq := (hsubl D s).eq_of_length h
    have : d ∈ (finishAll cfg s D).conc := heq ▸ hsub d hd
    exact absurd hd ((mem_conc_finishAll cfg D s d).1 this).2

/-! ### C04 -/
structure BInv (cfg : Cfg) (s : St) : Prop where
  le   : s.inflight ≤ cfg.maxc
  pick : s.pc = .pick → s.inflight < cfg.maxc
  w2   : s.pc = .w2 → (s.inflight < cfg.maxc ∨ s.conc ≠ [])

theorem inflight_finish_take (cfg : Cfg) (s : St) (n : Node) :
    (finish cfg { s with runnable := s.runnable.filter (· != n) } n).inflight ≤ s.inflight := by
  simp only [St.inflight, finish]
  have h1 := length_filter_ne_le s.conc n
  have h2 := length_filter_ne_le s.asyn n
  omega

theorem binv_step (cfg : Cfg) (hm : 0 < cfg.maxc) {s l s'} (hi : BInv cfg s) (hs : Step cfg s l s') :
    BInv cfg s' := by
  obtain ⟨hle, hpick, hw2⟩ := hi
  cases hs with
  | top_done h1 _ => exact ⟨hle, by simp, by simp⟩
  | top_block h1 _ _ => exact ⟨hle, by simp, by simp⟩
  | top_pick h1 _ h3 =>
    refine ⟨hle, fun _ => ?_, by simp⟩
    have : s.inflight ≠ cfg.maxc := fun h => h3 (Or.inl h)
    show s.inflight < cfg.maxc; omega
  | wa_skip hw h1 h2 =>
    refine ⟨hle, fun h => (by cases hw <;> cases h), fun h => ?_⟩
    show s.inflight < cfg.maxc ∨ s.conc ≠ []
    by_cases hc : s.conc = []
    · left; simp [St.inflight, h2, hc]; exact hm
    · right; exact hc
  | wa_ok D hw h1 hne hnd hsub _ _ =>
    have hlt := asyn_finishAll_lt cfg s D hne hsub
    have hc := (conc_finishAll_le cfg D s).1
    have key : (finishAll cfg s D).inflight < cfg.maxc := by simp only [St.inflight] at *; omega
    exact ⟨Nat.le_of_lt key, fun _ => key, fun _ => Or.inl key⟩
  | wa_err D d hw _ _ _ _ _ _ _ => exact ⟨hle, by simp, by simp⟩
  | wc_skip hw h1 h2 =>
    refine ⟨hle, fun h => ?_, fun h => (by cases hw <;> cases h)⟩
    cases hw <;> first | cases h | skip
    rcases hw2 h1 with h | h
    · exact h
    · exact absurd h2 h
  | wc_ok D hw h1 hne hnd hsub _ _ =>
    have hlt := conc_finishAll_lt cfg s D hne hsub
    have hc := (conc_finishAll_le cfg D s).2
    have key : (finishAll cfg s D).inflight < cfg.maxc := by simp only [St.inflight] at *; omega
    exact ⟨Nat.le_of_lt key, fun _ => key, fun _ => Or.inl key⟩
  | wc_err D d hw _ _ _ _ _ _ _ => exact ⟨hle, by simp, by simp⟩
  | pick_none h1 _ => exact ⟨hle, by simp, by simp⟩
  | pick_seqwait n h1 _ _ _ => exact ⟨hle, by simp, by simp⟩
  | pick_skip n h1 _ _ _ =>
    exact ⟨Nat.le_trans (inflight_finish_take cfg s n) hle, by simp, by simp⟩
  | pick_thread n h1 _ _ _ _ =>
    have := hpick h1
    refine ⟨by simp only [St.inflight, List.length_cons] at *; omega, ?_, ?_⟩ <;>
      (intro h; simp only [afterDispatch] at h; split at h <;> cases h)
  | pick_async n h1 _ _ _ _ =>
    have := hpick h1
    refine ⟨by simp only [St.inflight, List.length_cons] at *; omega, ?_, ?_⟩ <;>
      (intro h; simp only [afterDispatch] at h; split at h <;> cases h)
  | pick_main_ok n h1 _ _ _ _ _ =>
    refine ⟨Nat.le_trans (inflight_finish_take cfg s n) hle, ?_, ?_⟩ <;>
      (intro h; simp only [afterDispatch] at h; split at h <;> cases h)
  | pick_main_err n h1 _ _ _ _ _ => exact ⟨hle, by simp, by simp⟩

/-- **C04** (model level): never more than `max_concurrency` pooled nodes in flight. -/
theorem C04_inflight_le_maxc (cfg : Cfg) (hm : 0 < cfg.maxc) {tr s} (hr : Run cfg tr s) :
    s.conc.length + s.asyn.length ≤ cfg.maxc := by
  have : BInv cfg s := by
    induction hr with
    | init => exact ⟨by simp [init, St.inflight], by simp [init], by simp [init]⟩
    | step _ hs ih => exact binv_step cfg hm ih hs
  exact this.le

end TM
