import TM.Next
/-! Completeness of the acceptor's successor function: every step of the relation is offered by `next`.
    Together with `next_sound`: `s' ∈ next cfg s l ↔ Step cfg s l s'` — the executable definition the
    correspondence check runs *is* the relation the property theorems quantify over (no missed step can
    cause a false rejection of a real trace, no extra step a false acceptance). -/
namespace TM

theorem okSet_complete {fl D : List Node} {m : Mode} (h1 : D ≠ []) (h2 : D.Nodup) (h3 : ∀ d ∈ D, d ∈ fl)
    (h4 : m = .all → ∀ d ∈ fl, d ∈ D) : okSet fl D m = true := by
  simp only [okSet, Bool.and_eq_true, Bool.not_eq_true', List.isEmpty_eq_false_iff, decide_eq_true_eq,
    List.all_eq_true, List.contains_eq_mem, Bool.or_eq_true, bne_iff_ne, ne_eq]
  refine ⟨⟨⟨h1, h2⟩, h3⟩, ?_⟩
  cases m with
  | first => left; intro h; cases h
  | all => right; exact h4 rfl

theorem siteA_complete {p1 p2 p3 m} (h : WaitSite p1 p2 p3 m) : siteA p1 = some (p2, p3, m) := by
  cases h <;> rfl

theorem siteC_complete {p1 p2 p3 m} (h : WaitSite p1 p2 p3 m) : siteC p2 = some (p1, p3, m) := by
  cases h <;> rfl

theorem siteA_of_siteC_none {p1 p2 p3 m} (h : WaitSite p1 p2 p3 m) : siteC p1 = none := by
  cases h <;> rfl

theorem siteC_of_siteA_none {p1 p2 p3 m} (h : WaitSite p1 p2 p3 m) : siteA p2 = none := by
  cases h <;> rfl

theorem next_complete (cfg : Cfg) (s : St) (l : Label) (s' : St) (h : Step cfg s l s') : s' ∈ next cfg s l := by
  cases h with
  | top_done h1 h2 => simp [next, h1, h2]
  | top_block h1 h2 h3 =>
    simp only [next, List.mem_append]
    left; left; left; left; left
    simp [h1, h2, h3]
  | top_pick h1 h2 h3 =>
    simp only [next, List.mem_append]
    left; left; left; left; right
    simp [h1, h2, h3]
  | wa_skip hw h1 h2 =>
    simp only [next, List.mem_append]
    left; left; left; right
    rw [h1, siteA_complete hw]; simp [h2]
  | wc_skip hw h1 h2 =>
    simp only [next, List.mem_append]
    left; left; right
    rw [h1, siteC_complete hw]; simp [h2]
  | pick_none h1 h2 =>
    simp only [next, List.mem_append]
    left; right
    simp [h1, h2]
  | pick_seqwait n h1 h2 h3 h4 =>
    simp only [next, List.mem_append]
    right
    simp only [h1, if_true, List.mem_map, List.mem_filter, Bool.and_eq_true, bne_iff_ne, ne_eq]
    exact ⟨n, ⟨mem_bests.2 h2, h3, h4⟩, trivial⟩
  | wa_ok D hw h1 h2 h3 h4 h5 h6 =>
    simp only [next]
    rw [h1, siteA_complete hw]
    have hok := okSet_complete h2 h3 h4 h5
    have hf : D.all (fun d => !cfg.fails d) = true := by
      simp only [List.all_eq_true, Bool.not_eq_true']; exact h6
    simp [hok, hf]
  | wc_ok D hw h1 h2 h3 h4 h5 h6 =>
    simp only [next]
    rw [h1, siteC_complete hw]
    have hok := okSet_complete h2 h3 h4 h5
    have hf : D.all (fun d => !cfg.fails d) = true := by
      simp only [List.all_eq_true, Bool.not_eq_true']; exact h6
    simp [hok, hf]
  | wa_err D d hw h1 h2 h3 h4 h5 h6 h7 =>
    simp only [next]
    rw [h1, siteA_complete hw]
    have hok := okSet_complete h2 h3 h4 h5
    simp [hok, h6, h7]
  | wc_err D d hw h1 h2 h3 h4 h5 h6 h7 =>
    simp only [next]
    rw [h1, siteC_complete hw]
    have hok := okSet_complete h2 h3 h4 h5
    simp [hok, h6, h7]
  | pick_skip n h1 h2 h3 h4 =>
    simp only [next]
    simp [h1, mem_bests.2 h2, canGo_iff.2 h3, h4]
  | pick_thread n h1 h2 h3 h4 h5 =>
    simp only [next]
    simp [h1, mem_bests.2 h2, canGo_iff.2 h3, h4, h5]
  | pick_async n h1 h2 h3 h4 h5 =>
    simp only [next]
    simp [h1, mem_bests.2 h2, canGo_iff.2 h3, h4, h5]
  | pick_main_ok n h1 h2 h3 h4 h5 h6 =>
    simp only [next]
    simp [h1, mem_bests.2 h2, canGo_iff.2 h3, h4, h5, h6]
  | pick_main_err n h1 h2 h3 h4 h5 h6 =>
    simp only [next]
    simp [h1, mem_bests.2 h2, canGo_iff.2 h3, h4, h5, h6]

/-- the executable successor function and the relation coincide -/
theorem next_iff_step (cfg : Cfg) (s : St) (l : Label) (s' : St) : s' ∈ next cfg s l ↔ Step cfg s l s' :=
  ⟨next_sound cfg s l s', next_complete cfg s l s'⟩

end TM
