import TM.Inv
/-! Trace-level invariants and the scheduler property theorems (prototype). -/
namespace TM

def Label.start : Label → Option Node
  | .dispatch n _ => some n
  | .inline n => some n
  | .inlineFail n => some n
  | _ => none

def Label.fin : Label → List Node
  | .wait _ _ D => D
  | .inline n => [n]
  | _ => []

def Label.skipped : Label → Option Node
  | .skip n => some n
  | _ => none

def starts (tr : List Label) : List Node := tr.filterMap Label.start
def fins (tr : List Label) : List Node := tr.flatMap Label.fin
def skips (tr : List Label) : List Node := tr.filterMap Label.skipped

@[simp] theorem starts_cons (l : Label) (tr) : starts (l :: tr) = (match l.start with | some n => [n] | none => []) ++ starts tr := by
  simp [starts, List.filterMap_cons]; cases l.start <;> simp
@[simp] theorem fins_cons (l : Label) (tr) : fins (l :: tr) = l.fin ++ fins tr := by simp [fins]
@[simp] theorem skips_cons (l : Label) (tr) : skips (l :: tr) = (match l.skipped with | some n => [n] | none => []) ++ skips tr := by
  simp [skips, List.filterMap_cons]; cases l.skipped <;> simp

/-! ### graph / flight of `finish` and `finishAll` -/

theorem mem_graph_finishAll (cfg : Cfg) (D : List Node) : ∀ (s : St) (x : Node),
    x ∈ (finishAll cfg s D).graph ↔ x ∈ s.graph ∧ x ∉ D := by
  induction D with
  | nil => intro s x; simp [finishAll]
  | cons d D ih =>
    intro s x
    simp only [finishAll, List.foldl_cons] at *
    rw [ih]
    simp [finish]
    grind

theorem mem_flight_finishAll (cfg : Cfg) (D : List Node) : ∀ (s : St) (x : Node),
    x ∈ (finishAll cfg s D).flight ↔ x ∈ s.flight ∧ x ∉ D := by
  induction D with
  | nil => intro s x; simp [finishAll]
  | cons d D ih =>
    intro s x
    simp only [finishAll, List.foldl_cons] at *
    rw [ih, flight_finish]
    simp
    grind

theorem pc_finishAll (cfg : Cfg) (D : List Node) : ∀ (s : St), (finishAll cfg s D).pc = s.pc := by
  induction D with
  | nil => intro s; rfl
  | cons d D ih => intro s; simp only [finishAll, List.foldl_cons] at *; rw [ih]; rfl

/-! ### the trace invariant -/

structure TInv (cfg : Cfg) (tr : List Label) (s : St) : Prop where
  inv     : Inv cfg s
  gone    : ∀ n, (n ∈ fins tr ∨ n ∈ skips tr) ↔ (n ∈ cfg.nodes ∧ n ∉ s.graph)
  snodup  : (starts tr).Nodup
  knodup  : (skips tr).Nodup
  started : ∀ n ∈ starts tr, n ∈ fins tr ∨ n ∈ s.flight ∨ s.pc = .err n
  flstart : ∀ n ∈ s.flight, n ∈ starts tr
  finstart: ∀ n ∈ fins tr, n ∈ starts tr
  sact    : ∀ n ∈ starts tr, cfg.active n = true
  kact    : ∀ n ∈ skips tr, cfg.active n = false
  ssel    : ∀ n ∈ starts tr, n ∈ cfg.nodes

theorem flight_sub_graph {cfg : Cfg} {s : St} (h : Inv cfg s) : ∀ n ∈ s.flight, n ∈ s.graph :=
  fun n hn => (h.froot n hn).1

theorem runnable_sub_graph {cfg : Cfg} {s : St} (h : Inv cfg s) : ∀ n ∈ s.runnable, n ∈ s.graph :=
  fun n hn => (h.rroot n hn).1

/-- Setting only `pc` (to a non-error pc) keeps `TInv` for the same trace extended by a label
    that starts, finishes and skips nothing. -/
theorem TInv.silent {cfg : Cfg} {tr s} (h : TInv cfg tr s) (l : Label) (pc : Pc)
    (h1 : l.start = none) (h2 : l.fin = []) (h3 : l.skipped = none)
    (hpc : ∀ n, s.pc = .err n → pc = .err n) :
    TInv cfg (l :: tr) { s with pc := pc } := by
  obtain ⟨inv, gone, sn, kn, st, fl, fs, sa, ka, sl⟩ := h
  refine ⟨inv.setPc _, ?_, ?_, ?_, ?_, ?_, ?_, ?_, ?_, ?_⟩
  · intro n; simpa [h1, h2, h3] using gone n
  · simpa [h1] using sn
  · simpa [h3] using kn
  · intro n hn
    have hn' : n ∈ starts tr := by simpa [h1] using hn
    rcases st n hn' with h | h | h
    · left; simpa [h2] using h
    · right; left; exact h
    · right; right; exact hpc n h
  · intro n hn; have := fl n hn; simpa [h1] using this
  · intro n hn
    have hn' : n ∈ fins tr := by simpa [h2] using hn
    simpa [h1] using fs n hn'
  · intro n hn; exact sa n (by simpa [h1] using hn)
  · intro n hn; exact ka n (by simpa [h3] using hn)
  · intro n hn; exact sl n (by simpa [h1] using hn)

end TM
