import TM.Term
import TM.Seq2
/-! Prototype: lifting the abstract rank to a termination measure on concrete states (C09). -/
namespace TM

/-- pigeonhole for duplicate-free lists -/
theorem nodup_subset_length : ∀ (l1 l2 : List Node), l1.Nodup → (∀ x ∈ l1, x ∈ l2) → l1.length ≤ l2.length := by
  intro l1
  induction l1 with
  | nil => intro l2 _ _; simp
  | cons a l1 ih =>
    intro l2 hnd hsub
    have ha : a ∈ l2 := hsub a (by simp)
    have hnd' := List.nodup_cons.mp hnd
    have : l1.length ≤ (l2.erase a).length := by
      apply ih (l2.erase a) hnd'.2
      intro x hx
      have hxa : x ≠ a := fun h => hnd'.1 (h ▸ hx)
      exact (List.mem_erase_of_ne hxa).2 (hsub x (by simp [hx]))
    rw [List.length_erase_of_mem ha] at this
    have hpos : 0 < l2.length := List.length_pos_of_mem ha
    simp only [List.length_cons]; omega

theorem inflight_le_graph {cfg : Cfg} {s : St} (h : Inv cfg s) : s.inflight ≤ s.graph.length := by
  have := nodup_subset_length s.flight s.graph h.fnodup (flight_sub_graph h)
  simpa [St.flight, St.inflight] using this

def mu (s : St) : Nat := 2 * s.graph.length - s.inflight

theorem length_filter_ne (l : List Node) (a : Node) (hnd : l.Nodup) (ha : a ∈ l) :
    (l.filter (· != a)).length + 1 = l.length := by
  induction l with
  | nil => simp at ha
  | cons b l ih =>
    have hnd' := List.nodup_cons.mp hnd
    by_cases hba : b = a
    · subst hba
      have : l.filter (· != b) = l := by
        apply List.filter_eq_self.mpr
        intro x hx; simp; intro h; exact hnd'.1 (h ▸ hx)
      simp [List.filter_cons, this]
    · have hal : a ∈ l := by simp at ha; rcases ha with h | h; exact absurd h.symm hba; exact h
      have := ih hnd'.2 hal
      simp [List.filter_cons, hba, this]

theorem length_filter_ne_notin (l : List Node) (a : Node) (ha : a ∉ l) : (l.filter (· != a)) = l := by
  apply List.filter_eq_self.mpr
  intro x hx; simp; intro h; exact ha (h ▸ hx)

/-- finishing one in-flight node lowers `mu` by exactly one -/
theorem mu_finish_flight {cfg : Cfg} {s : St} (h : Inv cfg s) {d : Node} (hd : d ∈ s.flight) :
    mu (finish cfg s d) + 1 = mu s := by
  have hg := length_filter_ne s.graph d h.gnodup (flight_sub_graph h d hd)
  have hle := inflight_le_graph h
  have hfl : (finish cfg s d).inflight + 1 = s.inflight := by
    have hnd := h.fnodup
    simp only [St.flight] at hnd hd
    rw [List.nodup_append] at hnd
    rcases List.mem_append.mp hd with hc | ha
    · have hna : d ∉ s.asyn := fun hh => hnd.2.2 d hc d hh rfl
      have h1 := length_filter_ne s.conc d hnd.1 hc
      have h2 := length_filter_ne_notin s.asyn d hna
      simp only [St.inflight, finish, h2]; omega
    · have hnc : d ∉ s.conc := fun hh => hnd.2.2 d hh d ha rfl
      have h1 := length_filter_ne s.asyn d hnd.2.1 ha
      have h2 := length_filter_ne_notin s.conc d hnc
      simp only [St.inflight, finish, h2]; omega
  have : (finish cfg s d).graph.length + 1 = s.graph.length := hg
  simp only [mu]; omega

theorem mu_finishAll {cfg : Cfg} : ∀ (D : List Node) (s : St), Inv cfg s → D.Nodup → (∀ d ∈ D, d ∈ s.flight) →
    mu (finishAll cfg s D) + D.length = mu s := by
  intro D
  induction D with
  | nil => intro s _ _ _; simp [finishAll]
  | cons d D ih =>
    intro s hi hnd hsub
    have hd : d ∈ s.flight := hsub d (by simp)
    have h1 := inv_finish cfg s d hi (hi.froot d hd) (fun h => hi.disj d h hd)
    have hnd' := List.nodup_cons.mp hnd
    have hsub' : ∀ e ∈ D, e ∈ (finish cfg s d).flight := by
      intro e he
      rw [mem_flight_finish]
      exact ⟨hsub e (by simp [he]), fun h => hnd'.1 (h ▸ he)⟩
    have := ih (finish cfg s d) h1 hnd'.2 hsub'
    have h2 := mu_finish_flight hi hd
    simp only [finishAll, List.foldl_cons, List.length_cons] at *
    omega

/-- taking a runnable node out and finishing it (skip / inline) lowers `mu` by two -/
theorem mu_take {cfg : Cfg} {s : St} (h : Inv cfg s) {n : Node} (hn : n ∈ s.runnable) :
    mu (finish cfg { s with runnable := s.runnable.filter (· != n) } n) + 2 = mu s := by
  have hg := length_filter_ne s.graph n h.gnodup (runnable_sub_graph h n hn)
  have hnf := h.disj n hn
  have hc : n ∉ s.conc := fun hh => hnf (List.mem_append_left _ hh)
  have ha : n ∉ s.asyn := fun hh => hnf (List.mem_append_right _ hh)
  have hle := inflight_le_graph h
  have hpos : 0 < s.graph.length := List.length_pos_of_mem (runnable_sub_graph h n hn)
  simp only [mu, finish, St.inflight, length_filter_ne_notin s.conc n hc, length_filter_ne_notin s.asyn n ha] at *
  have : (s.graph.filter (· != n)).length + 1 = s.graph.length := hg
  -- inflight ≤ |graph| - 1 because n ∈ graph is not in flight
  have hlt : s.conc.length + s.asyn.length < s.graph.length := by
    have := nodup_subset_length (n :: s.flight) s.graph
      (List.nodup_cons.mpr ⟨hnf, h.fnodup⟩)
      (by intro x hx; rcases List.mem_cons.mp hx with rfl | hx; exact runnable_sub_graph h x hn; exact flight_sub_graph h x hx)
    simp [St.flight] at this; omega
  omega

end TM
