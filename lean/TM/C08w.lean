import TM.Seq2
/-! Prototype: the C08 blocking condition and the mixed-resource witness of its failure. -/
namespace TM

def BlockOK (cfg : Cfg) (s : St) : Prop :=
  s.inflight = cfg.maxc ∨ s.runnable = [] ∨ (∃ m ∈ s.flight, cfg.seq m = true) ∨
  (∃ b, Best cfg s b ∧ cfg.seq b = true)

/-- three independent nodes: 0 async-thread, 1 and 2 thread; priorities 2,1,0; max_concurrency 2 -/
def wcfg : Cfg :=
  { nodes := [0, 1, 2], preds := fun _ => [], cp := fun n => 2 - (n : Int), seq := fun _ => false,
    res := fun n => if n = 0 then .async else .thread, active := fun _ => true, fails := fun _ => false,
    maxc := 2 }

def w0 : St := init wcfg
def w1 : St := { w0 with pc := .pick }
def w2 : St := { graph := [0,1,2], runnable := [1,2], conc := [], asyn := [0], pc := .top }
def w3 : St := { w2 with pc := .pick }
def w4 : St := { graph := [0,1,2], runnable := [2], conc := [1], asyn := [0], pc := .top }
def w5 : St := { w4 with pc := .w1 }
def w6 : St := { graph := [1,2], runnable := [2], conc := [1], asyn := [], pc := .w2 }

theorem w_run : Run wcfg
    [.wait .asyn .first [0], .tau, .dispatch 1 .conc, .tau, .dispatch 0 .asyn, .tau] w6 := by
  have r0 : Run wcfg [] w0 := Run.init
  have r1 : Run wcfg [.tau] w1 := Run.step r0 (Step.top_pick rfl (by decide) (by decide))
  have r2 : Run wcfg [.dispatch 0 .asyn, .tau] w2 :=
    Run.step r1 (Step.pick_async 0 rfl ⟨by decide, by decide⟩ (by simp [CanGo, wcfg]) rfl rfl)
  have r3 : Run wcfg [.tau, .dispatch 0 .asyn, .tau] w3 :=
    Run.step r2 (Step.top_pick rfl (by decide) (by decide))
  have r4 : Run wcfg [.dispatch 1 .conc, .tau, .dispatch 0 .asyn, .tau] w4 :=
    Run.step r3 (Step.pick_thread 1 rfl ⟨by decide, by decide⟩ (by simp [CanGo, wcfg]) rfl rfl)
  have r5 : Run wcfg [.tau, .dispatch 1 .conc, .tau, .dispatch 0 .asyn, .tau] w5 :=
    Run.step r4 (Step.top_block rfl (by decide) (by decide))
  exact Run.step r5 (Step.wa_ok [0] WaitSite.block rfl (by decide) (by decide) (by decide)
    (by intro h; cases h) (by decide))

/-- from `w6` the scheduler blocks on the thread node 1 … -/
theorem w_blocks : ∃ s', Step wcfg w6 (.wait .conc .first [1]) s' :=
  ⟨_, Step.wc_ok [1] WaitSite.block rfl (by decide) (by decide) (by decide) (by intro h; cases h) (by decide)⟩

/-- … although a slot is free, node 2 is ready and nothing is sequential. -/
theorem C08_mixed_witness : ¬ BlockOK wcfg w6 := by
  unfold BlockOK
  intro h
  rcases h with h | h | ⟨m, _, h⟩ | ⟨b, _, h⟩
  · revert h; decide
  · revert h; decide
  · simp [wcfg] at h
  · simp [wcfg] at h

end TM
