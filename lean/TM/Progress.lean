import TM.Term4
/-! Prototype: the progress half of C09 — a live state always has a successor, and at a wait site
    every admissible completion set is enabled (no deadlock, whatever finishes first). -/
namespace TM

theorem exists_best (cfg : Cfg) (s : St) (h : s.runnable ≠ []) : ∃ n, Best cfg s n := by
  have : ∀ (l : List Node), l ≠ [] → ∃ n ∈ l, ∀ m ∈ l, cfg.cp m ≤ cfg.cp n := by
    intro l
    induction l with
    | nil => intro h; exact absurd rfl h
    | cons a l ih =>
      intro _
      by_cases hl : l = []
      · subst hl; exact ⟨a, by simp, by intro m hm; simp at hm; subst hm; exact Int.le_refl _⟩
      · obtain ⟨n, hn, hmax⟩ := ih hl
        by_cases hc : cfg.cp n ≤ cfg.cp a
        · refine ⟨a, by simp, ?_⟩
          intro m hm; simp at hm; rcases hm with rfl | hm
          · exact Int.le_refl _
          · exact Int.le_trans (hmax m hm) hc
        · refine ⟨n, by simp [hn], ?_⟩
          intro m hm; simp at hm; rcases hm with rfl | hm
          · omega
          · exact hmax m hm
  obtain ⟨n, hn, hmax⟩ := this s.runnable h
  exact ⟨n, hn, hmax⟩

/-- at the async wait of a site, any admissible completion set can be taken -/
theorem wait_async_enabled (cfg : Cfg) {s : St} {p1 p2 p3 m} (hw : WaitSite p1 p2 p3 m) (hpc : s.pc = p1)
    (D : List Node) (hne : D ≠ []) (hnd : D.Nodup) (hsub : ∀ d ∈ D, d ∈ s.asyn)
    (hall : m = .all → ∀ d ∈ s.asyn, d ∈ D) : ∃ l s', Step cfg s l s' := by
  cases hany : D.any (fun d => cfg.fails d) with
  | false =>
    have hf : ∀ d ∈ D, cfg.fails d = false := by
      intro d hd
      cases h : cfg.fails d with
      | false => rfl
      | true => have : D.any (fun d => cfg.fails d) = true := List.any_eq_true.mpr ⟨d, hd, h⟩; rw [hany] at this; cases this
    exact ⟨_, _, Step.wa_ok D hw hpc hne hnd hsub hall hf⟩
  | true =>
    obtain ⟨d, hd, hfd⟩ := List.any_eq_true.mp hany
    exact ⟨_, _, Step.wa_err D d hw hpc hne hnd hsub hall hd hfd⟩

theorem wait_conc_enabled (cfg : Cfg) {s : St} {p1 p2 p3 m} (hw : WaitSite p1 p2 p3 m) (hpc : s.pc = p2)
    (D : List Node) (hne : D ≠ []) (hnd : D.Nodup) (hsub : ∀ d ∈ D, d ∈ s.conc)
    (hall : m = .all → ∀ d ∈ s.conc, d ∈ D) : ∃ l s', Step cfg s l s' := by
  cases hany : D.any (fun d => cfg.fails d) with
  | false =>
    have hf : ∀ d ∈ D, cfg.fails d = false := by
      intro d hd
      cases h : cfg.fails d with
      | false => rfl
      | true => have : D.any (fun d => cfg.fails d) = true := List.any_eq_true.mpr ⟨d, hd, h⟩; rw [hany] at this; cases this
    exact ⟨_, _, Step.wc_ok D hw hpc hne hnd hsub hall hf⟩
  | true =>
    obtain ⟨d, hd, hfd⟩ := List.any_eq_true.mp hany
    exact ⟨_, _, Step.wc_err D d hw hpc hne hnd hsub hall hd hfd⟩

/-- **C09, progress half**: every reachable non-terminal state has a successor. -/
theorem C09_progress (cfg : Cfg) (hnd : cfg.nodes.Nodup) {tr s} (hr : Run cfg tr s) (hlive : s.pc.live = true) :
    ∃ l s', Step cfg s l s' := by
  have hi := (tinv_of_run cfg hnd hr).inv
  have asynND : s.asyn.Nodup := (List.nodup_append.mp hi.fnodup).2.1
  have concND : s.conc.Nodup := (List.nodup_append.mp hi.fnodup).1
  -- generic handling of the two waits of a site
  have siteA : ∀ {p1 p2 p3 m}, WaitSite p1 p2 p3 m → s.pc = p1 → ∃ l s', Step cfg s l s' := by
    intro p1 p2 p3 m hw hpc
    by_cases ha : s.asyn = []
    · exact ⟨_, _, Step.wa_skip hw hpc ha⟩
    · exact wait_async_enabled cfg hw hpc s.asyn ha asynND (fun d hd => hd) (fun _ d hd => hd)
  have siteC : ∀ {p1 p2 p3 m}, WaitSite p1 p2 p3 m → s.pc = p2 → ∃ l s', Step cfg s l s' := by
    intro p1 p2 p3 m hw hpc
    by_cases hc : s.conc = []
    · exact ⟨_, _, Step.wc_skip hw hpc hc⟩
    · exact wait_conc_enabled cfg hw hpc s.conc hc concND (fun d hd => hd) (fun _ d hd => hd)
  cases hpc : s.pc with
  | done => rw [hpc] at hlive; cases hlive
  | err e => rw [hpc] at hlive; cases hlive
  | top =>
    by_cases hg : s.graph = []
    · exact ⟨_, _, Step.top_done hpc hg⟩
    · by_cases hb : s.inflight = cfg.maxc ∨ s.runnable = []
      · exact ⟨_, _, Step.top_block hpc hg hb⟩
      · exact ⟨_, _, Step.top_pick hpc hg hb⟩
  | w1 => exact siteA WaitSite.block hpc
  | w2 => exact siteC WaitSite.block hpc
  | s1 => exact siteA WaitSite.seqw hpc
  | s2 => exact siteC WaitSite.seqw hpc
  | a1 => exact siteA WaitSite.drain hpc
  | a2 => exact siteC WaitSite.drain hpc
  | pick =>
    by_cases hrn : s.runnable = []
    · exact ⟨_, _, Step.pick_none hpc hrn⟩
    · obtain ⟨n, hb⟩ := exists_best cfg s hrn
      by_cases hgo : cfg.seq n = true ∧ s.inflight ≠ 0
      · exact ⟨_, _, Step.pick_seqwait n hpc hb hgo.1 hgo.2⟩
      · cases hact : cfg.active n with
        | false => exact ⟨_, _, Step.pick_skip n hpc hb hgo hact⟩
        | true =>
          cases hres : cfg.res n with
          | thread => exact ⟨_, _, Step.pick_thread n hpc hb hgo hact hres⟩
          | async => exact ⟨_, _, Step.pick_async n hpc hb hgo hact hres⟩
          | main =>
            cases hfl : cfg.fails n with
            | false => exact ⟨_, _, Step.pick_main_ok n hpc hb hgo hact hres hfl⟩
            | true => exact ⟨_, _, Step.pick_main_err n hpc hb hgo hact hres hfl⟩

end TM
