import TM.Term2
/-! Prototype: the termination theorem (C09) for the scheduler LTS. -/
namespace TM

def Acyclic (cfg : Cfg) : Prop := ∃ rk : Node → Nat, ∀ n, ∀ p ∈ cfg.preds n, rk p < rk n

/-- a non-empty remaining graph of an acyclic configuration has a root -/
theorem exists_root (cfg : Cfg) (hac : Acyclic cfg) : ∀ (g : List Node), g ≠ [] → ∃ n, isRoot cfg g n := by
  obtain ⟨rk, hrk⟩ := hac
  intro g hg
  -- take an element of minimal rank
  have hmin : ∃ n ∈ g, ∀ m ∈ g, rk n ≤ rk m := by
    induction g with
    | nil => exact absurd rfl hg
    | cons a g ih =>
      by_cases hg' : g = []
      · subst hg'; exact ⟨a, by simp, by intro m hm; simp at hm; subst hm; exact Nat.le_refl _⟩
      · obtain ⟨n, hn, hle⟩ := ih hg'
        by_cases h : rk a ≤ rk n
        · refine ⟨a, by simp, ?_⟩
          intro m hm; simp at hm; rcases hm with rfl | hm
          · exact Nat.le_refl _
          · exact Nat.le_trans h (hle m hm)
        · refine ⟨n, by simp [hn], ?_⟩
          intro m hm; simp at hm; rcases hm with rfl | hm
          · omega
          · exact hle m hm
  obtain ⟨n, hn, hle⟩ := hmin
  refine ⟨n, hn, ?_⟩
  intro p hp hpg
  have := hrk n p hp
  have := hle p hpg
  omega

theorem abs_ok (cfg : Cfg) (hac : Acyclic cfg) (hm : 0 < cfg.maxc) {s : St} (hi : Inv cfg s) :
    (s.abs cfg).ok = true := by
  simp only [A.ok, St.abs, Bool.and_eq_true, Bool.or_eq_true, Bool.not_eq_true', List.isEmpty_iff,
    decide_eq_true_eq, decide_eq_false_iff_not, Bool.and_eq_false_imp]
  constructor
  · by_cases hg : s.graph = []
    · exact Or.inl (Or.inl (by simp [hg]))
    · obtain ⟨n, hn⟩ := exists_root cfg hac s.graph hg
      rcases hi.compl n hn with h | h
      · left; right; cases hr : s.runnable with
        | nil => rw [hr] at h; simp at h
        | cons _ _ => simp
      · right
        simp only [St.flight, List.mem_append] at h
        rcases h with h | h
        · cases hc : s.conc with
          | nil => rw [hc] at h; simp at h
          | cons _ _ => simp
        · cases ha : s.asyn with
          | nil => rw [ha] at h; simp at h
          | cons _ _ => simp
  · by_cases hf : s.inflight = cfg.maxc
    · right
      simp only [St.inflight] at hf
      cases ha : s.asyn with
      | nil =>
        cases hc : s.conc with
        | nil => rw [ha, hc] at hf; simp at hf; omega
        | cons _ _ => simp
      | cons _ _ => simp
    · left; simp [hf]

def M (cfg : Cfg) (s : St) : Nat := 16 * mu s + rank (s.abs cfg)

theorem abs_withPc (cfg : Cfg) (s : St) (p : Pc) :
    St.abs cfg { s with pc := p } = (s.abs cfg).withPc p.abs := rfl

/-- a no-progress step (same four lists) along an abstract edge lowers the measure -/
theorem M_lt_of_edge (cfg : Cfg) {s : St} (p : Pc) (hok : (s.abs cfg).ok = true)
    (hedge : p.abs ∈ (s.abs cfg).succs) : M cfg { s with pc := p } < M cfg s := by
  have := rank_decreases (s.abs cfg) hok p.abs hedge
  simp only [M, abs_withPc, mu, St.inflight] at *
  omega

/-- a progress step lowers the measure whatever the new pc -/
theorem M_lt_of_mu (cfg : Cfg) {s s' : St} (h : mu s' + 1 ≤ mu s) : M cfg s' < M cfg s := by
  have h1 := rank_le (s'.abs cfg)
  simp only [M]; omega

end TM
