import TM.Trace
namespace TM

theorem mem_graph_finish (cfg : Cfg) (s : St) (r x : Node) :
    x ∈ (finish cfg s r).graph ↔ x ∈ s.graph ∧ x ≠ r := by simp [finish]

theorem mem_flight_finish (cfg : Cfg) (s : St) (r x : Node) :
    x ∈ (finish cfg s r).flight ↔ x ∈ s.flight ∧ x ≠ r := by rw [flight_finish]; simp

theorem not_err_of_site {p1 p2 p3 m} (h : WaitSite p1 p2 p3 m) :
    (∀ n, p1 ≠ .err n) ∧ (∀ n, p2 ≠ .err n) := by
  cases h <;> constructor <;> intro n h <;> cases h

/-- a wait that finishes `D ⊆ flight` -/
theorem TInv.waitOk {cfg : Cfg} {tr s} (h : TInv cfg tr s) (k : Kind) (m : Mode) (D : List Node) (pc : Pc)
    (hnd : D.Nodup) (hsub : ∀ d ∈ D, d ∈ s.flight) (hpc : ∀ n, s.pc ≠ .err n) :
    TInv cfg (.wait k m D :: tr) { finishAll cfg s D with pc := pc } := by
  obtain ⟨inv, gone, sn, kn, st, fl, fs, sa, ka, sl⟩ := h
  have hg := mem_graph_finishAll cfg D s
  have hf := mem_flight_finishAll cfg D s
  refine ⟨(inv_finishAll cfg D s inv hnd hsub).setPc _, ?_, ?_, ?_, ?_, ?_, ?_, ?_, ?_, ?_⟩
  · intro n
    simp only [fins_cons, skips_cons, Label.fin, Label.skipped, List.nil_append, List.mem_append]
    show _ ↔ n ∈ cfg.nodes ∧ n ∉ (finishAll cfg s D).graph
    rw [hg]
    constructor
    · rintro ((h | h) | h)
      · exact ⟨inv.gsub n (flight_sub_graph inv n (hsub n h)), fun hh => hh.2 h⟩
      · have := (gone n).1 (Or.inl h); exact ⟨this.1, fun hh => this.2 hh.1⟩
      · have := (gone n).1 (Or.inr h); exact ⟨this.1, fun hh => this.2 hh.1⟩
    · rintro ⟨hn, hng⟩
      by_cases hD : n ∈ D
      · exact Or.inl (Or.inl hD)
      · have : n ∉ s.graph := fun hh => hng ⟨hh, hD⟩
        rcases (gone n).2 ⟨hn, this⟩ with h | h
        · exact Or.inl (Or.inr h)
        · exact Or.inr h
  · simpa [Label.start] using sn
  · simpa [Label.skipped] using kn
  · intro n hn
    have hn' : n ∈ starts tr := by simpa [Label.start] using hn
    simp only [fins_cons, Label.fin, List.mem_append]
    rcases st n hn' with h | h | h
    · exact Or.inl (Or.inr h)
    · by_cases hD : n ∈ D
      · exact Or.inl (Or.inl hD)
      · right; left; show n ∈ (finishAll cfg s D).flight; exact (hf n).2 ⟨h, hD⟩
    · exact absurd h (hpc n)
  · intro n hn
    have : n ∈ (finishAll cfg s D).flight := hn
    have := fl n ((hf n).1 this).1
    simpa [Label.start] using this
  · intro n hn
    simp only [fins_cons, Label.fin, List.mem_append] at hn
    have : n ∈ starts tr := by
      rcases hn with h | h
      · exact fl n (hsub n h)
      · exact fs n h
    simpa [Label.start] using this
  · intro n hn; exact sa n (by simpa [Label.start] using hn)
  · intro n hn; exact ka n (by simpa [Label.skipped] using hn)
  · intro n hn; exact sl n (by simpa [Label.start] using hn)

/-- the chosen candidate `n ∈ runnable` has not been started, skipped or finished yet -/
theorem fresh_of_runnable {cfg : Cfg} {tr s} (h : TInv cfg tr s) {n : Node} (hn : n ∈ s.runnable)
    (hpc : ∀ e, s.pc ≠ .err e) :
    n ∉ starts tr ∧ n ∉ skips tr ∧ n ∉ fins tr := by
  have hg := runnable_sub_graph h.inv n hn
  have hnf := h.inv.disj n hn
  have h1 : n ∉ fins tr := fun hh => ((h.gone n).1 (Or.inl hh)).2 hg
  have h2 : n ∉ skips tr := fun hh => ((h.gone n).1 (Or.inr hh)).2 hg
  refine ⟨?_, h2, h1⟩
  intro hs
  rcases h.started n hs with hh | hh | hh
  · exact h1 hh
  · exact hnf hh
  · exact hpc n hh

end TM
