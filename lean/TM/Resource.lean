import TM.Inv
/-! C04, second clause: the resource of a node decides where it runs.  A node is submitted to the thread
    pool only if its resource is `thread`, wrapped as an asyncio future only if it is `async`, and run
    inline on the invoking thread exactly if it is `main`; what is in flight in either set has that
    set's resource. -/
namespace TM

/-- the kind of execution a label gives a node -/
def Label.place : Label → Option (Node × Res)
  | .dispatch n .conc => some (n, .thread)
  | .dispatch n .asyn => some (n, .async)
  | .inline n => some (n, .main)
  | .inlineFail n => some (n, .main)
  | _ => none

/-- every start places the node where its resource says -/
theorem step_place (cfg : Cfg) {s l s'} (hs : Step cfg s l s') {n r} (hl : l.place = some (n, r)) :
    cfg.res n = r := by
  cases hs <;> simp [Label.place] at hl
  all_goals (obtain ⟨rfl, rfl⟩ := hl; assumption)

theorem mem_of_mem_filter_ne {l : List Node} {r x : Node} (h : x ∈ l.filter (· != r)) : x ∈ l :=
  (List.mem_filter.mp h).1

theorem finish_conc_sub (cfg : Cfg) (s : St) (r : Node) : ∀ x ∈ (finish cfg s r).conc, x ∈ s.conc :=
  fun _ h => mem_of_mem_filter_ne h

theorem finish_asyn_sub (cfg : Cfg) (s : St) (r : Node) : ∀ x ∈ (finish cfg s r).asyn, x ∈ s.asyn :=
  fun _ h => mem_of_mem_filter_ne h

theorem finishAll_sub (cfg : Cfg) : ∀ (D : List Node) (s : St),
    (∀ x ∈ (finishAll cfg s D).conc, x ∈ s.conc) ∧ (∀ x ∈ (finishAll cfg s D).asyn, x ∈ s.asyn) := by
  intro D
  induction D with
  | nil => intro s; exact ⟨fun _ h => h, fun _ h => h⟩
  | cons d rest ih =>
    intro s
    obtain ⟨h1, h2⟩ := ih (finish cfg s d)
    exact ⟨fun x hx => finish_conc_sub cfg s d x (h1 x hx), fun x hx => finish_asyn_sub cfg s d x (h2 x hx)⟩

/-- what is in flight sits where its resource says -/
def PlacedOK (cfg : Cfg) (s : St) : Prop :=
  (∀ x ∈ s.conc, cfg.res x = .thread) ∧ (∀ x ∈ s.asyn, cfg.res x = .async)

theorem placed_step (cfg : Cfg) {s l s'} (hp : PlacedOK cfg s) (hs : Step cfg s l s') : PlacedOK cfg s' := by
  obtain ⟨hc, ha⟩ := hp
  cases hs
  case wa_ok D _ _ _ _ _ _ _ =>
    obtain ⟨h1, h2⟩ := finishAll_sub cfg D s
    exact ⟨fun x hx => hc x (h1 x hx), fun x hx => ha x (h2 x hx)⟩
  case wc_ok D _ _ _ _ _ _ _ =>
    obtain ⟨h1, h2⟩ := finishAll_sub cfg D s
    exact ⟨fun x hx => hc x (h1 x hx), fun x hx => ha x (h2 x hx)⟩
  case pick_skip n _ _ _ _ =>
    exact ⟨fun x hx => hc x (mem_of_mem_filter_ne hx), fun x hx => ha x (mem_of_mem_filter_ne hx)⟩
  case pick_main_ok n _ _ _ _ _ _ =>
    exact ⟨fun x hx => hc x (mem_of_mem_filter_ne hx), fun x hx => ha x (mem_of_mem_filter_ne hx)⟩
  case pick_thread n _ _ _ _ hres =>
    refine ⟨fun x hx => ?_, ha⟩
    rcases List.mem_cons.mp hx with rfl | h
    · exact hres
    · exact hc x h
  case pick_async n _ _ _ _ hres =>
    refine ⟨hc, fun x hx => ?_⟩
    rcases List.mem_cons.mp hx with rfl | h
    · exact hres
    · exact ha x h
  all_goals exact ⟨hc, ha⟩

/-- C04 (resources): in every reachable state the thread-pool set holds only `thread` nodes and the
    asyncio set only `async` nodes; `main` nodes are never in flight (they run inline, `step_place`). -/
theorem C04_placed (cfg : Cfg) {tr s} (hr : Run cfg tr s) : PlacedOK cfg s := by
  induction hr with
  | init => exact ⟨fun x hx => by simp [init] at hx, fun x hx => by simp [init] at hx⟩
  | step _ hs ih => exact placed_step cfg ih hs

/-- C04 (resources), over whole runs: every start recorded in the trace happened where the node's
    resource says (pool thread / asyncio-wrapped pool thread / inline on the invoking thread). -/
theorem C04_resource_decides (cfg : Cfg) {tr s} (hr : Run cfg tr s) :
    ∀ l ∈ tr, ∀ n r, l.place = some (n, r) → cfg.res n = r := by
  induction hr with
  | init => intro l hl; simp at hl
  | step _ hs ih =>
    intro l hl n r hp
    rcases List.mem_cons.mp hl with rfl | h
    · exact step_place cfg hs hp
    · exact ih l h n r hp

end TM
