import TM.Props2
/-! C07, consequence for scheduling: with `max_concurrency = 1` the next node to leave the ready set is
    determined by the set of nodes finished or skipped so far — it is the compound-priority-maximal root
    of the graph induced on the remaining nodes, and nothing is in flight when it is picked.  With
    pairwise distinct compound priorities that node is unique, so the execution order is obtained by
    iterating a function of the DAG: unique and reproducible. -/
namespace TM

theorem binv_of_run (cfg : Cfg) (hm : 0 < cfg.maxc) {tr s} (hr : Run cfg tr s) : BInv cfg s := by
  induction hr with
  | init => exact ⟨by simp [init, St.inflight], by simp [init], by simp [init]⟩
  | step _ hs ih => exact binv_step cfg hm ih hs

theorem C07_next_pick_is_determined (cfg : Cfg) (hnd : cfg.nodes.Nodup) (hm : cfg.maxc = 1)
    {tr s l s'} (hr : Run cfg tr s) (hs : Step cfg s l s') {n} (hl : l.start = some n ∨ l = .skip n) :
    -- nothing is running when a node is picked …
    s.flight = [] ∧
    -- … the remaining graph is exactly the selected nodes not yet finished or skipped …
    (∀ x, x ∈ s.graph ↔ (x ∈ cfg.nodes ∧ x ∉ fins tr ∧ x ∉ skips tr)) ∧
    -- … and the picked node is a root of it with maximal compound priority
    isRoot cfg s.graph n ∧ (∀ m, isRoot cfg s.graph m → cfg.cp m ≤ cfg.cp n) := by
  have ti := tinv_of_run cfg hnd hr
  have bi := binv_of_run cfg (by omega) hr
  have hpick : s.pc = .pick := by
    rcases hl with hl | hl
    · exact (start_best hs hl).1
    · subst hl; cases hs; assumption
  have hinfl : s.inflight = 0 := by have := bi.pick hpick; omega
  have hfl : s.flight = [] := by
    simp only [St.inflight] at hinfl
    have hc : s.conc = [] := List.eq_nil_of_length_eq_zero (by omega)
    have ha : s.asyn = [] := List.eq_nil_of_length_eq_zero (by omega)
    simp [St.flight, hc, ha]
  have hbest := C06_best_ready cfg hnd hr hs hl
  refine ⟨hfl, ?_, hbest.1.1, ?_⟩
  · intro x
    constructor
    · intro hx
      have hxn : x ∈ cfg.nodes := ti.inv.gsub x hx
      refine ⟨hxn, ?_, ?_⟩
      · intro hf; exact ((ti.gone x).1 (Or.inl hf)).2 hx
      · intro hk; exact ((ti.gone x).1 (Or.inr hk)).2 hx
    · rintro ⟨hxn, hf, hk⟩
      by_cases hx : x ∈ s.graph
      · exact hx
      · rcases (ti.gone x).2 ⟨hxn, hx⟩ with h | h
        · exact absurd h hf
        · exact absurd h hk
  · intro m hmr
    exact hbest.2 m hmr (by rw [hfl]; simp)

/-- with pairwise distinct compound priorities the picked node is THE maximal root: any other maximal
    root is the same node -/
theorem C07_pick_unique (cfg : Cfg) (hinj : ∀ a ∈ cfg.nodes, ∀ b ∈ cfg.nodes, cfg.cp a = cfg.cp b → a = b)
    (g : List Node) (hg : ∀ x ∈ g, x ∈ cfg.nodes) (n n' : Node)
    (h1 : isRoot cfg g n ∧ ∀ m, isRoot cfg g m → cfg.cp m ≤ cfg.cp n)
    (h2 : isRoot cfg g n' ∧ ∀ m, isRoot cfg g m → cfg.cp m ≤ cfg.cp n') : n = n' := by
  have a := h1.2 n' h2.1
  have b := h2.2 n h1.1
  exact hinj n (hg n h1.1.1) n' (hg n' h2.1.1) (by omega)

end TM
