import TM.TraceStep
namespace TM

/-- take `n` out of runnable and finish it at once: skip (`ran = false`) or inline (`ran = true`) -/
theorem TInv.takeFinish {cfg : Cfg} {tr s} (h : TInv cfg tr s) (n : Node) (pc : Pc) (ran : Bool)
    (hn : n ∈ s.runnable) (hpc : ∀ e, s.pc ≠ .err e)
    (hact : cfg.active n = ran) :
    TInv cfg ((if ran then Label.inline n else Label.skip n) :: tr)
      { finish cfg { s with runnable := s.runnable.filter (· != n) } n with pc := pc } := by
  have fresh := fresh_of_runnable h hn hpc
  obtain ⟨inv, gone, sn, kn, st, fl, fs, sa, ka, sl⟩ := h
  have hng := runnable_sub_graph inv n hn
  have hnf := inv.disj n hn
  let s0 : St := { s with runnable := s.runnable.filter (· != n) }
  have hg : ∀ x, x ∈ (finish cfg s0 n).graph ↔ x ∈ s.graph ∧ x ≠ n := mem_graph_finish cfg s0 n
  have hf : ∀ x, x ∈ (finish cfg s0 n).flight ↔ x ∈ s.flight := by
    intro x
    rw [mem_flight_finish]
    show x ∈ s.flight ∧ x ≠ n ↔ x ∈ s.flight
    exact ⟨fun h => h.1, fun h => ⟨h, fun e => hnf (e ▸ h)⟩⟩
  refine ⟨(inv_take_finish cfg s n inv hn).setPc _, ?_, ?_, ?_, ?_, ?_, ?_, ?_, ?_, ?_⟩
  · intro x
    show _ ↔ x ∈ cfg.nodes ∧ x ∉ (finish cfg s0 n).graph
    rw [hg]
    have key : (x ∈ fins tr ∨ x ∈ skips tr) ∨ x = n ↔ x ∈ cfg.nodes ∧ ¬ (x ∈ s.graph ∧ x ≠ n) := by
      constructor
      · rintro (h | h)
        · have := (gone x).1 h; exact ⟨this.1, fun hh => this.2 hh.1⟩
        · subst h; exact ⟨inv.gsub x hng, fun hh => hh.2 rfl⟩
      · rintro ⟨hx, hh⟩
        by_cases hxn : x = n
        · exact Or.inr hxn
        · exact Or.inl ((gone x).2 ⟨hx, fun hg' => hh ⟨hg', hxn⟩⟩)
    cases ran <;> simp [Label.fin, Label.skipped] <;> grind
  · cases ran <;> simp [Label.start] <;> first | exact sn | exact ⟨fresh.1, sn⟩
  · cases ran <;> simp [Label.skipped] <;> first | exact kn | exact ⟨fresh.2.1, kn⟩
  · intro x hx
    have hx' : x = n ∧ ran = true ∨ x ∈ starts tr := by
      cases ran <;> simp [Label.start] at hx ⊢ <;> grind
    rcases hx' with ⟨rfl, hr⟩ | hx'
    · left; subst hr; simp [Label.fin]
    · rcases st x hx' with h | h | h
      · left; cases ran <;> simp [Label.fin, h]
      · right; left; exact (hf x).2 h
      · exact absurd h (hpc x)
  · intro x hx
    have := fl x ((hf x).1 hx)
    cases ran <;> simp [Label.start, this]
  · intro x hx
    have hx' : x = n ∧ ran = true ∨ x ∈ fins tr := by
      cases ran <;> simp [Label.fin] at hx ⊢ <;> grind
    rcases hx' with ⟨rfl, hr⟩ | hx'
    · subst hr; simp [Label.start]
    · have := fs x hx'; cases ran <;> simp [Label.start, this]
  · intro x hx
    have hx' : x = n ∧ ran = true ∨ x ∈ starts tr := by
      cases ran <;> simp [Label.start] at hx ⊢ <;> grind
    rcases hx' with ⟨rfl, hr⟩ | hx'
    · rw [hact, hr]
    · exact sa x hx'
  · intro x hx
    have hx' : x = n ∧ ran = false ∨ x ∈ skips tr := by
      cases ran <;> simp [Label.skipped] at hx ⊢ <;> grind
    rcases hx' with ⟨rfl, hr⟩ | hx'
    · rw [hact, hr]
    · exact ka x hx'
  · intro x hx
    have hx' : x = n ∨ x ∈ starts tr := by
      cases ran <;> simp [Label.start] at hx ⊢ <;> grind
    rcases hx' with rfl | hx'
    · exact inv.gsub x hng
    · exact sl x hx'

/-- dispatch `n` to the pool (either kind): generic in how the new flight list is formed -/
theorem TInv.dispatch {cfg : Cfg} {tr s} (h : TInv cfg tr s) (n : Node) (k : Kind) (s' : St)
    (hn : n ∈ s.runnable) (hpc : ∀ e, s.pc ≠ .err e) (hact : cfg.active n = true)
    (hinv : Inv cfg s') (hgraph : s'.graph = s.graph)
    (hflight : ∀ x, x ∈ s'.flight ↔ x = n ∨ x ∈ s.flight) (hpc' : ∀ e, s'.pc ≠ .err e) :
    TInv cfg (.dispatch n k :: tr) s' := by
  have fresh := fresh_of_runnable h hn hpc
  obtain ⟨inv, gone, sn, kn, st, fl, fs, sa, ka, sl⟩ := h
  refine ⟨hinv, ?_, ?_, ?_, ?_, ?_, ?_, ?_, ?_, ?_⟩
  · intro x; rw [hgraph]; simpa [Label.fin, Label.skipped] using gone x
  · simp [Label.start]; exact ⟨fresh.1, sn⟩
  · simpa [Label.skipped] using kn
  · intro x hx
    simp [Label.start] at hx
    rcases hx with rfl | hx
    · right; left; exact (hflight x).2 (Or.inl rfl)
    · rcases st x hx with h | h | h
      · left; simpa [Label.fin] using h
      · right; left; exact (hflight x).2 (Or.inr h)
      · exact absurd h (hpc x)
  · intro x hx
    simp [Label.start]
    rcases (hflight x).1 hx with h | h
    · exact Or.inl h
    · exact Or.inr (fl x h)
  · intro x hx
    simp [Label.fin] at hx
    simp [Label.start]; exact Or.inr (fs x hx)
  · intro x hx
    simp [Label.start] at hx
    rcases hx with rfl | hx
    · exact hact
    · exact sa x hx
  · intro x hx; exact ka x (by simpa [Label.skipped] using hx)
  · intro x hx
    simp [Label.start] at hx
    rcases hx with rfl | hx
    · exact inv.gsub x (runnable_sub_graph inv x hn)
    · exact sl x hx

theorem TInv.inlineFail {cfg : Cfg} {tr s} (h : TInv cfg tr s) (n : Node)
    (hn : n ∈ s.runnable) (hpc : ∀ e, s.pc ≠ .err e) (hact : cfg.active n = true) :
    TInv cfg (.inlineFail n :: tr) { s with pc := .err n } := by
  have fresh := fresh_of_runnable h hn hpc
  obtain ⟨inv, gone, sn, kn, st, fl, fs, sa, ka, sl⟩ := h
  refine ⟨inv.setPc _, ?_, ?_, ?_, ?_, ?_, ?_, ?_, ?_, ?_⟩
  · intro x; simpa [Label.fin, Label.skipped] using gone x
  · simp [Label.start]; exact ⟨fresh.1, sn⟩
  · simpa [Label.skipped] using kn
  · intro x hx
    simp [Label.start] at hx
    rcases hx with rfl | hx
    · right; right; rfl
    · rcases st x hx with h | h | h
      · left; simpa [Label.fin] using h
      · right; left; exact h
      · exact absurd h (hpc x)
  · intro x hx; simp [Label.start]; exact Or.inr (fl x hx)
  · intro x hx
    simp [Label.fin] at hx
    simp [Label.start]; exact Or.inr (fs x hx)
  · intro x hx
    simp [Label.start] at hx
    rcases hx with rfl | hx
    · exact hact
    · exact sa x hx
  · intro x hx; exact ka x (by simpa [Label.skipped] using hx)
  · intro x hx
    simp [Label.start] at hx
    rcases hx with rfl | hx
    · exact inv.gsub x (runnable_sub_graph inv x hn)
    · exact sl x hx

end TM
