import VM.Cache
import VM.History3
/-! Executor objects (`DAGExecution` / `AsyncDAGExecution`) and cache files as a state machine on top of
    the instance model: `_pre_call` (single use: `executed` / `started`; the start results = the DAG's own
    completed by the file named by `from_cache`), the run of the executor's own selection, `_post_call`
    (`cache_in`: the results minus the `cache_deps_of` targets are written), copy-back of setup results.

    * C15 (second sentence): an executor object is single-use — `C15_executor_single_use`;
    * C18 end to end, through an explicit file store — `C18_cache_roundtrip`: a run that wrote a file,
      followed by a restart of the same selection from that file, returns the same results and enters
      only nodes whose result is not in the file (the `cache_deps_of` targets), also when the restart
      omits arguments whose values are in the file. -/
namespace VM
open TM
variable {V : Type} [PyVal V]

/-- a cache file: what `pickle.dump` wrote — a partial id → value map -/
abbrev File (V : Type) := Results V

/-- `_pre_call` with `from_cache`: the DAG's own results, every entry of the file forced over them -/
def overlay (base file : Results V) : Results V := fun x => match file x with | some v => some v | none => base x

structure XSpec where
  sel       : List Node          -- the executor's execution graph (selection resolved at construction)
  nonCache  : Node → Bool        -- the `cache_deps_of` targets: never written to the file
  cacheIn   : Option Nat         -- file slot written after a successful run
  fromCache : Option Nat         -- file slot read before the run

structure XObj where
  spec     : XSpec
  started  : Bool
  executed : Bool

def XObj.fresh (s : XSpec) : XObj := ⟨s, false, false⟩
def XObj.used (o : XObj) : Bool := o.executed || o.started

structure World (V : Type) where
  inst  : Inst V
  files : Nat → Option (File V)

inductive XOut (V : Type) where
  | refused                 -- TawaziUsageError: already executed / already started
  | noFile                  -- `from_cache` names a file that does not exist
  | failed                  -- a node raised
  | ok (ρ : Results V)      -- the results of the run

def xStart (w : World V) (s : XSpec) : Option (Results V) :=
  match s.fromCache with
  | none => some w.inst.res
  | some p => (w.files p).map (overlay w.inst.res)

/-- the run configuration of an executor: ITS WHOLE selection, pruned of what is precomputed -/
def xCfgOf (i : Inst V) (s : XSpec) (start : Results V) (args : List V) : ECfg V :=
  runCfg i s.sel (bindArgs start i.dag.params args)

def writeFile (s : XSpec) (ρ : Results V) : File V := fun x => if s.nonCache x then none else ρ x

def putFile (files : Nat → Option (File V)) : Option Nat → File V → (Nat → Option (File V))
  | none, _ => files
  | some p, f => fun q => if q = p then some f else files q

def xRun (w : World V) (o : XObj) (args : List V) : World V × XObj × XOut V :=
  if o.used then (w, o, .refused)
  else
    match xStart w o.spec with
    | none => (w, { o with started := true }, .noFile)
    | some start =>
      let c := xCfgOf w.inst o.spec start args
      if succeeded c then
        ({ inst := copyBack w.inst (den c), files := putFile w.files o.spec.cacheIn (writeFile o.spec (den c)) },
         { o with started := true, executed := true }, .ok (den c))
      else (w, { o with started := true }, .failed)

/-- several calls of ONE executor object -/
def xRuns (w : World V) (o : XObj) : List (List V) → World V × XObj × List (XOut V)
  | [] => (w, o, [])
  | a :: rest =>
    let r := xRun w o a
    let r' := xRuns r.1 r.2.1 rest
    (r'.1, r'.2.1, r.2.2 :: r'.2.2)

/-! ### single use (C15) -/

theorem xRun_of_used (w : World V) (o : XObj) (args : List V) (h : o.used = true) :
    xRun w o args = (w, o, .refused) := by
  unfold xRun; simp [h]

theorem xRun_used (w : World V) (o : XObj) (args : List V) : (xRun w o args).2.1.used = true := by
  unfold xRun
  by_cases h : o.used = true
  · simp [h]
  · simp only [h, if_false, Bool.false_eq_true]
    cases xStart w o.spec with
    | none => simp [XObj.used]
    | some start =>
      simp only []
      split <;> simp [XObj.used]

theorem xRuns_of_used (argss : List (List V)) : ∀ (w : World V) (o : XObj), o.used = true →
    xRuns w o argss = (w, o, argss.map (fun _ => XOut.refused)) := by
  induction argss with
  | nil => intro w o _; rfl
  | cons a rest ih =>
    intro w o h
    simp only [xRuns, xRun_of_used w o a h, ih w o h, List.map_cons]

/-- **C15** (executor): whatever the first call of an executor object did — returned, failed, found no
    file — every later call is refused and changes nothing: neither the instance nor any file. -/
theorem C15_executor_single_use (w : World V) (o : XObj) (a : List V) (rest : List (List V)) :
    xRuns w o (a :: rest) =
      ((xRun w o a).1, (xRun w o a).2.1, (xRun w o a).2.2 :: rest.map (fun _ => XOut.refused)) := by
  simp only [xRuns, xRuns_of_used rest _ _ (xRun_used w o a)]

/-- **C15** (executor): a call that is not refused runs the executor's COMPLETE selection from the start
    results (never what an earlier, interrupted run left over): its outcome is a function of the
    instance, the file, the executor's description and the arguments only. -/
theorem C15_executor_run_is_complete (w : World V) (s : XSpec) (args : List V) (start : Results V)
    (hs : xStart w s = some start) :
    (xRun w (XObj.fresh s) args).2.2 =
      (if succeeded (xCfgOf w.inst s start args) then .ok (den (xCfgOf w.inst s start args)) else .failed) := by
  unfold xRun
  simp only [XObj.fresh, XObj.used, Bool.or_self, Bool.false_eq_true, if_false, hs]
  by_cases h : succeeded (xCfgOf w.inst s start args) = true
  · simp [h]
  · simp [h]

/-- an executor run changes the instance only by copy-back of setup results, exactly like a DAG call -/
theorem xRun_inst_nonsetup (w : World V) (o : XObj) (args : List V) (n : Node) (h : w.inst.dag.isSetup n = false) :
    (xRun w o args).1.inst.res n = w.inst.res n := by
  unfold xRun
  by_cases hu : o.used = true
  · simp [hu]
  · simp only [hu, if_false, Bool.false_eq_true]
    cases xStart w o.spec with
    | none => rfl
    | some start =>
      simp only []
      split
      · simp [copyBack, h]
      · rfl

/-! ### positional binding, pointwise -/

/-- the value a call's positional arguments give to holder `x`, if any (later parameters win, as `force_set` does) -/
def argOf : List Node → List V → Node → Option V
  | p :: ps, a :: as, x => match argOf ps as x with | some v => some v | none => if x = p then some a else none
  | _, _, _ => none

theorem bindArgs_eq (ps : List Node) : ∀ (as : List V) (res : Results V) (x : Node),
    bindArgs res ps as x = (match argOf ps as x with | some v => some v | none => res x) := by
  induction ps with
  | nil => intro as res x; cases as <;> rfl
  | cons p ps ih =>
    intro as res x
    cases as with
    | nil => rfl
    | cons a as =>
      simp only [bindArgs, argOf]
      rw [ih as (res.set p a) x]
      cases argOf ps as x with
      | some v => rfl
      | none =>
        simp only []
        by_cases hx : x = p
        · subst hx; simp [Results.set]
        · simp [Results.set, hx]

/-! ### the round trip through a file (C18) -/

/-- which nodes of the caching run are precomputed in the restart: everything written to the file, and
    the setup results copied back into the instance -/
def reused (i : Inst V) (s : XSpec) (c1 : ECfg V) : Node → Bool :=
  fun x => decide (x ∈ c1.nodes) && (!s.nonCache x || i.dag.isSetup x)

theorem restart_cfg_eq (i : Inst V) (s : XSpec) (args args2 : List V)
    (hsucc : succeeded (xCfgOf i s i.res args) = true)
    (hwf : WF (xCfgOf i s i.res args))
    (hargs : ∀ x, argOf i.dag.params args2 x = argOf i.dag.params args x ∨
                  (argOf i.dag.params args2 x = none ∧ s.nonCache x = false)) :
    let c1 := xCfgOf i s i.res args
    xCfgOf (copyBack i (den c1)) s (overlay (copyBack i (den c1)).res (writeFile s (den c1))) args2
      = seeded c1 (reused i s c1) := by
  intro c1
  have hc1 : c1 = xCfgOf i s i.res args := rfl
  -- facts about the caching run
  have hinit1 : ∀ x, c1.init x = (match argOf i.dag.params args x with | some v => some v | none => i.res x) :=
    fun x => bindArgs_eq i.dag.params args i.res x
  have hmem : ∀ x, x ∈ c1.nodes ↔ x ∈ s.sel ∧ c1.init x = none := by
    intro x
    show x ∈ s.sel.filter _ ↔ _
    simp [List.mem_filter, Option.isNone_iff_eq_none]; intro _; rfl
  have hden_out : ∀ x, x ∉ c1.nodes → den c1 x = c1.init x := fun x hx => denote_notin c1 c1.nodes c1.init x hx
  have hden_in : ∀ x, x ∈ c1.nodes → ∃ v, den c1 x = some v := by
    intro x hx
    have : (outcome c1 (den c1) x).isSome = true := List.all_eq_true.mp hsucc x hx
    obtain ⟨v, hv⟩ := Option.isSome_iff_exists.mp this
    exact ⟨v, den_of_outcome c1 hwf hx hv⟩
  -- the restart's initial results, pointwise
  have hinit2 : ∀ x, bindArgs (overlay (copyBack i (den c1)).res (writeFile s (den c1))) i.dag.params args2 x
      = (if reused i s c1 x then den c1 x else c1.init x) := by
    intro x
    rw [bindArgs_eq]
    by_cases hx : x ∈ c1.nodes
    · -- a node the caching run executed: not a bound holder
      have hi1 : c1.init x = none := ((hmem x).mp hx).2
      have ha1 : argOf i.dag.params args x = none := by
        have := hinit1 x; rw [hi1] at this
        cases h : argOf i.dag.params args x with
        | none => rfl
        | some v => rw [h] at this; cases this
      have hres : i.res x = none := by have := hinit1 x; rw [hi1, ha1] at this; exact this.symm
      have ha2 : argOf i.dag.params args2 x = none := by
        rcases hargs x with h | h
        · rw [h, ha1]
        · exact h.1
      rw [ha2]
      simp only [overlay, writeFile, copyBack, reused, hx, decide_true, Bool.true_and, hres, Option.isNone_none, Bool.and_true]
      obtain ⟨v, hv⟩ := hden_in x hx
      cases hnc : s.nonCache x <;> cases hsu : i.dag.isSetup x <;> simp [hv, hi1]
    · -- not executed by the caching run: its value there is its initial value
      have hd : den c1 x = c1.init x := hden_out x hx
      have hr : reused i s c1 x = false := by simp [reused, hx]
      rw [hr]; simp only [Bool.false_eq_true, if_false]
      rcases hargs x with h | h
      · rw [h, hinit1 x]
        cases ha : argOf i.dag.params args x with
        | some v => rfl
        | none =>
          simp only [overlay, writeFile, copyBack]
          have hix : c1.init x = i.res x := by rw [hinit1 x, ha]
          rw [hd, hix]
          cases hnc : s.nonCache x <;> cases hsu : i.dag.isSetup x <;> cases hrx : i.res x <;> simp [hrx]
      · rw [h.1]
        simp only [overlay, writeFile, copyBack, h.2, Bool.false_eq_true, if_false, hd]
        cases hcx : c1.init x with
        | some v => rfl
        | none =>
          simp only []
          have hrx : i.res x = none := by
            have := hinit1 x; rw [hcx] at this
            cases ha : argOf i.dag.params args x with
            | some v => rw [ha] at this; cases this
            | none => rw [ha] at this; exact this.symm
          cases hsu : i.dag.isSetup x <;> simp [hrx, hd, hcx]
  -- assemble
  show (⟨s.sel.filter _, i.dag.recOf, i.dag.interp, _⟩ : ECfg V) = ⟨c1.nodes.filter _, c1.recOf, c1.interp, _⟩
  have hnodes : s.sel.filter (fun n => (bindArgs (overlay (copyBack i (den c1)).res (writeFile s (den c1))) i.dag.params args2 n).isNone)
      = c1.nodes.filter (fun n => !reused i s c1 n) := by
    show _ = (s.sel.filter _).filter _
    rw [List.filter_filter]
    apply List.filter_congr
    intro x hxs
    rw [hinit2 x]
    by_cases hx : x ∈ c1.nodes
    · obtain ⟨v, hv⟩ := hden_in x hx
      have hi1 : c1.init x = none := ((hmem x).mp hx).2
      have : (bindArgs i.res i.dag.params args x) = none := hi1
      cases hr : reused i s c1 x <;> simp [hv, hi1, this]
    · have hr : reused i s c1 x = false := by simp [reused, hx]
      have hi1 : c1.init x ≠ none := fun h => hx ((hmem x).mpr ⟨hxs, h⟩)
      have : (bindArgs i.res i.dag.params args x) ≠ none := hi1
      have e : c1.init x = bindArgs i.res i.dag.params args x := rfl
      simp [hr, e]
  have hinit : (fun x => bindArgs (overlay (copyBack i (den c1)).res (writeFile s (den c1))) i.dag.params args2 x)
      = (fun x => if reused i s c1 x then den c1 x else c1.init x) := funext hinit2
  simp only [copyBack] at hnodes hinit ⊢
  rw [hnodes]
  congr 1

/-- **C18**, end to end through the file store.  An executor with `cache_in = p` runs successfully on a
    world `w` (any selection, any `cache_deps_of` targets); then a fresh executor of the same selection with
    `from_cache = p` is called with the same arguments — or with fewer, the omitted ones being in the
    file.  The restart succeeds, returns the very same results on every node, and the nodes it enters are
    not in the file: they are `cache_deps_of` targets that are not setup nodes. -/
theorem C18_cache_roundtrip (w : World V) (s1 s2 : XSpec) (p : Nat) (args args2 : List V)
    (hfrom1 : s1.fromCache = none) (hin : s1.cacheIn = some p)
    (hsel : s2.sel = s1.sel) (hfrom2 : s2.fromCache = some p)
    (hsucc : succeeded (xCfgOf w.inst s1 w.inst.res args) = true)
    (hwf : WF (xCfgOf w.inst s1 w.inst.res args))
    (hargs : ∀ x, argOf w.inst.dag.params args2 x = argOf w.inst.dag.params args x ∨
                  (argOf w.inst.dag.params args2 x = none ∧ s1.nonCache x = false)) :
    let c1 := xCfgOf w.inst s1 w.inst.res args
    let w1 := (xRun w (XObj.fresh s1) args).1
    ∃ ρ2, (xRun w1 (XObj.fresh s2) args2).2.2 = .ok ρ2 ∧
      (∀ x, ρ2 x = den c1 x) ∧
      (∀ c2, c2 = seeded c1 (reused w.inst s1 c1) → ∀ n ∈ entered c2, s1.nonCache n = true ∧ w.inst.dag.isSetup n = false) := by
  intro c1 w1
  have hw1 : w1 = { inst := copyBack w.inst (den c1), files := putFile w.files (some p) (writeFile s1 (den c1)) } := by
    show (xRun w (XObj.fresh s1) args).1 = _
    unfold xRun
    simp only [XObj.fresh, XObj.used, Bool.or_self, Bool.false_eq_true, if_false, xStart, hfrom1]
    have : succeeded (xCfgOf w.inst s1 w.inst.res args) = true := hsucc
    simp only [this, if_true, hin]
    rfl
  have hstart2 : xStart w1 s2 = some (overlay (copyBack w.inst (den c1)).res (writeFile s1 (den c1))) := by
    rw [hw1]; simp [xStart, hfrom2, putFile]
  have hcfg : xCfgOf w1.inst s2 (overlay (copyBack w.inst (den c1)).res (writeFile s1 (den c1))) args2
      = seeded c1 (reused w.inst s1 c1) := by
    have h := restart_cfg_eq w.inst s1 args args2 hsucc hwf hargs
    rw [hw1]
    have : xCfgOf (copyBack w.inst (den c1)) s2 (overlay (copyBack w.inst (den c1)).res (writeFile s1 (den c1))) args2
        = xCfgOf (copyBack w.inst (den c1)) s1 (overlay (copyBack w.inst (den c1)).res (writeFile s1 (den c1))) args2 := by
      unfold xCfgOf; rw [hsel]
    rw [this]; exact h
  -- the seeded run: same denotation, only unseeded nodes
  have hf : ∀ n, reused w.inst s1 c1 n = true → n ∈ c1.nodes := by
    intro n hn; simp only [reused, Bool.and_eq_true, decide_eq_true_eq] at hn; exact hn.1
  have hden_in : ∀ x, x ∈ c1.nodes → ∃ v, den c1 x = some v := by
    intro x hx
    have : (outcome c1 (den c1) x).isSome = true := List.all_eq_true.mp hsucc x hx
    obtain ⟨v, hv⟩ := Option.isSome_iff_exists.mp this
    exact ⟨v, den_of_outcome c1 hwf hx hv⟩
  obtain ⟨hsame, hnodes⟩ := C18_restart_same c1 (reused w.inst s1 c1) hwf hf (fun n hn => hden_in n (hf n hn))
  -- the restart succeeds: every remaining node has the outcome it had in the caching run
  have hsucc2 : succeeded (seeded c1 (reused w.inst s1 c1)) = true := by
    unfold succeeded
    apply List.all_eq_true.mpr
    intro n hn
    have hn1 : n ∈ c1.nodes := (List.mem_filter.mp hn).1
    have : outcome (seeded c1 (reused w.inst s1 c1)) (den (seeded c1 (reused w.inst s1 c1))) n = outcome c1 (den c1) n := by
      have h0 : outcome (seeded c1 (reused w.inst s1 c1)) (den (seeded c1 (reused w.inst s1 c1))) n
          = outcome c1 (den (seeded c1 (reused w.inst s1 c1))) n := rfl
      rw [h0]; exact outcome_congr c1 (fun x _ => hsame x.src)
    rw [this]; exact List.all_eq_true.mp hsucc n hn1
  refine ⟨den (seeded c1 (reused w.inst s1 c1)), ?_, hsame, ?_⟩
  · unfold xRun
    simp only [XObj.fresh, XObj.used, Bool.or_self, Bool.false_eq_true, if_false, hstart2, hcfg, hsucc2, if_true]
  · intro c2 hc2 n hn
    subst hc2
    have hn2 := (List.mem_filter.mp hn).1
    have hr := hnodes n hn2
    have hn1 : n ∈ c1.nodes := (List.mem_filter.mp hn2).1
    simp only [reused, hn1, decide_true, Bool.true_and] at hr
    cases hnc : s1.nonCache n <;> cases hsu : w.inst.dag.isSetup n <;> simp [hnc, hsu] at hr ⊢

/-! ### executor objects kept across other operations

    An executor object may be built at one moment and called at a later one, after any number of calls,
    `setup()` invocations and runs of other executors on the same instance.  `wStep` is the world-level
    step; `flatten` is the plain operation history the world history amounts to: a run of a kept, unused,
    cache-less executor is the operation `call sel args` AT THE MOMENT OF THE RUN (it starts from the
    instance's results as they are then — never from what they were when the object was built), a run of
    a used object is nothing at all.  Every history theorem (C11, C15) therefore holds with kept executors. -/

def XSpec.plain (s : XSpec) : Prop := s.cacheIn = none ∧ s.fromCache = none

inductive WOp (V : Type) where
  | op (o : Op V)                      -- a DAG call, an immediate executor run, a setup()
  | mk (s : XSpec)                     -- an executor object is built and kept
  | run (k : Nat) (args : List V)      -- the k-th kept executor object is called

structure WState (V : Type) where
  w  : World V
  xs : List XObj

def wStep (st : WState V) : WOp V → WState V
  | .op o => { st with w := { st.w with inst := applyOp st.w.inst o } }
  | .mk s => { st with xs := st.xs ++ [XObj.fresh s] }
  | .run k args =>
    match st.xs[k]? with
    | none => st
    | some o => let r := xRun st.w o args; { w := r.1, xs := st.xs.set k r.2.1 }

def wRun (st : WState V) : List (WOp V) → WState V
  | [] => st
  | o :: rest => wRun (wStep st o) rest

/-- the plain operations a world history amounts to -/
def flatten (st : WState V) : List (WOp V) → List (Op V)
  | [] => []
  | .op o :: rest => o :: flatten (wStep st (.op o)) rest
  | .mk s :: rest => flatten (wStep st (.mk s)) rest
  | .run k args :: rest =>
    match st.xs[k]? with
    | none => flatten (wStep st (.run k args)) rest
    | some o => if o.used then flatten (wStep st (.run k args)) rest
                else .call o.spec.sel args :: flatten (wStep st (.run k args)) rest

def AllPlain (xs : List XObj) : Prop := ∀ o ∈ xs, o.spec.plain
def WOp.plainMk : WOp V → Prop | .mk s => s.plain | _ => True

/-- the run of an unused cache-less executor object is the operation `call sel args` on the instance as it is
    at that moment; no file is touched -/
theorem xRun_plain (w : World V) (o : XObj) (args : List V) (hp : o.spec.plain) (hu : o.used = false) :
    (xRun w o args).1 = { inst := applyOp w.inst (.call o.spec.sel args), files := w.files } := by
  unfold xRun
  simp only [hu, Bool.false_eq_true, if_false, xStart, hp.2]
  unfold applyOp
  by_cases h : succeeded (xCfgOf w.inst o.spec w.inst.res args) = true
  · have h' : succeeded (opCfg w.inst (.call o.spec.sel args)) = true := h
    simp only [h, h', if_true, hp.1, putFile]; rfl
  · have h' : ¬ succeeded (opCfg w.inst (.call o.spec.sel args)) = true := h
    simp only [h, h', if_false, Bool.false_eq_true]

theorem wStep_allPlain (st : WState V) (o : WOp V) (h : AllPlain st.xs) (ho : o.plainMk) : AllPlain (wStep st o).xs := by
  cases o with
  | op o => exact h
  | mk s =>
    intro x hx
    simp only [wStep, List.mem_append, List.mem_singleton] at hx
    rcases hx with hx | hx
    · exact h x hx
    · subst hx; exact ho
  | run k args =>
    simp only [wStep]
    cases hk : st.xs[k]? with
    | none => exact h
    | some o =>
      intro x hx
      simp only [] at hx
      rcases List.mem_or_eq_of_mem_set hx with hx | hx
      · exact h x hx
      · subst hx
        have hmem : o ∈ st.xs := List.mem_of_getElem? hk
        have : (xRun st.w o args).2.1.spec = o.spec := by
          unfold xRun
          by_cases hu : o.used = true
          · simp [hu]
          · simp only [hu, if_false, Bool.false_eq_true]
            cases xStart st.w o.spec with
            | none => rfl
            | some start => simp only []; split <;> rfl
        show (xRun st.w o args).2.1.spec.plain
        rw [this]; exact h o hmem

/-- **kept executors reduce to plain histories**: whatever is interleaved between the construction of
    executor objects and their calls, the instance ends up exactly as after the flattened history. -/
theorem wRun_inst (ops : List (WOp V)) : ∀ (st : WState V), AllPlain st.xs → (∀ o ∈ ops, o.plainMk) →
    (wRun st ops).w.inst = runHistory st.w.inst (flatten st ops) := by
  induction ops with
  | nil => intro st _ _; rfl
  | cons o rest ih =>
    intro st hp hops
    have hp' := wStep_allPlain st o hp (hops o (by simp))
    have hrest : ∀ o ∈ rest, o.plainMk := fun x hx => hops x (by simp [hx])
    cases o with
    | op o => simp only [wRun, flatten, runHistory]; exact ih _ hp' hrest
    | mk s =>
      simp only [wRun, flatten]
      rw [ih _ hp' hrest]; rfl
    | run k args =>
      simp only [wRun, flatten]
      rw [ih _ hp' hrest]
      cases hk : st.xs[k]? with
      | none => simp only [wStep, hk]
      | some o =>
        have hmem : o ∈ st.xs := List.mem_of_getElem? hk
        by_cases hu : o.used = true
        · simp only [hu, if_true]
          simp only [wStep, hk, xRun_of_used st.w o args hu]
        · have hu' : o.used = false := by simpa using hu
          simp only [hu', Bool.false_eq_true, if_false, runHistory]
          simp only [wStep, hk, xRun_plain st.w o args (hp o hmem) hu']

/-- **C11 with kept executor objects**: over any world history — calls, `setup()`, executors built at any
    moment and called at any later one (or several times) — in which every operation that runs succeeds,
    no setup node is entered twice. -/
theorem C11_kept_executors (ops : List (WOp V)) (st : WState V) (hp : AllPlain st.xs) (hops : ∀ o ∈ ops, o.plainMk)
    (hok : InstOK st.w.inst) (hwf : ∀ (j : Inst V) (op : Op V), WF (opCfg j op))
    (hall : AllSucceed st.w.inst (flatten st ops)) :
    (setupEntries st.w.inst (flatten st ops)).Nodup ∧
      (wRun st ops).w.inst = runHistory st.w.inst (flatten st ops) :=
  ⟨C11_setup_at_most_once (flatten st ops) st.w.inst hok hwf hall, wRun_inst ops st hp hops⟩

/-- a kept executor sees the setup values the instance holds WHEN IT RUNS: a value recorded by any operation
    between its construction and its call is in its start results and is never recomputed -/
theorem kept_executor_sees_current_setup (w : World V) (o : XObj) (args : List V) (hp : o.spec.plain)
    (hu : o.used = false) (hok : InstOK w.inst) (n : Node) (hs : w.inst.dag.isSetup n = true) (v : V)
    (hv : w.inst.res n = some v) :
    n ∉ entered (opCfg w.inst (.call o.spec.sel args)) ∧ (xRun w o args).1.inst.res n = some v := by
  constructor
  · intro hn
    have := entered_not_precomputed w.inst (.call o.spec.sel args) n hn
    rw [opCfg_init_setup w.inst hok _ n hs, hv] at this; cases this
  · rw [xRun_plain w o args hp hu]
    exact applyOp_res_keep w.inst _ n v hv

end VM
