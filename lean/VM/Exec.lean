import TM.Props
/-! Prototype: values on top of the scheduler LTS. Index-based (nodes are Nat; sources outside the
    execution graph are "external": constants, arguments, setup results, cache). -/
namespace VM
open TM

inductive Key where | idx (i : Int) | name (s : String) deriving DecidableEq, Repr

class PyVal (V : Type) where
  none    : V
  truthy  : V → Bool
  getItem : V → Key → Option V

inductive Err where | index | usage | node (n : Node) deriving DecidableEq, Repr

structure Ref where
  src  : Node
  path : List Key

structure NodeRec where
  fn     : String
  args   : List Ref
  kwargs : List (String × Ref)
  active : Option Ref

def NodeRec.refs (r : NodeRec) : List Ref :=
  r.args ++ r.kwargs.map (·.2) ++ (match r.active with | some a => [a] | none => [])

abbrev Results (V : Type) := Node → Option V

def Results.set {V} (ρ : Results V) (n : Node) (v : V) : Results V := fun x => if x = n then some v else ρ x

variable {V : Type} [PyVal V]

def index (v : V) (path : List Key) : Except Err V :=
  path.foldlM (fun v k => match PyVal.getItem v k with | some w => .ok w | none => .error .index) v

/-- `UsageExecNode.result`: unexecuted source ⇒ None, else index along the key path -/
def resolve (ρ : Results V) (r : Ref) : Except Err V :=
  match ρ r.src with
  | none => .ok PyVal.none
  | some v => index v r.path

abbrev Interp (V : Type) := String → List V → List (String × V) → Except Err V

/-- is the node active under `ρ`? (an indexing error in the flag is an error of the run) -/
def activeOf (ρ : Results V) (r : NodeRec) : Except Err Bool :=
  match r.active with
  | none => .ok true
  | some a => do let v ← resolve ρ a; pure (PyVal.truthy v)

/-- evaluate the value part of a keyword pair -/
def kwMap {α : Type} (f : α → Except Err V) (p : String × α) : Except Err (String × V) := do
  let v ← f p.2
  pure (p.1, v)

def callOf (interp : Interp V) (ρ : Results V) (r : NodeRec) : Except Err V := do
  let args ← r.args.mapM (resolve ρ)
  let kws ← r.kwargs.mapM (kwMap (resolve ρ))
  interp r.fn args kws

/-! ### everything a node reads is determined by the results at its sources -/

theorem resolve_congr {ρ σ : Results V} {r : Ref} (h : ρ r.src = σ r.src) : resolve ρ r = resolve σ r := by
  simp [resolve, h]

theorem mapM_resolve_congr {ρ σ : Results V} (l : List Ref) (h : ∀ r ∈ l, ρ r.src = σ r.src) :
    l.mapM (resolve ρ) = l.mapM (resolve σ) := by
  induction l with
  | nil => rfl
  | cons a l ih =>
    simp only [List.mapM_cons]
    rw [resolve_congr (h a (by simp)), ih (fun r hr => h r (by simp [hr]))]

theorem activeOf_congr {ρ σ : Results V} {r : NodeRec} (h : ∀ x ∈ r.refs, ρ x.src = σ x.src) :
    activeOf ρ r = activeOf σ r := by
  unfold activeOf
  cases ha : r.active with
  | none => rfl
  | some a =>
    have : a ∈ r.refs := by simp [NodeRec.refs, ha]
    simp [resolve_congr (h a this)]

theorem callOf_congr (interp : Interp V) {ρ σ : Results V} {r : NodeRec}
    (h : ∀ x ∈ r.refs, ρ x.src = σ x.src) : callOf interp ρ r = callOf interp σ r := by
  unfold callOf
  have h1 : r.args.mapM (resolve ρ) = r.args.mapM (resolve σ) :=
    mapM_resolve_congr r.args (fun x hx => h x (by simp [NodeRec.refs, hx]))
  have h2 : r.kwargs.mapM (kwMap (resolve ρ)) = r.kwargs.mapM (kwMap (resolve σ)) := by
    have : ∀ (l : List (String × Ref)), (∀ p ∈ l, ρ p.2.src = σ p.2.src) →
        l.mapM (kwMap (resolve ρ)) = l.mapM (kwMap (resolve σ)) := by
      intro l
      induction l with
      | nil => intro _; rfl
      | cons p l ih =>
        intro hp
        simp only [List.mapM_cons]
        have : kwMap (resolve ρ) p = kwMap (resolve σ) p := by
          unfold kwMap; rw [resolve_congr (hp p (by simp))]
        rw [this, ih (fun q hq => hp q (by simp [hq]))]
    apply this
    intro p hp
    exact h p.2 (by simp only [NodeRec.refs, List.mem_append, List.mem_map]; left; right; exact ⟨p, hp, rfl⟩)
  rw [h1, h2]

/-! ### the sequential denotation: run the selected nodes in recording order -/

structure ECfg (V : Type) where
  nodes  : List Node
  recOf  : Node → NodeRec
  interp : Interp V
  init   : Results V

/-- outcome of one node under `ρ`: `none` = raises, `some v` = its result (None when deactivated) -/
def outcome (c : ECfg V) (ρ : Results V) (n : Node) : Option V :=
  match activeOf ρ (c.recOf n) with
  | .error _ => none
  | .ok false => some PyVal.none
  | .ok true => match callOf c.interp ρ (c.recOf n) with | .ok v => some v | .error _ => none

def denote (c : ECfg V) : List Node → Results V → Results V
  | [], ρ => ρ
  | n :: rest, ρ => match outcome c ρ n with
    | some v => denote c rest (ρ.set n v)
    | none => denote c rest ρ

def den (c : ECfg V) : Results V := denote c c.nodes c.init

end VM
