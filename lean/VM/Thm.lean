import VM.Main
namespace VM
open TM
variable {V : Type} [PyVal V]

theorem den_of_outcome (c : ECfg V) (hwf : WF c) {n : Node} (hn : n ∈ c.nodes) {v : V}
    (h : outcome c (den c) n = some v) : den c n = some v := by
  obtain ⟨d, r, hs⟩ := node_split c.nodes n hn
  have := (den_split c hwf d n r hs).2
  rw [h] at this; exact this

theorem actD_of (c : ECfg V) {n : Node} {b : Bool} (h : activeOf (den c) (c.recOf n) = .ok b) : actD c n = b := by
  simp [actD, h]

theorem outcome_inactive (c : ECfg V) {ρ : Results V} {n : Node} (h : activeOf ρ (c.recOf n) = .ok false) :
    outcome c ρ n = some PyVal.none := by simp [outcome, h]

theorem runnable_of_label {cfg : Cfg} {s l s'} (hs : Step cfg s l s') {n}
    (hl : l = .skip n ∨ l.start = some n) : n ∈ s.runnable := by
  rcases hl with rfl | hl
  · cases hs; rename_i hb _ _; exact hb.1
  · exact (start_best hs hl).2.1.1

/-- one value step is one scheduler step under the denotational configuration, and keeps `Sim` -/
theorem sim_step (c : ECfg V) (a : Attrs) (hwf : WF c) {tr vs l vs'}
    (hr : Run (cfgD c a) tr vs.st) (hs : Sim c tr vs) (hv : VStep c a vs l vs') :
    Step (cfgD c a) vs.st l vs'.st ∧ Sim c (l :: tr) vs' := by
  have ti := tinv_of_run (cfgD c a) hwf.1 hr
  cases hv with
  | silent act fl hstep hl =>
    refine ⟨step_congr c a hstep ?_ ?_, ?_⟩
    · intro n h; rcases hl with rfl | rfl <;> rcases h with h | h <;> simp [Label.start] at h
    · intro n h; rcases hl with rfl | rfl <;> rcases h with h | h | ⟨_, _, _, h, _⟩ | ⟨_, _, _, h⟩ <;> cases h
    · rcases hl with rfl | rfl <;>
        exact ⟨fun n h => hs.done n (by simpa [Label.fin, Label.skipped] using h),
               fun n h1 h2 => hs.rest n (by simpa [Label.fin] using h1) (by simpa [Label.skipped] using h2),
               hs.pend⟩
  | skip n act fl hstep hact =>
    rename_i st'
    have hrun := runnable_of_label hstep (Or.inl rfl)
    have hag := reads_agree c a hwf hr hs hrun
    have hactD : activeOf (den c) (c.recOf n) = .ok false := by rw [← activeOf_congr hag]; exact hact
    have hnn : n ∈ c.nodes := ti.inv.gsub n (runnable_sub_graph ti.inv n hrun)
    have hstep' : Step (cfgD c a) vs.st (.skip n) st' := by
      refine step_congr c a hstep ?_ ?_
      · intro m h
        have : m = n := by rcases h with h | h; (injection h with h; exact h.symm); simp [Label.start] at h
        subst this
        have : act m = false := by cases hstep; assumption
        rw [this]; exact actD_of c hactD
      · intro m h; rcases h with h | h | ⟨_, _, _, h, _⟩ | ⟨_, _, _, h⟩ <;> cases h
    refine ⟨hstep', ?_, ?_, hs.pend⟩
    · intro x hx
      simp [Label.fin, Label.skipped] at hx
      by_cases hxn : x = n
      · subst hxn
        show (vs.ρ.set x PyVal.none) x = den c x
        rw [set_eq, den_of_outcome c hwf hnn (outcome_inactive c hactD)]
      · show (vs.ρ.set n PyVal.none) x = den c x
        rw [set_ne hxn]
        apply hs.done x
        rcases hx with h | h | h
        · exact Or.inl h
        · exact absurd h hxn
        · exact Or.inr h
    · intro x h1 h2
      simp [Label.fin] at h1; simp [Label.skipped] at h2
      show (vs.ρ.set n PyVal.none) x = c.init x
      rw [set_ne h2.1]; exact hs.rest x h1 h2.2
  | dispatch n k act fl hstep hact =>
    rename_i st'
    have hrun := runnable_of_label hstep (Or.inr rfl)
    have hag := reads_agree c a hwf hr hs hrun
    have hactD : activeOf (den c) (c.recOf n) = .ok true := by rw [← activeOf_congr hag]; exact hact
    have hstep' : Step (cfgD c a) vs.st (.dispatch n k) st' := by
      refine step_congr c a hstep ?_ ?_
      · intro m h
        have : m = n := by rcases h with h | h; cases h; (simp [Label.start] at h; exact h.symm)
        subst this
        have : act m = true := by cases hstep <;> assumption
        rw [this]; exact actD_of c hactD
      · intro m h; rcases h with h | h | ⟨_, _, _, h, _⟩ | ⟨_, _, _, h⟩ <;> cases h
    refine ⟨hstep', ?_, ?_, ?_⟩
    · intro x hx; exact hs.done x (by simpa [Label.fin, Label.skipped] using hx)
    · intro x h1 h2; exact hs.rest x (by simpa [Label.fin] using h1) (by simpa [Label.skipped] using h2)
    · intro x o ho
      by_cases hxn : x = n
      · subst hxn
        simp at ho; rw [← ho]; exact outcome_congr c hag
      · simp [hxn] at ho; exact hs.pend x o ho
  | inline n v act fl hstep hact hout =>
    rename_i st'
    have hrun := runnable_of_label hstep (Or.inr rfl)
    have hag := reads_agree c a hwf hr hs hrun
    have hactD : activeOf (den c) (c.recOf n) = .ok true := by rw [← activeOf_congr hag]; exact hact
    have houtD : outcome c (den c) n = some v := by rw [← outcome_congr c hag]; exact hout
    have hnn : n ∈ c.nodes := ti.inv.gsub n (runnable_sub_graph ti.inv n hrun)
    have hstep' : Step (cfgD c a) vs.st (.inline n) st' := by
      refine step_congr c a hstep ?_ ?_
      · intro m h
        have : m = n := by rcases h with h | h; cases h; (simp [Label.start] at h; exact h.symm)
        subst this
        have : act m = true := by cases hstep; assumption
        rw [this]; exact actD_of c hactD
      · intro m h
        have : m = n := by rcases h with h | h | ⟨_, _, _, h, _⟩ | ⟨_, _, _, h⟩ <;> first | (injection h with h; exact h.symm) | cases h
        subst this
        have : fl m = false := by cases hstep; assumption
        rw [this]; simp [cfgD, failsD, houtD]
    refine ⟨hstep', ?_, ?_, hs.pend⟩
    · intro x hx
      simp [Label.fin, Label.skipped] at hx
      by_cases hxn : x = n
      · subst hxn; show (vs.ρ.set x v) x = den c x; rw [set_eq, den_of_outcome c hwf hnn houtD]
      · show (vs.ρ.set n v) x = den c x
        rw [set_ne hxn]; apply hs.done x
        rcases hx with (h | h) | h
        · exact absurd h hxn
        · exact Or.inl h
        · exact Or.inr h
    · intro x h1 h2
      simp [Label.fin] at h1; simp [Label.skipped] at h2
      show (vs.ρ.set n v) x = c.init x
      rw [set_ne h1.1]; exact hs.rest x h1.2 h2
  | inlineFail n act fl hstep hact hout =>
    rename_i st'
    have hrun := runnable_of_label hstep (Or.inr rfl)
    have hag := reads_agree c a hwf hr hs hrun
    have hactD : activeOf (den c) (c.recOf n) = .ok true := by rw [← activeOf_congr hag]; exact hact
    have houtD : outcome c (den c) n = none := by rw [← outcome_congr c hag]; exact hout
    have hstep' : Step (cfgD c a) vs.st (.inlineFail n) st' := by
      refine step_congr c a hstep ?_ ?_
      · intro m h
        have : m = n := by rcases h with h | h; cases h; (simp [Label.start] at h; exact h.symm)
        subst this
        have : act m = true := by cases hstep; assumption
        rw [this]; exact actD_of c hactD
      · intro m h
        have : m = n := by rcases h with h | h | ⟨_, _, _, h, _⟩ | ⟨_, _, _, h⟩ <;> first | (injection h with h; exact h.symm) | cases h
        subst this
        have : fl m = true := by cases hstep; assumption
        rw [this]; simp [cfgD, failsD, houtD]
    refine ⟨hstep', ?_, ?_, hs.pend⟩
    · intro x hx; exact hs.done x (by simpa [Label.fin, Label.skipped] using hx)
    · intro x h1 h2; exact hs.rest x (by simpa [Label.fin] using h1) (by simpa [Label.skipped] using h2)
  | wait k m D vals act fl hstep hpend =>
    rename_i st'
    have hDfl : ∀ d ∈ D, d ∈ vs.st.flight := by
      intro d hd
      cases hstep with
      | wa_ok _ _ _ _ _ hsub _ _ => exact List.mem_append_right _ (hsub d hd)
      | wc_ok _ _ _ _ _ hsub _ _ => exact List.mem_append_left _ (hsub d hd)
    have houtD : ∀ d ∈ D, outcome c (den c) d = some (vals d) := fun d hd => (hs.pend d _ (hpend d hd)).symm
    have hstep' : Step (cfgD c a) vs.st (.wait k m D) st' := by
      refine step_congr c a hstep ?_ ?_
      · intro n h; rcases h with h | h; cases h; simp [Label.start] at h
      · intro n h
        have hn : n ∈ D := by
          rcases h with h | h | ⟨_, _, _, h, hd⟩ | ⟨_, _, _, h⟩
          · cases h
          · cases h
          · injection h with _ _ h; subst h; exact hd
          · cases h
        have : fl n = false := by
          cases hstep with
          | wa_ok _ _ _ _ _ _ _ hok => exact hok n hn
          | wc_ok _ _ _ _ _ _ _ hok => exact hok n hn
        rw [this]; simp [cfgD, failsD, houtD n hn]
    refine ⟨hstep', ?_, ?_, hs.pend⟩
    · intro x hx
      simp [Label.fin, Label.skipped] at hx
      show setAll vs.ρ vals D x = den c x
      by_cases hxD : x ∈ D
      · rw [setAll_mem vals D _ x hxD]
        have hxn : x ∈ c.nodes := ti.inv.gsub x (flight_sub_graph ti.inv x (hDfl x hxD))
        exact (den_of_outcome c hwf hxn (houtD x hxD)).symm
      · rw [setAll_notin vals D _ x hxD]
        apply hs.done x
        rcases hx with (h | h) | h
        · exact absurd h hxD
        · exact Or.inl h
        · exact Or.inr h
    · intro x h1 h2
      simp [Label.fin] at h1; simp [Label.skipped] at h2
      show setAll vs.ρ vals D x = c.init x
      rw [setAll_notin vals D _ x h1.1]; exact hs.rest x h1.2 h2
  | waitFail k m D d act fl hstep hpend =>
    rename_i st'
    have houtD : outcome c (den c) d = none := (hs.pend d _ hpend).symm
    have hstep' : Step (cfgD c a) vs.st (.waitFail k m D d) st' := by
      refine step_congr c a hstep ?_ ?_
      · intro n h; rcases h with h | h; cases h; simp [Label.start] at h
      · intro n h
        have hn : n = d := by
          rcases h with h | h | ⟨_, _, _, h, _⟩ | ⟨_, _, _, h⟩
          · cases h
          · cases h
          · cases h
          · injection h with _ _ _ h; exact h.symm
        subst hn
        have : fl n = true := by
          cases hstep with
          | wa_err _ _ _ _ _ _ _ _ _ hf => exact hf
          | wc_err _ _ _ _ _ _ _ _ _ hf => exact hf
        rw [this]; simp [cfgD, failsD, houtD]
    refine ⟨hstep', ?_, ?_, hs.pend⟩
    · intro x hx; exact hs.done x (by simpa [Label.fin, Label.skipped] using hx)
    · intro x h1 h2; exact hs.rest x (by simpa [Label.fin] using h1) (by simpa [Label.skipped] using h2)

/-- every value-carrying run is a run of the scheduler LTS under the denotational configuration -/
theorem vrun_sim (c : ECfg V) (a : Attrs) (hwf : WF c) {tr vs} (hv : VRun c a tr vs) :
    Run (cfgD c a) tr vs.st ∧ Sim c tr vs := by
  induction hv with
  | init =>
    refine ⟨Run.init, ?_, ?_, ?_⟩
    · intro n h; simp [fins, skips] at h
    · intro n _ _; rfl
    · intro n o h; simp [vinit] at h
  | step _ hstep ih =>
    have := sim_step c a hwf ih.1 ih.2 hstep
    exact ⟨Run.step ih.1 this.1, this.2⟩

/-- **C01 core** (model level): whatever the schedule, the priorities, the sequential flags, the
    resources and `max_concurrency`, an execution that returns has computed exactly the sequential
    denotation of the table — on every node. -/
theorem C01_core (c : ECfg V) (a : Attrs) (hwf : WF c) {tr vs} (hv : VRun c a tr vs)
    (hd : vs.st.pc = .done) : ∀ n, vs.ρ n = den c n := by
  intro n
  obtain ⟨hr, hs⟩ := vrun_sim c a hwf hv
  have ti := tinv_of_run (cfgD c a) hwf.1 hr
  have hg := done_graph_empty (cfgD c a) hr hd
  by_cases hn : n ∈ c.nodes
  · exact hs.done n ((ti.gone n).2 ⟨hn, by simp [hg]⟩)
  · have h1 : n ∉ fins tr := fun h => hn ((ti.gone n).1 (Or.inl h)).1
    have h2 : n ∉ skips tr := fun h => hn ((ti.gone n).1 (Or.inr h)).1
    rw [hs.rest n h1 h2]; exact (denote_notin c c.nodes c.init n hn).symm

end VM
