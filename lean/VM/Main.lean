import VM.Sim
/-! Prototype: value-carrying runs and the C01 core theorem. -/
namespace VM
open TM
variable {V : Type} [PyVal V]

structure VSt (V : Type) where
  st   : St
  ρ    : Results V
  pend : Node → Option (Option V)     -- in flight: the outcome computed when it was started

def setAll (ρ : Results V) (vals : Node → V) (D : List Node) : Results V :=
  D.foldl (fun ρ d => ρ.set d (vals d)) ρ

theorem setAll_notin (vals : Node → V) : ∀ (D : List Node) (ρ : Results V) (x : Node), x ∉ D → setAll ρ vals D x = ρ x := by
  intro D
  induction D with
  | nil => intro ρ x _; rfl
  | cons d D ih =>
    intro ρ x hx
    simp only [setAll, List.foldl_cons] at *
    rw [ih _ x (fun h => hx (by simp [h])), set_ne (fun h => hx (by simp [h]))]

theorem setAll_mem (vals : Node → V) : ∀ (D : List Node) (ρ : Results V) (x : Node), x ∈ D → setAll ρ vals D x = some (vals x) := by
  intro D
  induction D with
  | nil => intro ρ x hx; simp at hx
  | cons d D ih =>
    intro ρ x hx
    simp only [setAll, List.foldl_cons] at *
    by_cases hxD : x ∈ D
    · exact ih _ x hxD
    · have : x = d := by simp at hx; rcases hx with h | h; exact h; exact absurd h hxD
      subst this
      have := setAll_notin vals D (ρ.set x (vals x)) x hxD
      simp only [setAll] at this
      rw [this, set_eq]

/-- one step of the real thing: the scheduler step, with `active` / `fails` *read off the results map* -/
inductive VStep (c : ECfg V) (a : Attrs) : VSt V → Label → VSt V → Prop
  | silent {vs l st'} (act fl : Node → Bool) : Step (cfgWith c a act fl) vs.st l st' →
      (l = .tau ∨ l = .ret) → VStep c a vs l ⟨st', vs.ρ, vs.pend⟩
  | skip {vs st'} (n : Node) (act fl : Node → Bool) : Step (cfgWith c a act fl) vs.st (.skip n) st' →
      activeOf vs.ρ (c.recOf n) = .ok false →
      VStep c a vs (.skip n) ⟨st', vs.ρ.set n PyVal.none, vs.pend⟩
  | dispatch {vs st'} (n : Node) (k : Kind) (act fl : Node → Bool) :
      Step (cfgWith c a act fl) vs.st (.dispatch n k) st' →
      activeOf vs.ρ (c.recOf n) = .ok true →
      VStep c a vs (.dispatch n k) ⟨st', vs.ρ, fun x => if x = n then some (outcome c vs.ρ n) else vs.pend x⟩
  | inline {vs st'} (n : Node) (v : V) (act fl : Node → Bool) : Step (cfgWith c a act fl) vs.st (.inline n) st' →
      activeOf vs.ρ (c.recOf n) = .ok true → outcome c vs.ρ n = some v →
      VStep c a vs (.inline n) ⟨st', vs.ρ.set n v, vs.pend⟩
  | inlineFail {vs st'} (n : Node) (act fl : Node → Bool) : Step (cfgWith c a act fl) vs.st (.inlineFail n) st' →
      activeOf vs.ρ (c.recOf n) = .ok true → outcome c vs.ρ n = none →
      VStep c a vs (.inlineFail n) ⟨st', vs.ρ, vs.pend⟩
  | wait {vs st'} (k : Kind) (m : Mode) (D : List Node) (vals : Node → V) (act fl : Node → Bool) :
      Step (cfgWith c a act fl) vs.st (.wait k m D) st' →
      (∀ d ∈ D, vs.pend d = some (some (vals d))) →
      VStep c a vs (.wait k m D) ⟨st', setAll vs.ρ vals D, vs.pend⟩
  | waitFail {vs st'} (k : Kind) (m : Mode) (D : List Node) (d : Node) (act fl : Node → Bool) :
      Step (cfgWith c a act fl) vs.st (.waitFail k m D d) st' → vs.pend d = some none →
      VStep c a vs (.waitFail k m D d) ⟨st', vs.ρ, vs.pend⟩

def vinit (c : ECfg V) (a : Attrs) : VSt V := ⟨init (cfgD c a), c.init, fun _ => none⟩

inductive VRun (c : ECfg V) (a : Attrs) : List Label → VSt V → Prop
  | init : VRun c a [] (vinit c a)
  | step {tr vs l vs'} : VRun c a tr vs → VStep c a vs l vs' → VRun c a (l :: tr) vs'

structure Sim (c : ECfg V) (tr : List Label) (vs : VSt V) : Prop where
  done : ∀ n, (n ∈ fins tr ∨ n ∈ skips tr) → vs.ρ n = den c n
  rest : ∀ n, n ∉ fins tr → n ∉ skips tr → vs.ρ n = c.init n
  pend : ∀ n o, vs.pend n = some o → o = outcome c (den c) n

/-- a node about to be picked reads the same values operationally and denotationally -/
theorem reads_agree (c : ECfg V) (a : Attrs) (hwf : WF c) {tr vs} (hr : Run (cfgD c a) tr vs.st)
    (hs : Sim c tr vs) {n : Node} (hn : n ∈ vs.st.runnable) :
    ∀ x ∈ (c.recOf n).refs, vs.ρ x.src = den c x.src := by
  intro x hx
  have ti := tinv_of_run (cfgD c a) hwf.1 hr
  have hroot := ti.inv.rroot n hn
  have hp : x.src ∈ (cfgD c a).preds n := by
    show x.src ∈ ((c.recOf n).refs.map (·.src)); exact List.mem_map.mpr ⟨x, hx, rfl⟩
  by_cases hin : x.src ∈ c.nodes
  · have hg : x.src ∉ vs.st.graph := hroot.2 x.src hp
    exact hs.done x.src ((ti.gone x.src).2 ⟨hin, hg⟩)
  · have h1 : x.src ∉ fins tr := fun h => hin ((ti.gone x.src).1 (Or.inl h)).1
    have h2 : x.src ∉ skips tr := fun h => hin ((ti.gone x.src).1 (Or.inr h)).1
    rw [hs.rest x.src h1 h2]
    exact (denote_notin c c.nodes c.init x.src hin).symm

theorem node_split (l : List Node) (n : Node) (h : n ∈ l) : ∃ a b, l = a ++ n :: b :=
  List.append_of_mem h

end VM
