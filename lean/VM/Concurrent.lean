import VM.Thm
import TM.Seq2
/-! Concurrent awaits of one AsyncDAG in one event loop (C17 b): `k` executions, each working on its
    own private copy of the results (that is what `async_execute` does: `results = copy(results)`),
    interleaved step by step in any order.  Non-interference: the interleaved run projects onto an
    ordinary run of each execution, so `C01_core` applies to every one of them separately. -/
namespace VM
open TM
variable {V : Type} [PyVal V]

/-- one execution: its table/initial results (the arguments are bound in `init`) and its attributes -/
structure Exec (V : Type) where
  c : ECfg V
  a : Attrs

def upd {α : Type} (σ : Nat → α) (i : Nat) (x : α) : Nat → α := fun j => if j = i then x else σ j

/-- the labels of execution `i` inside an interleaved trace (newest first, like all traces) -/
def proj (i : Nat) : List (Nat × Label) → List Label
  | [] => []
  | (j, l) :: tr => if j = i then l :: proj i tr else proj i tr

/-- interleaved runs: every step is a step of exactly one execution and touches only its state -/
inductive PRun (es : Nat → Exec V) : List (Nat × Label) → (Nat → VSt V) → Prop
  | init : PRun es [] (fun i => vinit (es i).c (es i).a)
  | step {tr σ} (i : Nat) {l vs'} : PRun es tr σ → VStep (es i).c (es i).a (σ i) l vs' →
      PRun es ((i, l) :: tr) (upd σ i vs')

/-- **non-interference**: the projection of an interleaved run is a run of the component -/
theorem prun_proj (es : Nat → Exec V) {tr σ} (h : PRun es tr σ) (i : Nat) :
    VRun (es i).c (es i).a (proj i tr) (σ i) := by
  induction h with
  | init => exact VRun.init
  | @step tr σ j l vs' _ hs ih =>
    by_cases hji : j = i
    · subst hji
      simp only [proj, if_true, upd]
      exact VRun.step ih hs
    · have hij : ¬ i = j := fun h => hji h.symm
      simp only [proj, hji, if_false, upd, hij]
      exact ih

/-- **C17 (b)** (model level): whatever the interleaving of the `k` executions, every one that returns
    has computed the sequential denotation of *its own* table and arguments on every node. -/
theorem C17b_concurrent_awaits_isolated (es : Nat → Exec V) {tr σ} (h : PRun es tr σ) (i : Nat)
    (hwf : WF (es i).c) (hd : (σ i).st.pc = .done) : ∀ n, (σ i).ρ n = den (es i).c n :=
  C01_core (es i).c (es i).a hwf (prun_proj es h i) hd

/-- **C05 inside concurrent executions**: in ANY interleaving of several executions (of one DAG or of different ones), the
    next node an execution starts obeys the sequential rule with respect to the nodes in flight OF THAT EXECUTION: none of
    them is sequential, and if the starting node is sequential none is in flight at all.  Nodes of the other executions
    are not constrained (and do overlap). -/
theorem C05_inside_concurrent_executions (es : Nat → Exec V) {tr σ} (h : PRun es tr σ) (i : Nat) (hwf : WF (es i).c)
    {l vs'} (hs : VStep (es i).c (es i).a (σ i) l vs') {n : Node} (hl : l.start = some n) :
    (∀ m ∈ (σ i).st.flight, (es i).a.seq m = false) ∧ ((es i).a.seq n = true → (σ i).st.flight = []) := by
  obtain ⟨hr, hsim⟩ := vrun_sim (es i).c (es i).a hwf (prun_proj es h i)
  have hstep := (sim_step (es i).c (es i).a hwf hr hsim hs).1
  exact TM.C05_sequential_exclusive (cfgD (es i).c (es i).a) hr hstep hl
