import VM.SetupIndep
import VM.Executor
/-! C15, semantic core: **a call after a call returns what a call on a fresh instance returns.**

    The only thing a successful call leaves behind is the values of the setup nodes it ran (`copyBack`).  In a DAG
    whose setup region is reference-closed and holds no parameter (what the build-time validation enforces), those
    values are exactly the values the next call would compute itself (`setup_value_independent_of_arguments`), so
    starting the next call with them precomputed is a seeded restart (`C18_restart_same`): same results on every
    node.  By induction: after ANY history of calls of one selection — successful or failing, with any arguments —
    the next call computes what it computes on the instance the history started from. -/
namespace VM
open TM
variable {V : Type} [PyVal V]

theorem argOf_some_mem : ∀ (ps : List Node) (as : List V) (x : Node) (v : V), argOf ps as x = some v → x ∈ ps := by
  intro ps
  induction ps with
  | nil => intro as x v h; cases as <;> simp [argOf] at h
  | cons p ps ih =>
    intro as x v h
    cases as with
    | nil => simp [argOf] at h
    | cons a as =>
      simp only [argOf] at h
      cases h1 : argOf ps as x with
      | some w => exact List.mem_cons_of_mem _ (ih as x w h1)
      | none =>
        rw [h1] at h
        by_cases hx : x = p
        · subst hx; simp
        · simp [hx] at h

/-- the setup region of a table: `S` contains every setup node, is closed under all references of the selected
    nodes, and contains no parameter -/
structure SetupRegion (i : Inst V) (sel : List Node) (S : Node → Bool) : Prop where
  setup  : ∀ n, i.dag.isSetup n = true → S n = true
  closed : regionClosedB i.dag.recOf sel S = true
  params : ∀ p ∈ i.dag.params, S p = false

theorem copyBack_dag (i : Inst V) (ρ : Results V) : (copyBack i ρ).dag = i.dag := rfl

/-- the configuration of the second call is the first call's own configuration seeded with values it would
    compute itself -/
theorem second_call_cfg (i : Inst V) (sel : List Node) (S : Node → Bool) (hS : SetupRegion i sel S)
    (args1 args2 : List V) :
    let c1 := opCfg i (.call sel args1)
    let c2 := opCfg i (.call sel args2)
    let f : Node → Bool := fun n => decide (n ∈ c2.nodes) && i.dag.isSetup n && (den c1 n).isSome
    opCfg (copyBack i (den c1)) (.call sel args2) = seeded c2 f := by
  intro c1 c2 f
  have hagree : AgreeOn S (den c1) (den c2) := setup_value_independent_of_arguments i sel S hS.closed hS.params args1 args2
  have hinit : ∀ (j : Inst V) (as : List V) (x : Node), j.dag = i.dag →
      bindArgs j.res i.dag.params as x = (match argOf i.dag.params as x with | some v => some v | none => j.res x) :=
    fun j as x _ => bindArgs_eq i.dag.params as j.res x
  have hc2init : ∀ x, c2.init x = (match argOf i.dag.params args2 x with | some v => some v | none => i.res x) :=
    fun x => bindArgs_eq i.dag.params args2 i.res x
  have hc1init : ∀ x, c1.init x = (match argOf i.dag.params args1 x with | some v => some v | none => i.res x) :=
    fun x => bindArgs_eq i.dag.params args1 i.res x
  have hmem2 : ∀ x, x ∈ c2.nodes ↔ x ∈ sel ∧ c2.init x = none := by
    intro x
    show x ∈ sel.filter _ ↔ _
    simp [List.mem_filter, Option.isNone_iff_eq_none]; intro _; rfl
  have hmem1 : ∀ x, x ∈ c1.nodes ↔ x ∈ sel ∧ c1.init x = none := by
    intro x
    show x ∈ sel.filter _ ↔ _
    simp [List.mem_filter, Option.isNone_iff_eq_none]; intro _; rfl
  have hnotparam : ∀ x, i.dag.isSetup x = true → ∀ as : List V, argOf i.dag.params as x = none := by
    intro x hx as
    cases h : argOf i.dag.params as x with
    | none => rfl
    | some v =>
      have := hS.params x (argOf_some_mem _ _ _ _ h)
      rw [hS.setup x hx] at this; cases this
  -- the second call's initial results, pointwise
  have hinit2 : ∀ x, bindArgs (copyBack i (den c1)).res i.dag.params args2 x = (if f x then den c2 x else c2.init x) := by
    intro x
    rw [hinit (copyBack i (den c1)) args2 x rfl, hc2init x]
    cases ha : argOf i.dag.params args2 x with
    | some v =>
      -- a bound parameter: not a setup node, so not seeded
      have hns : i.dag.isSetup x = false := by
        cases h : i.dag.isSetup x with
        | false => rfl
        | true => rw [hnotparam x h args2] at ha; cases ha
      simp [f, hns]
    | none =>
      simp only [copyBack]
      cases hsu : i.dag.isSetup x with
      | false => simp [f, hsu]
      | true =>
        cases hrx : i.res x with
        | some w =>
          -- the instance already held it: not in c2's nodes
          have : x ∉ c2.nodes := by
            intro hx; have := ((hmem2 x).mp hx).2; rw [hc2init x, ha] at this; rw [hrx] at this; cases this
          simp [f, this, hrx]
        | none =>
          simp only [Option.isNone_none, Bool.and_true, if_true]
          cases hd : den c1 x with
          | none => simp [f, hd, hrx]
          | some v =>
            -- entered by the first call: x ∈ sel, hence in c2's nodes, and c2 computes the same value
            have hx1 : x ∈ c1.nodes := by
              apply Classical.byContradiction; intro hx
              have := denote_notin c1 c1.nodes c1.init x hx
              have e : den c1 x = c1.init x := this
              rw [hc1init x, hnotparam x hsu args1, hrx] at e
              rw [hd] at e; cases e
            have hxs : x ∈ sel := ((hmem1 x).mp hx1).1
            have hx2 : x ∈ c2.nodes := (hmem2 x).mpr ⟨hxs, by rw [hc2init x, ha, hrx]⟩
            have : den c2 x = some v := by rw [← hagree x (hS.setup x hsu)]; exact hd
            simp [f, hx2, hsu, hd, this]
  show (⟨sel.filter _, i.dag.recOf, i.dag.interp, _⟩ : ECfg V) = ⟨c2.nodes.filter _, c2.recOf, c2.interp, _⟩
  have hnodes : sel.filter (fun n => (bindArgs (copyBack i (den c1)).res i.dag.params args2 n).isNone)
      = c2.nodes.filter (fun n => !f n) := by
    show _ = (sel.filter _).filter _
    rw [List.filter_filter]
    apply List.filter_congr
    intro x hxs
    rw [hinit2 x]
    cases hf : f x with
    | false =>
      have e : c2.init x = bindArgs i.res i.dag.params args2 x := rfl
      simp [e]
    | true =>
      have hf' := hf
      simp only [f, Bool.and_eq_true, decide_eq_true_eq] at hf'
      obtain ⟨⟨hx2, hsu⟩, hsome⟩ := hf'
      obtain ⟨v, hv⟩ := Option.isSome_iff_exists.mp hsome
      have : den c2 x = some v := by rw [← hagree x (hS.setup x hsu)]; exact hv
      have hi : (bindArgs i.res i.dag.params args2 x) = none := ((hmem2 x).mp hx2).2
      simp [this, hi]
  have hfun : (fun x => bindArgs (copyBack i (den c1)).res i.dag.params args2 x)
      = (fun x => if f x then den c2 x else c2.init x) := funext hinit2
  simp only [copyBack] at hnodes hfun ⊢
  rw [hnodes]
  congr 1

/-- **one step**: whatever the first call did, the second call computes what it would compute without it -/
theorem call_after_call (i : Inst V) (sel : List Node) (S : Node → Bool) (hS : SetupRegion i sel S)
    (hwf : ∀ (j : Inst V) (op : Op V), WF (opCfg j op)) (args1 args2 : List V) (x : Node) :
    den (opCfg (applyOp i (.call sel args1)) (.call sel args2)) x = den (opCfg i (.call sel args2)) x := by
  unfold applyOp
  simp only
  split
  · rename_i hsucc
    rw [second_call_cfg i sel S hS args1 args2]
    have hagree : AgreeOn S (den (opCfg i (.call sel args1))) (den (opCfg i (.call sel args2))) :=
      setup_value_independent_of_arguments i sel S hS.closed hS.params args1 args2
    refine (C18_restart_same _ _ (hwf i _) ?_ ?_).1 x
    · intro n hn
      simp only [Bool.and_eq_true, decide_eq_true_eq] at hn
      exact hn.1.1
    · intro n hn
      simp only [Bool.and_eq_true, decide_eq_true_eq] at hn
      obtain ⟨v, hv⟩ := Option.isSome_iff_exists.mp hn.2
      exact ⟨v, by rw [← hagree n (hS.setup n hn.1.2)]; exact hv⟩
  · rfl

theorem setupRegion_applyOp (i : Inst V) (sel : List Node) (S : Node → Bool) (hS : SetupRegion i sel S) (op : Op V) :
    SetupRegion (applyOp i op) sel S := by
  have hd : (applyOp i op).dag = i.dag := applyOp_dag i op
  exact ⟨by rw [hd]; exact hS.setup, by rw [hd]; exact hS.closed, by rw [hd]; exact hS.params⟩

/-- **C15, semantic form**: after ANY history of calls of one selection on an instance — with any arguments,
    succeeding or failing — the next call of that selection computes, on every node, exactly what it computes on
    the instance the history started from.  In particular, on a freshly built DAG: the k-th call returns what the
    first call with the same arguments would have returned. -/
theorem C15_call_after_history_is_fresh (i : Inst V) (sel : List Node) (S : Node → Bool) (hS : SetupRegion i sel S)
    (hwf : ∀ (j : Inst V) (op : Op V), WF (opCfg j op)) (history : List (List V)) (args : List V) (x : Node) :
    den (opCfg (runHistory i (history.map (Op.call sel))) (.call sel args)) x = den (opCfg i (.call sel args)) x := by
  induction history generalizing i with
  | nil => rfl
  | cons a rest ih =>
    simp only [List.map_cons, runHistory]
    rw [ih (applyOp i (.call sel a)) (setupRegion_applyOp i sel S hS _)]
    exact call_after_call i sel S hS hwf a args x

end VM
