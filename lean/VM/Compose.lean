import VM.Cache
/-! `compose(inputs, outputs)` at the level of tables (C19): the composed DAG is the original table
    with the input nodes turned into parameters (precomputed holders carrying the supplied values)
    and restricted to what the outputs need.  -/
namespace VM
open TM
variable {V : Type} [PyVal V]

def setMany (ρ : Results V) : List Node → List V → Results V
  | n :: ns, v :: vs => setMany (ρ.set n v) ns vs
  | _, _ => ρ

/-- the original pipeline "if the input nodes had produced these values": inputs become precomputed -/
def withInputs (c : ECfg V) (ins : List Node) (vals : List V) : ECfg V :=
  { c with nodes := c.nodes.filter (fun n => !ins.contains n), init := setMany c.init ins vals }

/-- one backward pass over the recording order: what the outputs need, stopping at the inputs -/
def neededPass (c : ECfg V) (ins : List Node) : List Node → List Node → List Node
  | [], acc => acc
  | n :: rest, acc =>
    if acc.contains n && !ins.contains n then
      neededPass c ins rest (acc ++ ((c.recOf n).refs.map (·.src)).filter (fun s => !acc.contains s))
    else neededPass c ins rest acc

def needed (c : ECfg V) (ins outs : List Node) : List Node :=
  neededPass c ins c.nodes.reverse outs

/-- the composed table run on the supplied values -/
def composeCfg (c : ECfg V) (ins outs : List Node) (vals : List V) : ECfg V :=
  let c' := withInputs c ins vals
  { c' with nodes := c'.nodes.filter (fun n => (needed c ins outs).contains n) }

/-- nodes the outputs need that are neither supplied nor computable: original parameters without value -/
def missingInputs (c : ECfg V) (ins outs : List Node) (params : List Node) : List Node :=
  (needed c ins outs).filter (fun n => params.contains n && !ins.contains n && (c.init n).isNone)

/-- an input that (transitively) depends on another input -/
def inputDependsOnInput (c : ECfg V) (ins : List Node) : Bool :=
  ins.any fun i => ins.any fun j => i != j && (needed c [] [i]).contains j

end VM

namespace VM
open TM
variable {V : Type} [PyVal V]

/-! ### restriction to a dependency-closed set keeps the values (C19, and the value part of C12) -/

/-- the table restricted to the nodes satisfying `S` -/
def restrict (c : ECfg V) (S : Node → Bool) : ECfg V := { c with nodes := c.nodes.filter S }

/-- `S` is closed under in-table dependencies (decidable, so a driver can check it on every run) -/
def isClosedB (c : ECfg V) (S : Node → Bool) : Bool :=
  c.nodes.all fun n => !S n || (c.recOf n).refs.all fun r => !c.nodes.contains r.src || S r.src

def Agree (c : ECfg V) (S : Node → Bool) (σ τ : Results V) : Prop :=
  ∀ x, (x ∉ c.nodes ∨ S x = true) → σ x = τ x

theorem outcome_restrict (c : ECfg V) (S : Node → Bool) (ρ : Results V) (n : Node) :
    outcome (restrict c S) ρ n = outcome c ρ n := rfl

theorem denote_restrict (c : ECfg V) (S : Node → Bool) (hcl : isClosedB c S = true) :
    ∀ (rest : List Node), (∀ n ∈ rest, n ∈ c.nodes) → ∀ (σ τ : Results V), Agree c S σ τ →
      Agree c S (denote (restrict c S) (rest.filter S) σ) (denote c rest τ) := by
  intro rest
  induction rest with
  | nil => intro _ σ τ h; simpa [denote] using h
  | cons n rest ih =>
    intro hmem σ τ hag
    have hn : n ∈ c.nodes := hmem n (by simp)
    have hrest : ∀ m ∈ rest, m ∈ c.nodes := fun m hm => hmem m (by simp [hm])
    cases hS : S n with
    | false =>
      simp only [List.filter_cons, hS, Bool.false_eq_true, if_false, denote]
      -- only the full table runs `n`; `n` is outside the agreement domain
      have hag' : ∀ v, Agree c S σ (τ.set n v) := by
        intro v x hx
        have hxn : x ≠ n := by
          rintro rfl
          rcases hx with h | h
          · exact h hn
          · rw [hS] at h; cases h
        rw [set_ne hxn]; exact hag x hx
      cases outcome c τ n with
      | some v => exact ih hrest σ _ (hag' v)
      | none => exact ih hrest σ τ hag
    | true =>
      simp only [List.filter_cons, hS, if_true, denote]
      -- both run `n` and read the same values: its sources are outside the table or inside `S`
      have hsrc : ∀ r ∈ (c.recOf n).refs, σ r.src = τ r.src := by
        intro r hr
        apply hag
        by_cases hin : r.src ∈ c.nodes
        · right
          have := List.all_eq_true.mp hcl n hn
          simp only [hS, Bool.not_true, Bool.false_or, List.all_eq_true] at this
          have h2 := this r hr
          simp only [Bool.or_eq_true, Bool.not_eq_true', List.contains_eq_mem, decide_eq_false_iff_not] at h2
          rcases h2 with h2 | h2
          · exact absurd hin h2
          · exact h2
        · exact Or.inl hin
      have hout : outcome (restrict c S) σ n = outcome c τ n := by
        rw [outcome_restrict]; exact outcome_congr c hsrc
      rw [hout]
      cases outcome c τ n with
      | some v =>
        apply ih hrest
        intro x hx
        by_cases hxn : x = n
        · subst hxn; rw [set_eq, set_eq]
        · rw [set_ne hxn, set_ne hxn]; exact hag x hx
      | none => exact ih hrest σ τ hag

/-- a dependency-closed restriction computes, on the kept nodes (and outside the table), exactly
    what the whole table computes -/
theorem den_restrict (c : ECfg V) (S : Node → Bool) (hcl : isClosedB c S = true) (x : Node)
    (hx : x ∉ c.nodes ∨ S x = true) : den (restrict c S) x = den c x := by
  have := denote_restrict c S hcl c.nodes (fun _ h => h) c.init c.init (fun _ _ => rfl) x hx
  simpa [den, restrict] using this

theorem neededPass_mono (c : ECfg V) (ins : List Node) : ∀ (l acc : List Node) (x : Node),
    x ∈ acc → x ∈ neededPass c ins l acc := by
  intro l
  induction l with
  | nil => intro acc x h; exact h
  | cons n rest ih =>
    intro acc x h
    simp only [neededPass]
    split
    · exact ih _ x (by simp [h])
    · exact ih _ x h

theorem outs_needed (c : ECfg V) (ins outs : List Node) (o : Node) (ho : o ∈ outs) : o ∈ needed c ins outs :=
  neededPass_mono c ins _ outs o ho

/-- **C19** (model level): the composed table — inputs turned into holders of the supplied values,
    restricted to what the outputs need — returns for every output exactly what the original
    pipeline computes "if the input nodes had produced these values".  The closure condition is
    decidable and is checked by the driver on every composed table it evaluates. -/
theorem C19_compose_computes_outputs (c : ECfg V) (ins outs : List Node) (vals : List V)
    (hcl : isClosedB (withInputs c ins vals) (fun n => (needed c ins outs).contains n) = true)
    (o : Node) (ho : o ∈ outs) :
    den (composeCfg c ins outs vals) o = den (withInputs c ins vals) o := by
  have := den_restrict (withInputs c ins vals) (fun n => (needed c ins outs).contains n) hcl o
    (Or.inr (by simpa using outs_needed c ins outs o ho))
  simpa [composeCfg, restrict] using this

/-- the original table is a value: composing is a pure function of it (nothing to prove about state) -/
theorem C19_original_unchanged (c : ECfg V) (ins outs : List Node) (vals : List V) :
    (composeCfg c ins outs vals).recOf = c.recOf ∧ (composeCfg c ins outs vals).interp = c.interp :=
  ⟨rfl, rfl⟩

end VM

namespace VM
open TM
variable {V : Type} [PyVal V]

/-! ### `needed` is dependency-closed (so the closure hypothesis of `C19_compose_computes_outputs` always holds) -/

/-- in the visiting order `l`, no node refers to a node visited before it -/
def Back (c : ECfg V) (l : List Node) : Prop :=
  ∀ pre m post, l = pre ++ m :: post → ∀ r ∈ (c.recOf m).refs, r.src ∉ pre

theorem back_tail {c : ECfg V} {a : Node} {rest : List Node} (h : Back c (a :: rest)) : Back c rest := by
  intro pre m post hs r hr hmem
  exact h (a :: pre) m post (by rw [hs]; rfl) r hr (List.mem_cons_of_mem _ hmem)

/-- whatever the pass adds comes from the references of a visited node that is not an input -/
theorem neededPass_source (c : ECfg V) (ins : List Node) : ∀ (l acc : List Node) (x : Node),
    x ∈ neededPass c ins l acc → x ∈ acc ∨ ∃ m ∈ l, ∃ r ∈ (c.recOf m).refs, r.src = x := by
  intro l
  induction l with
  | nil => intro acc x h; exact Or.inl h
  | cons n rest ih =>
    intro acc x h
    simp only [neededPass] at h
    split at h
    · rcases ih _ x h with h1 | ⟨m, hm, r, hr, hx⟩
      · rcases List.mem_append.mp h1 with h2 | h2
        · exact Or.inl h2
        · obtain ⟨h3, _⟩ := List.mem_filter.mp h2
          obtain ⟨r, hr, hx⟩ := List.mem_map.mp h3
          exact Or.inr ⟨n, by simp, r, hr, hx⟩
      · exact Or.inr ⟨m, by simp [hm], r, hr, hx⟩
    · rcases ih _ x h with h1 | ⟨m, hm, r, hr, hx⟩
      · exact Or.inl h1
      · exact Or.inr ⟨m, by simp [hm], r, hr, hx⟩

theorem neededPass_closed (c : ECfg V) (ins : List Node) : ∀ (l : List Node), Back c l → ∀ (acc : List Node) (n : Node),
    n ∈ l → ins.contains n = false → n ∈ neededPass c ins l acc →
    ∀ r ∈ (c.recOf n).refs, r.src ∈ neededPass c ins l acc := by
  intro l
  induction l with
  | nil => intro _ acc n hn; simp at hn
  | cons a rest ih =>
    intro hb acc n hn hni hres r hr
    rcases List.mem_cons.mp hn with rfl | hn'
    · -- the node being visited: it must already be in `acc`
      have hacc : n ∈ acc := by
        by_cases h : n ∈ acc
        · exact h
        · have hcond : (acc.contains n && !ins.contains n) = false := by simp [h]
          have hres' : n ∈ neededPass c ins rest acc := by
            have := hres; simp only [neededPass, hcond] at this; exact this
          rcases neededPass_source c ins rest acc n hres' with h1 | ⟨m, hm, r', hr', hx⟩
          · exact absurd h1 h
          · obtain ⟨pre, post, hsplit⟩ := List.append_of_mem hm
            have := hb (n :: pre) m post (by rw [hsplit]; rfl) r' hr'
            rw [hx] at this
            exact absurd (by simp) this
      have hni' : n ∉ ins := by simpa using hni
      have hcond : (acc.contains n && !ins.contains n) = true := by simp [hacc, hni']
      simp only [neededPass, hcond, if_true]
      apply neededPass_mono
      by_cases h : r.src ∈ acc
      · exact List.mem_append_left _ h
      · apply List.mem_append_right
        exact List.mem_filter.mpr ⟨List.mem_map.mpr ⟨r, hr, rfl⟩, by simpa using h⟩
    · have hb' := back_tail hb
      simp only [neededPass] at hres ⊢
      split
      · rename_i hc; rw [if_pos hc] at hres; exact ih hb' _ n hn' hni hres r hr
      · rename_i hc; rw [if_neg hc] at hres; exact ih hb' _ n hn' hni hres r hr

theorem back_of_wf (c : ECfg V) (hwf : WF c) : Back c c.nodes.reverse := by
  intro pre m post hs r hr hmem
  have hn : c.nodes = post.reverse ++ m :: pre.reverse := by
    have := congrArg List.reverse hs
    simpa using this
  have hin : r.src ∈ c.nodes := by rw [hn]; simp [hmem]
  have hdone := hwf.2 post.reverse m pre.reverse hn r hr hin
  have hnd := hwf.1
  rw [hn] at hnd
  have hdisj := (List.nodup_append.mp hnd).2.2 r.src hdone r.src (by simp [hmem])
  exact hdisj rfl

/-- the closure hypothesis of `C19_compose_computes_outputs` holds for every well-formed table -/
theorem needed_closed (c : ECfg V) (hwf : WF c) (ins outs : List Node) (vals : List V) :
    isClosedB (withInputs c ins vals) (fun n => (needed c ins outs).contains n) = true := by
  simp only [isClosedB, List.all_eq_true, Bool.or_eq_true, Bool.not_eq_true', List.contains_eq_mem,
    decide_eq_false_iff_not, decide_eq_true_eq]
  intro n hn
  by_cases hnd : n ∈ needed c ins outs
  · right
    intro r hr
    right
    have hn' : n ∈ c.nodes ∧ ins.contains n = false := by
      have : n ∈ c.nodes.filter (fun x => !ins.contains x) := hn
      simpa using List.mem_filter.mp this
    exact neededPass_closed c ins c.nodes.reverse (back_of_wf c hwf) outs n (by simp [hn'.1]) hn'.2 hnd r hr
  · exact Or.inl hnd

/-- **C19** (model level, full): for every well-formed table, the composed table returns for every
    output exactly what the original pipeline computes if the input nodes had produced the supplied values. -/
theorem C19_compose_correct (c : ECfg V) (hwf : WF c) (ins outs : List Node) (vals : List V)
    (o : Node) (ho : o ∈ outs) :
    den (composeCfg c ins outs vals) o = den (withInputs c ins vals) o :=
  C19_compose_computes_outputs c ins outs vals (needed_closed c hwf ins outs vals) o ho

/-- what the composed DAG returns: one value per REQUESTED output, in request order — an output named twice is returned twice -/
def composeReturn (c : ECfg V) (ins outs : List Node) (vals : List V) : List (Option V) :=
  outs.map (den (composeCfg c ins outs vals))

theorem C19_compose_return (c : ECfg V) (hwf : WF c) (ins outs : List Node) (vals : List V) :
    composeReturn c ins outs vals = outs.map (den (withInputs c ins vals)) ∧
    (composeReturn c ins outs vals).length = outs.length := by
  refine ⟨?_, by simp [composeReturn]⟩
  unfold composeReturn
  apply List.map_congr_left
  intro o ho
  exact C19_compose_correct c hwf ins outs vals o ho

end VM
