import VM.Cache
/-! `compose(inputs, outputs)` at the level of tables (C19): the composed DAG is the original table
    with the input nodes turned into parameters (precomputed holders carrying the supplied values)
    and restricted to what the outputs need.  -/
namespace VM
open TM
variable {V : Type} [PyVal V]

def setMany (ρ : Results V) : List Node → List V → Results V
  | n :: ns, v :: vs => setMany (ρ.set n v) ns vs
  | _, _ => ρ

/-- the original pipeline "if the input nodes had produced these values": inputs become precomputed -/
def withInputs (c : ECfg V) (ins : List Node) (vals : List V) : ECfg V :=
  { c with nodes := c.nodes.filter (fun n => !ins.contains n), init := setMany c.init ins vals }

/-- one backward pass over the recording order: what the outputs need, stopping at the inputs -/
def neededPass (c : ECfg V) (ins : List Node) : List Node → List Node → List Node
  | [], acc => acc
  | n :: rest, acc =>
    if acc.contains n && !ins.contains n then
      neededPass c ins rest (acc ++ ((c.recOf n).refs.map (·.src)).filter (fun s => !acc.contains s))
    else neededPass c ins rest acc

def needed (c : ECfg V) (ins outs : List Node) : List Node :=
  neededPass c ins c.nodes.reverse outs

/-- the composed table run on the supplied values -/
def composeCfg (c : ECfg V) (ins outs : List Node) (vals : List V) : ECfg V :=
  let c' := withInputs c ins vals
  { c' with nodes := c'.nodes.filter (fun n => (needed c ins outs).contains n) }

/-- nodes the outputs need that are neither supplied nor computable: original parameters without value -/
def missingInputs (c : ECfg V) (ins outs : List Node) (params : List Node) : List Node :=
  (needed c ins outs).filter (fun n => params.contains n && !ins.contains n && (c.init n).isNone)

/-- an input that (transitively) depends on another input -/
def inputDependsOnInput (c : ECfg V) (ins : List Node) : Bool :=
  ins.any fun i => ins.any fun j => i != j && (needed c [] [i]).contains j

end VM
