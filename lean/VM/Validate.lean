import VM.Fresh
import VM.Corollaries
/-! The build-time validation of dependencies (`LazyExecNode._validate_dependencies`, `DiGraphEx.from_exec_nodes`):

      * a node that is not a debug node must not depend on a debug node;
      * a setup node may depend only on setup nodes and on constants — not on ordinary nodes, not on a DAG argument;

    "depend" = through a positional argument, a keyword argument or the activation flag (`NodeRec.refs`).
    `validateB` is the executable rule (the graph driver evaluates it on every generated description, valid or not, and
    the real constructor must accept exactly the descriptions it accepts).  What the rule buys:

      * `validate_production_closed`  the hypothesis of `C13_debug_nodes_never_influence`;
      * `validate_setup_region`       the hypothesis of `C11_setup_value_independent_of_arguments` and of
                                      `C15_call_after_history_is_fresh`: setup nodes + constants form a region closed
                                      under all references that holds no parameter. -/
namespace VM
open TM
variable {V : Type} [PyVal V]

structure Marks where
  debug   : Node → Bool
  setup   : Node → Bool
  isConst : Node → Bool      -- holder of a constant written in the description (an ArgExecNode that is not a DAG input)

def validNodeB (recOf : Node → NodeRec) (m : Marks) (n : Node) : Bool :=
  (recOf n).refs.all fun r =>
    (m.debug n || !m.debug r.src) && (!m.setup n || m.setup r.src || m.isConst r.src)

/-- the build-time rule on a whole table -/
def validateB (recOf : Node → NodeRec) (nodes : List Node) (m : Marks) : Bool := nodes.all (validNodeB recOf m)

theorem validateB_spec (recOf : Node → NodeRec) (nodes : List Node) (m : Marks) :
    validateB recOf nodes m = true ↔
      ∀ n ∈ nodes, ∀ r ∈ (recOf n).refs,
        (m.debug r.src = true → m.debug n = true) ∧
        (m.setup n = true → m.setup r.src = true ∨ m.isConst r.src = true) := by
  simp only [validateB, validNodeB, List.all_eq_true, Bool.and_eq_true, Bool.or_eq_true, Bool.not_eq_true']
  constructor
  · intro h n hn r hr
    obtain ⟨h1, h2⟩ := h n hn r hr
    refine ⟨?_, ?_⟩
    · intro hd; rcases h1 with h1 | h1
      · exact h1
      · rw [hd] at h1; cases h1
    · intro hs; rcases h2 with (h2 | h2) | h2
      · rw [hs] at h2; cases h2
      · exact Or.inl h2
      · exact Or.inr h2
  · intro h n hn r hr
    obtain ⟨h1, h2⟩ := h n hn r hr
    refine ⟨?_, ?_⟩
    · cases hd : m.debug r.src with
      | false => exact Or.inr rfl
      | true => exact Or.inl (h1 hd)
    · cases hs : m.setup n with
      | false => exact Or.inl (Or.inl rfl)
      | true => rcases h2 hs with h2 | h2
                · exact Or.inl (Or.inr h2)
                · exact Or.inr h2

/-- an accepted table satisfies the hypothesis of `C13_debug_nodes_never_influence`: the production part is closed -/
theorem validate_production_closed (c : ECfg V) (m : Marks) (h : validateB c.recOf c.nodes m = true) :
    isClosedB c (fun n => !m.debug n) = true := by
  rw [validateB_spec] at h
  apply List.all_eq_true.mpr
  intro n hn
  by_cases hd : m.debug n = true
  · simp [hd]
  · have hd' : m.debug n = false := by simpa using hd
    simp only [hd', Bool.not_false, Bool.not_true, Bool.false_or, List.all_eq_true]
    intro r hr
    have := (h n hn r hr).1
    cases hs : m.debug r.src with
    | false => simp
    | true => rw [this hs] at hd'; cases hd'

/-- **debug nodes never influence production results, for every table the constructor accepts** -/
theorem accepted_table_debug_never_influences (c : ECfg V) (m : Marks) (h : validateB c.recOf c.nodes m = true)
    (x : Node) (hx : m.debug x = false) : den (restrict c (fun n => !m.debug n)) x = den c x :=
  C13_debug_nodes_never_influence c m.debug (validate_production_closed c m h) x hx

/-- an accepted table has a setup region: setup nodes and constants, closed under all references -/
theorem validate_setup_region (recOf : Node → NodeRec) (sel nodes : List Node) (m : Marks)
    (h : validateB recOf nodes m = true) (hsel : ∀ n ∈ sel, n ∈ nodes)
    (hconst : ∀ n ∈ sel, m.isConst n = true → (recOf n).refs = []) :
    regionClosedB recOf sel (fun n => m.setup n || m.isConst n) = true := by
  rw [validateB_spec] at h
  apply List.all_eq_true.mpr
  intro n hn
  by_cases hs : m.setup n = true
  · simp only [hs, Bool.true_or, Bool.not_true, Bool.false_or, List.all_eq_true, Bool.or_eq_true]
    intro r hr
    exact (h n (hsel n hn) r hr).2 hs
  · have hs' : m.setup n = false := by simpa using hs
    by_cases hc : m.isConst n = true
    · simp [hconst n hn hc]
    · have hc' : m.isConst n = false := by simpa using hc
      simp [hs', hc']

/-- **C15 for every table the constructor accepts**: with the build rule, parameters that are neither setup nodes nor
    constants, and constants that refer to nothing, a call after any history of calls is a call on a fresh instance. -/
theorem accepted_table_call_after_history_is_fresh (i : Inst V) (sel : List Node) (m : Marks)
    (hsetup : ∀ n, i.dag.isSetup n = m.setup n)
    (hval : validateB i.dag.recOf i.dag.nodes m = true) (hsel : ∀ n ∈ sel, n ∈ i.dag.nodes)
    (hconst : ∀ n ∈ sel, m.isConst n = true → (i.dag.recOf n).refs = [])
    (hpar : ∀ p ∈ i.dag.params, m.setup p = false ∧ m.isConst p = false)
    (hwf : ∀ (j : Inst V) (op : Op V), WF (opCfg j op))
    (history : List (List V)) (args : List V) (x : Node) :
    den (opCfg (runHistory i (history.map (Op.call sel))) (.call sel args)) x = den (opCfg i (.call sel args)) x := by
  apply C15_call_after_history_is_fresh i sel (fun n => m.setup n || m.isConst n) _ hwf
  refine ⟨?_, validate_setup_region i.dag.recOf sel i.dag.nodes m hval hsel hconst, ?_⟩
  · intro n hn; simp [← hsetup n, hn]
  · intro p hp; simp [(hpar p hp).1, (hpar p hp).2]

end VM
