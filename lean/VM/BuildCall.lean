import VM.BuildSound2
namespace VM
open TM
variable {V : Type} [PyVal V]

theorem denote_single (c : ECfg V) (ρ : Results V) (n : Node) (v : V) (h : outcome c ρ n = some v) :
    denote c [n] ρ = ρ.set n v := by
  simp [denote, h]

theorem evalCall_inv (interp : Interp V) (vals : List V) (c : Call V) (v : V)
    (h : evalCall interp vals c = .ok v) :
    ∃ b : Bool, evalActive vals c = .ok b ∧
      (b = false → v = PyVal.none) ∧
      (b = true → ∃ vs kws, c.args.mapM (evalArg vals) = .ok vs ∧ c.kwargs.mapM (kwMap (evalArg vals)) = .ok kws ∧
                  interp c.fn vs kws = .ok v) := by
  unfold evalCall at h
  cases hact : evalActive vals c with
  | error e => rw [hact] at h; cases h
  | ok b =>
    rw [hact] at h
    cases b with
    | false =>
      refine ⟨false, rfl, fun _ => ?_, fun hb => (by cases hb)⟩
      simp only at h; injection h with h; exact h.symm
    | true =>
      refine ⟨true, rfl, fun hb => (by cases hb), fun _ => ?_⟩
      simp only at h
      cases ha : c.args.mapM (evalArg vals) with
      | error e => rw [ha] at h; cases h
      | ok vs =>
        rw [ha] at h; simp only at h
        cases hk : c.kwargs.mapM (kwMap (evalArg vals)) with
        | error e => rw [hk] at h; cases h
        | ok kws => rw [hk] at h; exact ⟨vs, kws, rfl, rfl, h⟩

end VM
