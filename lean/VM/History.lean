import VM.C01
/-! Prototype: a DAG instance as a state machine over operations (C11 / C15 / C18 statements). -/
namespace VM
open TM
variable {V : Type} [PyVal V]

/-- the static part of a built DAG -/
structure Dag (V : Type) where
  nodes   : List Node
  recOf   : Node → NodeRec
  isSetup : Node → Bool
  interp  : Interp V
  params  : List Node               -- parameter holders, in order

/-- an instance: the static table plus the DAG-level results (holders and setup results so far) -/
structure Inst (V : Type) where
  dag : Dag V
  res : Results V

/-- bind positional arguments over the DAG-level results (`extend_results_with_args`: a private copy) -/
def bindArgs (res : Results V) : List Node → List V → Results V
  | p :: ps, a :: as => bindArgs (res.set p a) ps as
  | _, _ => res

/-- the execution configuration of one run: selection `sel`, pruned of everything precomputed -/
def runCfg (i : Inst V) (sel : List Node) (init : Results V) : ECfg V :=
  { nodes := sel.filter (fun n => (init n).isNone), recOf := i.dag.recOf, interp := i.dag.interp, init := init }

/-- nodes whose function is entered in the run (selected, not precomputed, active) -/
def entered (c : ECfg V) : List Node :=
  c.nodes.filter fun n => match activeOf (den c) (c.recOf n) with | .ok true => true | _ => false

def succeeded (c : ECfg V) : Bool := c.nodes.all fun n => (outcome c (den c) n).isSome

/-- copy-back of setup results after a successful run -/
def copyBack (i : Inst V) (ρ : Results V) : Inst V :=
  { i with res := fun n => if i.dag.isSetup n && (i.res n).isNone then ρ n else i.res n }

inductive Op (V : Type) where
  | call (sel : List Node) (args : List V)     -- DAG call (sel = all nodes) or executor run (sel = its selection)
  | setup (sel : List Node)                    -- setup(): sel = setup nodes among the ancestors of the targets

def Op.sel : Op V → List Node | .call s _ => s | .setup s => s

def opCfg (i : Inst V) : Op V → ECfg V
  | .call sel args => runCfg i sel (bindArgs i.res i.dag.params args)
  | .setup sel => runCfg i sel i.res

/-- one operation: the run's configuration, and the instance afterwards (unchanged if the run failed) -/
def applyOp (i : Inst V) (op : Op V) : Inst V :=
  let c := opCfg i op
  if succeeded c then copyBack i (den c) else i

def runHistory (i : Inst V) : List (Op V) → Inst V
  | [] => i
  | op :: rest => runHistory (applyOp i op) rest

/-- the setup-node executions of a history, in order -/
def setupEntries (i : Inst V) : List (Op V) → List Node
  | [] => []
  | op :: rest => (entered (opCfg i op)).filter i.dag.isSetup ++ setupEntries (applyOp i op) rest

/-! ### basic facts -/

theorem applyOp_dag (i : Inst V) (op : Op V) : (applyOp i op).dag = i.dag := by
  unfold applyOp; simp only; split <;> rfl

/-- DAG-level results only ever gain setup results (C15: nothing else leaks into the instance) -/
theorem applyOp_res_nonsetup (i : Inst V) (op : Op V) (n : Node) (h : i.dag.isSetup n = false) :
    (applyOp i op).res n = i.res n := by
  unfold applyOp; simp only
  split
  · simp [copyBack, h]
  · rfl

/-- … and never overwrite one that is already there (C11: the first value is kept) -/
theorem applyOp_res_keep (i : Inst V) (op : Op V) (n : Node) (v : V) (h : i.res n = some v) :
    (applyOp i op).res n = some v := by
  unfold applyOp; simp only
  split
  · simp [copyBack, h]
  · exact h

theorem runHistory_res_nonsetup (ops : List (Op V)) : ∀ (i : Inst V) (n : Node), i.dag.isSetup n = false →
    (runHistory i ops).res n = i.res n := by
  induction ops with
  | nil => intro i n _; rfl
  | cons op rest ih =>
    intro i n h
    simp only [runHistory]
    rw [ih (applyOp i op) n (by rw [applyOp_dag]; exact h), applyOp_res_nonsetup i op n h]

end VM
