import VM.Exec
/-! Prototype: properties of the sequential denotation. -/
namespace VM
open TM
variable {V : Type} [PyVal V]

theorem set_ne {ρ : Results V} {n x : Node} {v : V} (h : x ≠ n) : (ρ.set n v) x = ρ x := by
  simp [Results.set, h]

theorem set_eq {ρ : Results V} {n : Node} {v : V} : (ρ.set n v) n = some v := by
  simp [Results.set]

/-- nodes outside the list are untouched -/
theorem denote_notin (c : ECfg V) : ∀ (l : List Node) (ρ : Results V) (x : Node), x ∉ l → denote c l ρ x = ρ x := by
  intro l
  induction l with
  | nil => intro ρ x _; rfl
  | cons n rest ih =>
    intro ρ x hx
    have hxn : x ≠ n := fun h => hx (by simp [h])
    have hxr : x ∉ rest := fun h => hx (by simp [h])
    simp only [denote]
    cases hO : outcome c ρ n with
    | some v => simp only []; rw [ih _ x hxr, set_ne hxn]
    | none => simp only []; rw [ih _ x hxr]

theorem denote_append (c : ECfg V) : ∀ (l1 l2 : List Node) (ρ : Results V),
    denote c (l1 ++ l2) ρ = denote c l2 (denote c l1 ρ) := by
  intro l1
  induction l1 with
  | nil => intro l2 ρ; rfl
  | cons n rest ih =>
    intro l2 ρ
    simp only [List.cons_append, denote]
    cases hO : outcome c ρ n with
    | some v => simp only []; rw [ih]
    | none => simp only []; rw [ih]

/-- well-formed table: every source a node reads is either outside the execution graph or listed earlier -/
def WF (c : ECfg V) : Prop :=
  c.nodes.Nodup ∧
  ∀ done n rest, c.nodes = done ++ n :: rest → ∀ r ∈ (c.recOf n).refs, r.src ∈ c.nodes → r.src ∈ done

theorem outcome_congr (c : ECfg V) {ρ σ : Results V} {n : Node}
    (h : ∀ x ∈ (c.recOf n).refs, ρ x.src = σ x.src) : outcome c ρ n = outcome c σ n := by
  unfold outcome
  rw [activeOf_congr h, callOf_congr c.interp h]

/-- the value the denotation assigns to a node is its outcome under the *final* denotation -/
theorem den_split (c : ECfg V) (hwf : WF c) (done : List Node) (n : Node) (rest : List Node)
    (hs : c.nodes = done ++ n :: rest) :
    (∀ x ∈ (c.recOf n).refs, denote c done c.init x.src = den c x.src) ∧
    den c n = (match outcome c (den c) n with | some v => some v | none => c.init n) := by
  have hnd := hwf.1
  rw [hs] at hnd
  have hn_done : n ∉ done := fun h => (List.nodup_append.mp hnd).2.2 n h n (by simp) rfl
  have hn_rest : n ∉ rest := (List.nodup_cons.mp (List.nodup_append.mp hnd).2.1).1
  -- sources are stable after `done`
  have hstable : ∀ x ∈ (c.recOf n).refs, denote c done c.init x.src = den c x.src := by
    intro x hx
    unfold den
    rw [hs, denote_append]
    by_cases hin : x.src ∈ c.nodes
    · have hd := hwf.2 done n rest hs x hx hin
      have hnot : x.src ∉ n :: rest := by
        intro h
        exact (List.nodup_append.mp hnd).2.2 x.src hd x.src h rfl
      rw [denote_notin c (n :: rest) _ x.src hnot]
    · have hnot : x.src ∉ n :: rest := fun h => hin (by rw [hs]; simp at h ⊢; exact Or.inr h)
      rw [denote_notin c (n :: rest) _ x.src hnot]
  refine ⟨hstable, ?_⟩
  have hout : outcome c (denote c done c.init) n = outcome c (den c) n := outcome_congr c hstable
  have hden : den c n = (match outcome c (den c) n with
      | some v => denote c rest ((denote c done c.init).set n v)
      | none => denote c rest (denote c done c.init)) n := by
    show denote c c.nodes c.init n = _
    rw [hs, denote_append]
    simp only [denote]
    rw [hout]
    rfl
  rw [hden]
  cases hO : outcome c (den c) n with
  | some v => simp only []; rw [denote_notin c rest _ n hn_rest, set_eq]
  | none => simp only []; rw [denote_notin c rest _ n hn_rest, denote_notin c done _ n hn_done]

end VM
