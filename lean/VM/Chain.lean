import VM.Executor
/-! Checkpoint chains (C18): the caching run may ITSELF be a restart — an execution started from a file `q` that
    checkpoints into a file `p`, possibly the very file it started from (`from_cache = cache_in`) — and a further restart
    starts from what it wrote.  `restart_cfg_eq'` generalises `restart_cfg_eq` from "the caching run starts from the
    instance's own results" to "from any start results a file overlay can produce"; `C18_checkpoint_chain` is the
    round trip for a chain link, `C18_chain_runs_nothing_twice` its reading for plain checkpoints (no `cache_deps_of`
    targets): the next restart enters NO node at all and returns the same results. -/
namespace VM
open TM
variable {V : Type} [PyVal V]

/-- start results a file overlay can produce: they extend the instance's own results, and agree with them on the
    `cache_deps_of` targets of the executor (those are never in a file it wrote) -/
structure StartOK (i : Inst V) (s : XSpec) (σ : Results V) : Prop where
  ext  : ∀ x, σ x = none → i.res x = none
  nonc : ∀ x, s.nonCache x = true → σ x = i.res x

omit [PyVal V] in
theorem startOK_self (i : Inst V) (s : XSpec) : StartOK i s i.res := ⟨fun _ h => h, fun _ _ => rfl⟩

omit [PyVal V] in
/-- an overlay of a file that holds none of the executor's `cache_deps_of` targets -/
theorem startOK_overlay (i : Inst V) (s : XSpec) (f : File V) (hf : ∀ x, s.nonCache x = true → f x = none) :
    StartOK i s (overlay i.res f) := by
  constructor
  · intro x h
    unfold overlay at h
    cases hfx : f x with
    | some v => rw [hfx] at h; cases h
    | none => rw [hfx] at h; exact h
  · intro x hx
    unfold overlay
    rw [hf x hx]

theorem restart_cfg_eq' (i : Inst V) (s : XSpec) (σ : Results V) (args args2 : List V) (hσ : StartOK i s σ)
    (hsucc : succeeded (xCfgOf i s σ args) = true)
    (hwf : WF (xCfgOf i s σ args))
    (hargs : ∀ x, argOf i.dag.params args2 x = argOf i.dag.params args x ∨
                  (argOf i.dag.params args2 x = none ∧ s.nonCache x = false)) :
    let c1 := xCfgOf i s σ args
    xCfgOf (copyBack i (den c1)) s (overlay (copyBack i (den c1)).res (writeFile s (den c1))) args2
      = seeded c1 (reused i s c1) := by
  intro c1
  have hinit1 : ∀ x, c1.init x = (match argOf i.dag.params args x with | some v => some v | none => σ x) :=
    fun x => bindArgs_eq i.dag.params args σ x
  have hmem : ∀ x, x ∈ c1.nodes ↔ x ∈ s.sel ∧ c1.init x = none := by
    intro x
    show x ∈ s.sel.filter _ ↔ _
    simp [List.mem_filter, Option.isNone_iff_eq_none]; intro _; rfl
  have hden_out : ∀ x, x ∉ c1.nodes → den c1 x = c1.init x := fun x hx => denote_notin c1 c1.nodes c1.init x hx
  have hden_in : ∀ x, x ∈ c1.nodes → ∃ v, den c1 x = some v := by
    intro x hx
    have : (outcome c1 (den c1) x).isSome = true := List.all_eq_true.mp hsucc x hx
    obtain ⟨v, hv⟩ := Option.isSome_iff_exists.mp this
    exact ⟨v, den_of_outcome c1 hwf hx hv⟩
  -- when the caching run's initial value of x is none: no argument, nothing in σ, nothing on the instance
  have hnone : ∀ x, c1.init x = none → argOf i.dag.params args x = none ∧ σ x = none ∧ i.res x = none := by
    intro x hi1
    have h := hinit1 x; rw [hi1] at h
    cases ha : argOf i.dag.params args x with
    | some v => rw [ha] at h; cases h
    | none => rw [ha] at h; exact ⟨rfl, h.symm, hσ.ext x h.symm⟩
  have hinit2 : ∀ x, bindArgs (overlay (copyBack i (den c1)).res (writeFile s (den c1))) i.dag.params args2 x
      = (if reused i s c1 x then den c1 x else c1.init x) := by
    intro x
    rw [bindArgs_eq]
    by_cases hx : x ∈ c1.nodes
    · have hi1 : c1.init x = none := ((hmem x).mp hx).2
      obtain ⟨ha1, _, hres⟩ := hnone x hi1
      have ha2 : argOf i.dag.params args2 x = none := by
        rcases hargs x with h | h
        · rw [h, ha1]
        · exact h.1
      rw [ha2]
      simp only [overlay, writeFile, copyBack, reused, hx, decide_true, Bool.true_and, hres, Option.isNone_none, Bool.and_true]
      obtain ⟨v, hv⟩ := hden_in x hx
      cases hnc : s.nonCache x <;> cases hsu : i.dag.isSetup x <;> simp [hv, hi1]
    · have hd : den c1 x = c1.init x := hden_out x hx
      have hr : reused i s c1 x = false := by simp [reused, hx]
      rw [hr]; simp only [Bool.false_eq_true, if_false]
      rcases hargs x with h | h
      · rw [h, hinit1 x]
        cases ha : argOf i.dag.params args x with
        | some v => rfl
        | none =>
          simp only [overlay, writeFile, copyBack]
          have hix : c1.init x = σ x := by rw [hinit1 x, ha]
          rw [hd, hix]
          cases hnc : s.nonCache x with
          | true =>
            have e := hσ.nonc x hnc
            simp only [if_true]
            rw [e]
            cases hsu : i.dag.isSetup x <;> cases hrx : i.res x <;> simp
          | false =>
            simp only [Bool.false_eq_true, if_false]
            cases hsx : σ x with
            | some v => rfl
            | none =>
              have hrx := hσ.ext x hsx
              cases hsu : i.dag.isSetup x <;> simp [hrx]
      · rw [h.1]
        simp only [overlay, writeFile, copyBack, h.2, Bool.false_eq_true, if_false, hd]
        cases hcx : c1.init x with
        | some v => rfl
        | none =>
          simp only []
          obtain ⟨_, _, hrx⟩ := hnone x hcx
          cases hsu : i.dag.isSetup x <;> simp [hrx]
  show (⟨s.sel.filter _, i.dag.recOf, i.dag.interp, _⟩ : ECfg V) = ⟨c1.nodes.filter _, c1.recOf, c1.interp, _⟩
  have hnodes : s.sel.filter (fun n => (bindArgs (overlay (copyBack i (den c1)).res (writeFile s (den c1))) i.dag.params args2 n).isNone)
      = c1.nodes.filter (fun n => !reused i s c1 n) := by
    show _ = (s.sel.filter _).filter _
    rw [List.filter_filter]
    apply List.filter_congr
    intro x hxs
    rw [hinit2 x]
    by_cases hx : x ∈ c1.nodes
    · obtain ⟨v, hv⟩ := hden_in x hx
      have hi1 : c1.init x = none := ((hmem x).mp hx).2
      have : (bindArgs σ i.dag.params args x) = none := hi1
      cases hr : reused i s c1 x <;> simp [hv, hi1, this]
    · have hr : reused i s c1 x = false := by simp [reused, hx]
      have hi1 : c1.init x ≠ none := fun h => hx ((hmem x).mpr ⟨hxs, h⟩)
      have : (bindArgs σ i.dag.params args x) ≠ none := hi1
      have e : c1.init x = bindArgs σ i.dag.params args x := rfl
      simp [hr, e]
  have hinit : (fun x => bindArgs (overlay (copyBack i (den c1)).res (writeFile s (den c1))) i.dag.params args2 x)
      = (fun x => if reused i s c1 x then den c1 x else c1.init x) := funext hinit2
  simp only [copyBack] at hnodes hinit ⊢
  rw [hnodes]
  congr 1

/-- the world after a successful run of a fresh executor that started from `σ` -/
theorem xRun_ok_world (w : World V) (s : XSpec) (σ : Results V) (args : List V) (hstart : xStart w s = some σ)
    (hsucc : succeeded (xCfgOf w.inst s σ args) = true) :
    (xRun w (XObj.fresh s) args).1 =
      { inst := copyBack w.inst (den (xCfgOf w.inst s σ args)),
        files := putFile w.files s.cacheIn (writeFile s (den (xCfgOf w.inst s σ args))) } := by
  unfold xRun
  simp only [XObj.fresh, XObj.used, Bool.or_self, Bool.false_eq_true, if_false, hstart, hsucc, if_true]

/-- **C18, a link of a checkpoint chain.**  An executor that STARTS from a file (`from_cache = q`, start results `σ` = the
    instance's results overlaid with that file) and checkpoints into file `p` — `p = q` allowed: the file it started from is
    overwritten — runs successfully; then a fresh executor of the same selection with `from_cache = p` is called with the
    same arguments, or with fewer (the omitted ones being in the file).  That restart succeeds, returns the very same results
    on every node, and the nodes it enters are `cache_deps_of` targets of the first executor that are not setup nodes. -/
theorem C18_checkpoint_chain (w : World V) (s1 s2 : XSpec) (p : Nat) (σ : Results V) (args args2 : List V)
    (hstart : xStart w s1 = some σ) (hσ : StartOK w.inst s1 σ)
    (hin : s1.cacheIn = some p) (hsel : s2.sel = s1.sel) (hfrom2 : s2.fromCache = some p)
    (hsucc : succeeded (xCfgOf w.inst s1 σ args) = true)
    (hwf : WF (xCfgOf w.inst s1 σ args))
    (hargs : ∀ x, argOf w.inst.dag.params args2 x = argOf w.inst.dag.params args x ∨
                  (argOf w.inst.dag.params args2 x = none ∧ s1.nonCache x = false)) :
    let c1 := xCfgOf w.inst s1 σ args
    let w1 := (xRun w (XObj.fresh s1) args).1
    ∃ ρ2, (xRun w1 (XObj.fresh s2) args2).2.2 = .ok ρ2 ∧
      (∀ x, ρ2 x = den c1 x) ∧
      (∀ n ∈ entered (seeded c1 (reused w.inst s1 c1)), s1.nonCache n = true ∧ w.inst.dag.isSetup n = false) := by
  intro c1 w1
  have hw1 : w1 = { inst := copyBack w.inst (den c1), files := putFile w.files (some p) (writeFile s1 (den c1)) } := by
    show (xRun w (XObj.fresh s1) args).1 = _
    rw [xRun_ok_world w s1 σ args hstart hsucc, hin]
  have hstart2 : xStart w1 s2 = some (overlay (copyBack w.inst (den c1)).res (writeFile s1 (den c1))) := by
    rw [hw1]; simp [xStart, hfrom2, putFile]
  have hcfg : xCfgOf w1.inst s2 (overlay (copyBack w.inst (den c1)).res (writeFile s1 (den c1))) args2
      = seeded c1 (reused w.inst s1 c1) := by
    have h := restart_cfg_eq' w.inst s1 σ args args2 hσ hsucc hwf hargs
    rw [hw1]
    have : xCfgOf (copyBack w.inst (den c1)) s2 (overlay (copyBack w.inst (den c1)).res (writeFile s1 (den c1))) args2
        = xCfgOf (copyBack w.inst (den c1)) s1 (overlay (copyBack w.inst (den c1)).res (writeFile s1 (den c1))) args2 := by
      unfold xCfgOf; rw [hsel]
    rw [this]; exact h
  have hf : ∀ n, reused w.inst s1 c1 n = true → n ∈ c1.nodes := by
    intro n hn; simp only [reused, Bool.and_eq_true, decide_eq_true_eq] at hn; exact hn.1
  have hden_in : ∀ x, x ∈ c1.nodes → ∃ v, den c1 x = some v := by
    intro x hx
    have : (outcome c1 (den c1) x).isSome = true := List.all_eq_true.mp hsucc x hx
    obtain ⟨v, hv⟩ := Option.isSome_iff_exists.mp this
    exact ⟨v, den_of_outcome c1 hwf hx hv⟩
  obtain ⟨hsame, hnodes⟩ := C18_restart_same c1 (reused w.inst s1 c1) hwf hf (fun n hn => hden_in n (hf n hn))
  have hsucc2 : succeeded (seeded c1 (reused w.inst s1 c1)) = true := by
    unfold succeeded
    apply List.all_eq_true.mpr
    intro n hn
    have hn1 : n ∈ c1.nodes := (List.mem_filter.mp hn).1
    have : outcome (seeded c1 (reused w.inst s1 c1)) (den (seeded c1 (reused w.inst s1 c1))) n = outcome c1 (den c1) n := by
      have h0 : outcome (seeded c1 (reused w.inst s1 c1)) (den (seeded c1 (reused w.inst s1 c1))) n
          = outcome c1 (den (seeded c1 (reused w.inst s1 c1))) n := rfl
      rw [h0]; exact outcome_congr c1 (fun x _ => hsame x.src)
    rw [this]; exact List.all_eq_true.mp hsucc n hn1
  refine ⟨den (seeded c1 (reused w.inst s1 c1)), ?_, hsame, ?_⟩
  · unfold xRun
    simp only [XObj.fresh, XObj.used, Bool.or_self, Bool.false_eq_true, if_false, hstart2, hcfg, hsucc2, if_true]
  · intro n hn
    have hn2 := (List.mem_filter.mp hn).1
    have hr := hnodes n hn2
    have hn1 : n ∈ c1.nodes := (List.mem_filter.mp hn2).1
    simp only [reused, hn1, decide_true, Bool.true_and] at hr
    cases hnc : s1.nonCache n <;> cases hsu : w.inst.dag.isSetup n <;> simp [hnc, hsu] at hr ⊢

/-- **C18, plain checkpoints.**  Without `cache_deps_of` targets the restart from the written file enters NO node: what an
    execution restarted from a file computed and was asked to checkpoint — into that same file or another — is never
    executed again. -/
theorem C18_chain_runs_nothing_twice (w : World V) (s1 s2 : XSpec) (p : Nat) (σ : Results V) (args args2 : List V)
    (hstart : xStart w s1 = some σ) (hσ : StartOK w.inst s1 σ) (hplain : ∀ x, s1.nonCache x = false)
    (hin : s1.cacheIn = some p) (hsel : s2.sel = s1.sel) (hfrom2 : s2.fromCache = some p)
    (hsucc : succeeded (xCfgOf w.inst s1 σ args) = true)
    (hwf : WF (xCfgOf w.inst s1 σ args))
    (hargs : ∀ x, argOf w.inst.dag.params args2 x = argOf w.inst.dag.params args x ∨
                  argOf w.inst.dag.params args2 x = none) :
    let c1 := xCfgOf w.inst s1 σ args
    entered (seeded c1 (reused w.inst s1 c1)) = [] := by
  intro c1
  have hargs' : ∀ x, argOf w.inst.dag.params args2 x = argOf w.inst.dag.params args x ∨
      (argOf w.inst.dag.params args2 x = none ∧ s1.nonCache x = false) := by
    intro x; rcases hargs x with h | h
    · exact Or.inl h
    · exact Or.inr ⟨h, hplain x⟩
  obtain ⟨_, _, _, hent⟩ := C18_checkpoint_chain w s1 s2 p σ args args2 hstart hσ hin hsel hfrom2 hsucc hwf hargs'
  apply List.eq_nil_iff_forall_not_mem.mpr
  intro n hn
  have := (hent n hn).1
  rw [hplain n] at this
  cases this

/-- **C18, write-back keeps what was there.**  Whatever the file an execution started from held — and no argument of the
    call overrides — is in the file it writes (unless it is one of its `cache_deps_of` targets): checkpointing into the
    file one started from never loses a cached result. -/
theorem C18_write_back_keeps (w : World V) (s : XSpec) (q : Nat) (f0 : File V) (args : List V)
    (hfrom : s.fromCache = some q) (hfile : w.files q = some f0)
    (x : Node) (v : V) (hx : f0 x = some v) (hnc : s.nonCache x = false) (harg : argOf w.inst.dag.params args x = none) :
    let σ := overlay w.inst.res f0
    xStart w s = some σ ∧ writeFile s (den (xCfgOf w.inst s σ args)) x = some v := by
  intro σ
  refine ⟨by simp [xStart, hfrom, hfile, σ], ?_⟩
  have hinit : (xCfgOf w.inst s σ args).init x = some v := by
    show bindArgs σ w.inst.dag.params args x = some v
    rw [bindArgs_eq, harg]
    simp [σ, overlay, hx]
  have hnot : x ∉ (xCfgOf w.inst s σ args).nodes := by
    intro hmem
    have : ((xCfgOf w.inst s σ args).init x).isNone = true := (List.mem_filter.mp hmem).2
    rw [hinit] at this; cases this
  unfold writeFile
  rw [hnc]
  simp only [Bool.false_eq_true, if_false]
  have hd : den (xCfgOf w.inst s σ args) x = (xCfgOf w.inst s σ args).init x :=
    denote_notin (xCfgOf w.inst s σ args) (xCfgOf w.inst s σ args).nodes (xCfgOf w.inst s σ args).init x hnot
  rw [hd]; exact hinit

/-- **what is in the file is not executed**: whatever executor reads a file (with or without a selection, `cache_deps_of`
    targets, a `cache_in` of its own), a node whose result the file holds is never entered — also when that node is one of the
    executor's own `cache_deps_of` targets. -/
theorem C18_file_entries_are_not_executed (w : World V) (s : XSpec) (q : Nat) (f0 : File V) (args : List V)
    (hfrom : s.fromCache = some q) (hfile : w.files q = some f0) (n : Node) (v : V) (hn : f0 n = some v) :
    xStart w s = some (overlay w.inst.res f0) ∧ n ∉ entered (xCfgOf w.inst s (overlay w.inst.res f0) args) := by
  refine ⟨by simp [xStart, hfrom, hfile], ?_⟩
  intro hmem
  have hnodes : n ∈ (xCfgOf w.inst s (overlay w.inst.res f0) args).nodes := (List.mem_filter.mp hmem).1
  have hnone : ((xCfgOf w.inst s (overlay w.inst.res f0) args).init n).isNone = true := (List.mem_filter.mp hnodes).2
  have hinit : (xCfgOf w.inst s (overlay w.inst.res f0) args).init n
      = (match argOf w.inst.dag.params args n with | some a => some a | none => overlay w.inst.res f0 n) :=
    bindArgs_eq w.inst.dag.params args (overlay w.inst.res f0) n
  rw [hinit] at hnone
  cases ha : argOf w.inst.dag.params args n with
  | some a => rw [ha] at hnone; cases hnone
  | none => rw [ha] at hnone; simp [overlay, hn] at hnone

/-- **an established setup value survives any executor run**: whatever file the executor starts from (a file written by
    ANOTHER instance may hold a different value for the node — it is used during that one run), the instance keeps the
    value it has. -/
theorem xRun_keeps_established (w : World V) (o : XObj) (args : List V) (n : Node) (v : V) (h : w.inst.res n = some v) :
    (xRun w o args).1.inst.res n = some v := by
  unfold xRun
  by_cases hu : o.used = true
  · simp [hu, h]
  · simp only [hu, if_false, Bool.false_eq_true]
    cases xStart w o.spec with
    | none => exact h
    | some start =>
      simp only []
      split
      · simp [copyBack, h]
      · exact h

end VM
