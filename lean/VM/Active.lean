import VM.Thm
/-! Activation (C10) at the level of the denotation and of executions. -/
namespace VM
open TM
variable {V : Type} [PyVal V]

/-- the flag is read through the whole reference: id *and* key path -/
theorem activeOf_reads_full_reference (ρ : Results V) (r : NodeRec) (a : Ref) (h : r.active = some a) :
    activeOf ρ r = (resolve ρ a).map PyVal.truthy := by
  unfold activeOf
  rw [h]
  cases hr : resolve ρ a <;> simp [hr, bind, Except.bind, Except.map, pure, Except.pure]

/-- a node whose flag is falsy is not executed and yields None … -/
theorem C10_inactive_yields_none (c : ECfg V) (hwf : WF c) {n : Node} (hn : n ∈ c.nodes)
    (h : activeOf (den c) (c.recOf n) = .ok false) : den c n = some PyVal.none :=
  den_of_outcome c hwf hn (outcome_inactive c h)

/-- … a node whose flag is truthy (or absent) yields exactly the value of its function on its arguments -/
theorem C10_active_runs (c : ECfg V) (hwf : WF c) {n : Node} (hn : n ∈ c.nodes) {v : V}
    (h : activeOf (den c) (c.recOf n) = .ok true) (hc : callOf c.interp (den c) (c.recOf n) = .ok v) :
    den c n = some v :=
  den_of_outcome c hwf hn (by simp [outcome, h, hc])

/-- in every execution that returns, for every schedule: the result recorded for a deactivated node is
    None (so its dependents, which read the results map, receive None) -/
theorem C10_execution_inactive_none (c : ECfg V) (a : Attrs) (hwf : WF c) {tr vs} (hv : VRun c a tr vs)
    (hd : vs.st.pc = .done) {n : Node} (hn : n ∈ c.nodes)
    (h : activeOf (den c) (c.recOf n) = .ok false) : vs.ρ n = some PyVal.none := by
  rw [C01_core c a hwf hv hd n]; exact C10_inactive_yields_none c hwf hn h

end VM
