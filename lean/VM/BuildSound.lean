import VM.BuildLemmas
namespace VM
open TM
variable {V : Type} [PyVal V]

/-- the environment of references denotes the environment of values, under the results map `ρ` -/
def Sees (st : BState V) (ρ : Results V) (vals : List V) : Prop :=
  st.env.length = vals.length ∧
  ∀ (i : Nat) (r : Ref), st.env[i]? = some r → r.src < st.next ∧ ∃ w v, ρ r.src = some w ∧ vals[i]? = some v ∧ index w r.path = .ok v

/-- `ρ'` agrees with `ρ0` on what existed at `st`, and shows the holders created up to `stF` -/
def Shows (ρ0 ρ' : Results V) (st stF : BState V) : Prop :=
  (∀ x, x < st.next → ρ' x = ρ0 x) ∧ (∀ x, st.next ≤ x → x < stF.next → ρ' x = stF.init x)

theorem traceArg_sound {ρ0 ρ' : Results V} {st0 st stF : BState V} {vals : List V} (a : Arg V) {v : V}
    (hsees : Sees st0 ρ0 vals) (h0 : Ext st0 st) (hF : Ext (traceArg st a).1 stF)
    (hshow : Shows ρ0 ρ' st0 stF) (hev : evalArg vals a = .ok v) :
    resolve ρ' (traceArg st a).2 = .ok v ∧ (traceArg st a).2.src < (traceArg st a).1.next := by
  cases a with
  | const c =>
    simp only [evalArg] at hev
    have hv : c = v := by injection hev
    subst hv
    have hlt : st.next < (traceArg st (.const c)).1.next := Nat.lt_succ_self _
    refine ⟨?_, hlt⟩
    have h1 : ρ' st.next = stF.init st.next :=
      hshow.2 st.next h0.next (Nat.lt_of_lt_of_le hlt hF.next)
    have h2 : stF.init st.next = some c := by
      rw [hF.below st.next hlt]; show (st.init.set st.next c) st.next = some c; exact set_eq
    show resolve ρ' ⟨st.next, []⟩ = .ok c
    simp [resolve, h1, h2, index]
    rfl
  | var i path =>
    simp only [evalArg] at hev
    have henv : st.env = st0.env := h0.env
    cases hvi : vals[i]? with
    | none => simp [hvi] at hev
    | some u =>
      simp only [hvi] at hev
      have hil : i < st0.env.length := by
        rw [hsees.1]; exact (List.getElem?_eq_some_iff.mp hvi).1
      obtain ⟨r0, hr0⟩ : ∃ r0, st0.env[i]? = some r0 := ⟨st0.env[i], List.getElem?_eq_getElem hil⟩
      obtain ⟨hlt, w, v', hw, hv', hidx⟩ := hsees.2 i r0 hr0
      have huv : u = v' := by rw [hvi] at hv'; injection hv'
      subst huv
      have htr : traceArg st (.var i path) = (st, ⟨r0.src, r0.path ++ path⟩) := by
        simp only [traceArg, henv, hr0]
      rw [htr]
      refine ⟨?_, Nat.lt_of_lt_of_le hlt h0.next⟩
      have : ρ' r0.src = some w := by rw [hshow.1 r0.src hlt]; exact hw
      simp only [resolve, this, index_append, hidx]
      exact hev

theorem traceArgs_sound {ρ0 ρ' : Results V} {st0 : BState V} {vals : List V} (hsees : Sees st0 ρ0 vals) :
    ∀ (l : List (Arg V)) (st stF : BState V) (vs : List V), Ext st0 st → Ext (traceArgs st l).1 stF →
      Shows ρ0 ρ' st0 stF → l.mapM (evalArg vals) = .ok vs →
      (traceArgs st l).2.mapM (resolve ρ') = .ok vs ∧ ∀ r ∈ (traceArgs st l).2, r.src < (traceArgs st l).1.next := by
  intro l
  induction l with
  | nil =>
    intro st stF vs _ _ _ hev
    simp only [List.mapM_nil] at hev
    have : vs = [] := by injection hev with h; exact h.symm
    subst this
    exact ⟨rfl, by intro r hr; simp [traceArgs] at hr⟩
  | cons a rest ih =>
    intro st stF vs h0 hF hshow hev
    simp only [List.mapM_cons] at hev
    cases ha : evalArg vals a with
    | error e => simp [ha] at hev; cases hev
    | ok v =>
      cases hr : rest.mapM (evalArg vals) with
      | error e => simp [ha, hr] at hev; cases hev
      | ok vs' =>
        simp [ha, hr] at hev
        have hvs : vs = v :: vs' := by injection hev with h; exact h.symm
        subst hvs
        simp only [traceArgs]
        have hext1 := traceArg_ext st a
        have hext2 := traceArgs_ext rest (traceArg st a).1
        have hFa : Ext (traceArg st a).1 stF := hext2.trans hF
        have h1 := traceArg_sound a hsees h0 hFa hshow ha
        have h2 := ih (traceArg st a).1 stF vs' (h0.trans hext1) hF hshow hr
        refine ⟨?_, ?_⟩
        · simp only [List.mapM_cons, h1.1, h2.1]; rfl
        · intro r hr'
          rcases List.mem_cons.mp hr' with rfl | hr'
          · exact Nat.lt_of_lt_of_le h1.2 hext2.next
          · exact h2.2 r hr'

end VM
