import VM.BuildGood
namespace VM
open TM
variable {V : Type} [PyVal V]

theorem traceActive_sound {ρ0 ρ' : Results V} {st0 st2 stF : BState V} {vals : List V} (c : Call V) {b : Bool}
    (hsees : Sees st0 ρ0 vals) (h0 : Ext st0 st2) (hF : Ext (traceActive st2 c).1 stF)
    (hshow : Shows ρ0 ρ' st0 stF) (hev : evalActive vals c = .ok b) (r : NodeRec)
    (hr : r.active = (traceActive st2 c).2) : activeOf ρ' r = .ok b := by
  unfold evalActive at hev
  unfold traceActive at hr hF
  cases hact : c.active with
  | none =>
    simp only [hact] at hev hr
    have : b = true := by injection hev with h; exact h.symm
    subst this
    simp [activeOf, hr]
  | some a =>
    simp only [hact] at hev hr hF
    cases hu : evalArg vals a with
    | error e => rw [hu] at hev; cases hev
    | ok u =>
      rw [hu] at hev
      have hb : PyVal.truthy u = b := by injection hev
      have := traceArg_sound a hsees h0 hF hshow hu
      simp only [activeOf, hr, this.1]
      show (do let v ← Except.ok u; pure (PyVal.truthy v)) = Except.ok b
      rw [← hb]; rfl

theorem env_lt_of_good {interp : Interp V} {st : BState V} {vals : List V} (hg : Good interp st vals) :
    ∀ r ∈ st.env, r.src < st.next := by
  intro r hr
  obtain ⟨i, hi, rfl⟩ := List.getElem_of_mem hr
  exact (hg.sees.2 i _ (List.getElem?_eq_getElem hi)).1

/-- **one traced call preserves the tracer invariant** -/
theorem traceCall_good (interp : Interp V) {st : BState V} {vals : List V} (c : Call V) {v : V}
    (hg : Good interp st vals) (hev : evalCall interp vals c = .ok v) :
    Good interp (traceCall st c) (vals ++ [v]) := by
  unfold traceCall
  have e1 := traceArgs_ext c.args st
  have e2 := traceKwargs_ext c.kwargs (traceArgs st c.args).1
  have e3 := traceActive_ext (traceKwargs (traceArgs st c.args).1 c.kwargs).1 c
  have henv0 := env_lt_of_good hg
  have henv1 := env_lt_of_ext e1 henv0
  have henv2 := env_lt_of_ext e2 henv1
  apply good_extend interp hg ((e1.trans e2).trans e3)
  · -- every reference of the new record points below the new index
    intro x hx
    simp only [NodeRec.refs, List.mem_append, List.mem_map] at hx
    rcases hx with (hx | ⟨p, hp, rfl⟩) | hx
    · exact Nat.lt_of_lt_of_le (traceArgs_lt c.args st henv0 x hx) (e2.trans e3).next
    · exact Nat.lt_of_lt_of_le (traceKwargs_lt c.kwargs _ henv1 p hp) e3.next
    · unfold traceActive at hx ⊢
      cases hact : c.active with
      | none => simp [hact] at hx
      | some a =>
        simp only [hact] at hx ⊢
        simp at hx; subst hx
        exact traceArg_lt _ a henv2
  · -- its outcome, under any results map that shows the state, is what plain evaluation computed
    intro ρ1 hshow
    obtain ⟨b, hb, hbF, hbT⟩ := evalCall_inv interp vals c v hev
    have hact := traceActive_sound (ρ' := ρ1) c hg.sees (e1.trans e2) (Ext.refl _) hshow hb
      { fn := c.fn, args := (traceArgs st c.args).2,
        kwargs := (traceKwargs (traceArgs st c.args).1 c.kwargs).2,
        active := (traceActive (traceKwargs (traceArgs st c.args).1 c.kwargs).1 c).2 } rfl
    unfold outcomeRec
    rw [hact]
    cases b with
    | false => simp only; rw [hbF rfl]
    | true =>
      obtain ⟨vs, kws, hvs, hkws, hint⟩ := hbT rfl
      have h1 := (traceArgs_sound (ρ' := ρ1) hg.sees c.args st _ vs (Ext.refl st) (e2.trans e3) hshow hvs).1
      have h2 := (traceKwargs_sound (ρ' := ρ1) hg.sees c.kwargs (traceArgs st c.args).1 _ kws e1 e3 hshow hkws).1
      simp only [callOf, h1, h2]
      show (match (do let args ← Except.ok vs; let kws' ← Except.ok kws; interp c.fn args kws') with
            | .ok v => some v | .error _ => none) = some v
      show (match interp c.fn vs kws with | .ok v => some v | .error _ => none) = some v
      rw [hint]

/-- the whole body -/
theorem traceBody_good (interp : Interp V) : ∀ (body : List (Call V)) (st : BState V) (vals valsF : List V),
    Good interp st vals → evalBody interp body vals = .ok valsF → Good interp (traceBody st body) valsF := by
  intro body
  induction body with
  | nil =>
    intro st vals valsF hg hev
    simp only [evalBody] at hev
    have : vals = valsF := by injection hev
    subst this; exact hg
  | cons c rest ih =>
    intro st vals valsF hg hev
    simp only [evalBody] at hev
    cases hc : evalCall interp vals c with
    | error e => rw [hc] at hev; cases hev
    | ok v =>
      rw [hc] at hev
      exact ih (traceCall st c) (vals ++ [v]) valsF (traceCall_good interp c hg hc) hev

theorem pairwise_lt_nodup {l : List Node} (h : l.Pairwise (· < ·)) : l.Nodup :=
  h.imp (fun hab => Nat.ne_of_lt hab)

/-- a tracer state that satisfies the invariant gives a well-formed execution configuration -/
theorem wf_of_good {interp : Interp V} {st : BState V} {vals : List V} (hg : Good interp st vals) :
    WF (st.cfg interp) := by
  refine ⟨pairwise_lt_nodup hg.sorted, ?_⟩
  intro done n rest hs r hr hin
  have hs' : st.nodes = done ++ n :: rest := hs
  have hlt : r.src < n := hg.rlt n (by rw [hs']; simp) r hr
  have hin' : r.src ∈ done ++ n :: rest := by rw [← hs']; exact hin
  rcases List.mem_append.mp hin' with h | h
  · exact h
  · -- everything from n on is ≥ n
    have hsorted := hg.sorted
    rw [hs', List.pairwise_append] at hsorted
    rcases List.mem_cons.mp h with h | h
    · exact absurd h (Nat.ne_of_lt hlt)
    · have := (List.pairwise_cons.mp hsorted.2.1).1 r.src h
      exact absurd hlt (Nat.lt_asymm this)

end VM
