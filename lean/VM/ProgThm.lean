import VM.ProgLemmas
/-! Correctness of the tracer on nested programs (C20, and C01 beyond the flat fragment):
    for programs in which no *nested call* carries an activation flag, tracing preserves the invariant
    `Good` — every variable's reference denotes, under the sequential denotation of the table built so
    far, exactly the value plain evaluation gave it.  (Flags on plain calls — also inside callees —,
    `unpack_to`, defaults, argument stubs, arbitrary nesting depth are covered.  A flag on a nested call
    is where the code departs from the inlining semantics: the two known findings.) -/
namespace VM
open TM
variable {V : Type} [PyVal V]

def Stmt.noDagFlag : Stmt V → Prop
  | .dag _ _ act => act = none
  | .call _ _ => True

def NoDagFlags (defs : List (Def V)) : Prop := ∀ d ∈ defs, ∀ s ∈ d.body, Stmt.noDagFlag s

theorem traceStmts_good (interp : Interp V) (defs : List (Def V)) (hnf : NoDagFlags defs) :
    ∀ (fuel : Nat) (stmts : List (Stmt V)) (st : BState V) (vals valsF : List V) (st' : BState V),
      (∀ s ∈ stmts, Stmt.noDagFlag s) →
      Good (withIdent interp) st vals →
      evalStmts (withIdent interp) defs fuel stmts vals = .ok valsF →
      traceStmts defs fuel st none stmts = .ok st' →
      Good (withIdent interp) st' valsF ∧ Grows (withIdent interp) st st'
  | _, [], st, vals, valsF, st', _, hg, hev, htr => by
    simp only [evalStmts] at hev
    simp only [traceStmts] at htr
    have h1 : vals = valsF := by injection hev
    have h2 : st = st' := by injection htr
    subst h1; subst h2
    exact ⟨hg, Grows.refl _ _⟩
  | fuel, .call c none :: rest, st, vals, valsF, st', hnd, hg, hev, htr => by
    simp only [evalStmts] at hev
    simp only [traceStmts, traceCallWith] at htr
    cases hc : evalCall (withIdent interp) vals c with
    | error e => simp [hc] at hev
    | ok v =>
      simp only [hc] at hev
      have hg1 := traceCall_good (withIdent interp) c hg hc
      have hgr1 := traceCall_grows (withIdent interp) c hg hc
      obtain ⟨hg2, hgr2⟩ := traceStmts_good interp defs hnf fuel rest (traceCall st c) (vals ++ [v]) valsF st'
        (fun s hs => hnd s (by simp [hs])) hg1 hev htr
      exact ⟨hg2, hgr1.trans hgr2⟩
  | fuel, .call c (some k) :: rest, st, vals, valsF, st', hnd, hg, hev, htr => by
    simp only [evalStmts] at hev
    simp only [traceStmts, traceCallWith] at htr
    cases hc : evalCall (withIdent interp) vals c with
    | error e => simp [hc] at hev
    | ok v =>
      simp only [hc] at hev
      cases hu : unpackVals v k with
      | error e => simp [hu] at hev
      | ok comps =>
        simp only [hu] at hev
        have hg1 := traceCall_good (withIdent interp) c hg hc
        have hgr1 := traceCall_grows (withIdent interp) c hg hc
        have hg1' := good_rebind hg1 hu
        have hgr1' := rebind_grows (withIdent interp) (traceCall st c) k
        obtain ⟨hg2, hgr2⟩ := traceStmts_good interp defs hnf fuel rest (rebindUnpack (traceCall st c) k)
          (vals ++ comps) valsF st' (fun s hs => hnd s (by simp [hs])) hg1' hev htr
        exact ⟨hg2, (hgr1.trans hgr1').trans hgr2⟩
  | 0, .dag _ _ _ :: _, _, _, _, _, _, _, hev, _ => by
    simp [evalStmts] at hev
  | fuel+1, .dag j args act :: rest, st, vals, valsF, st', hnd, hg, hev, htr => by
    have hact : act = none := hnd (.dag j args act) (by simp)
    subst hact
    simp only [evalStmts] at hev
    simp only [traceStmts, nestedFlag] at htr
    cases hd : defs[j]? with
    | none => simp [hd] at hev
    | some d =>
      simp only [hd, evalFlag] at hev htr
      have hdmem : d ∈ defs := List.mem_of_getElem? hd
      cases hvs : args.mapM (evalArg vals) with
      | error e => simp [hvs] at hev
      | ok vs =>
        simp only [hvs] at hev
        cases hbp : bindParams d.params vs with
        | error e => simp [hbp] at hev
        | ok penv =>
          simp only [hbp] at hev
          cases hin : evalStmts (withIdent interp) defs fuel d.body penv with
          | error e => simp [hin] at hev
          | ok ienv =>
            simp only [hin] at hev
            cases hos : d.ret.comps.mapM (evalArg ienv) with
            | error e => simp [hos] at hev
            | ok outs =>
              simp only [hos] at hev
              -- the tracer side
              cases hbr : bindParamRefs (traceArgs st args).1 none d.params (traceArgs st args).2 with
              | error e => simp [hbr] at htr
              | ok p2 =>
                simp only [hbr] at htr
                cases hbody : traceStmts defs fuel { p2.1 with env := p2.2 } none d.body with
                | error e => simp [hbody] at htr
                | ok st3 =>
                  simp only [hbody] at htr
                  -- 1. arguments
                  have e1 := traceArgs_ext args st
                  have hg1 := good_of_ext hg e1
                  have hgr1 := grows_of_ext hg e1
                  have hsa := traceArgs_sees (ρ' := den ((traceArgs st args).1.cfg (withIdent interp))) hg.sees args st
                    (traceArgs st args).1 vs (Ext.refl st) (Ext.refl _) (shows_den hg e1) hvs
                  -- 2. parameters
                  obtain ⟨hg2, hgr2, henv2, hsp⟩ := bindParamRefs_good interp d.params (traceArgs st args).1 vals
                    (traceArgs st args).2 vs penv p2.1 p2.2 hg1 hsa hbp (by rw [hbr])
                  have hg2' : Good (withIdent interp) ({ p2.1 with env := p2.2 } : BState V) penv :=
                    good_setEnv hg2 p2.2 hsp
                  -- 3. the callee's body (smaller fuel)
                  obtain ⟨hg3, hgr3⟩ := traceStmts_good interp defs hnf fuel d.body _ penv ienv st3
                    (hnf d hdmem) hg2' hin hbody
                  have hgr23 : Grows (withIdent interp) p2.1 st3 := ⟨hgr3.next, hgr3.den⟩
                  -- 4. the callee's outputs
                  have e4 := traceArgs_ext d.ret.comps st3
                  have hg4 := good_of_ext hg3 e4
                  have hgr4 := grows_of_ext hg3 e4
                  have hso := traceArgs_sees (ρ' := den ((traceArgs st3 d.ret.comps).1.cfg (withIdent interp))) hg3.sees
                    d.ret.comps st3 (traceArgs st3 d.ret.comps).1 outs (Ext.refl st3) (Ext.refl _) (shows_den hg3 e4) hos
                  -- 5. back in the caller's environment
                  have hsouter := sees_grows hg2.sees (hgr23.trans hgr4)
                  have hsees5 := sees_append hsouter hso
                  have hg5 : Good (withIdent interp)
                      ({ (traceArgs st3 d.ret.comps).1 with env := p2.1.env ++ (traceArgs st3 d.ret.comps).2 } : BState V)
                      (vals ++ outs) := good_setEnv hg4 _ hsees5
                  obtain ⟨hg6, hgr6⟩ := traceStmts_good interp defs hnf (fuel+1) rest _ (vals ++ outs) valsF st'
                    (fun s hs => hnd s (by simp [hs])) hg5 hev htr
                  refine ⟨hg6, ?_⟩
                  have hgr05 : Grows (withIdent interp) st
                      ({ (traceArgs st3 d.ret.comps).1 with env := p2.1.env ++ (traceArgs st3 d.ret.comps).2 } : BState V) := by
                    have := ((hgr1.trans hgr2).trans hgr23).trans hgr4
                    exact ⟨this.next, this.den⟩
                  exact hgr05.trans hgr6
termination_by fuel stmts => (fuel, stmts.length)

end VM

namespace VM
open TM
variable {V : Type} [PyVal V]

/-- **C20 / C01 for nested programs** (model level).  Module of DAG definitions in which no nested call
    carries an activation flag; definition `i` called with `args`.  If plain sequential evaluation —
    ordinary function-call semantics for nested calls, arguments overriding defaults, omitted parameters
    taking their defaults, `unpack_to`, flags on plain calls — succeeds with return components `outs`,
    then in EVERY execution of the traced DAG that returns (any priorities / sequential flags /
    resources `a`, any `max_concurrency`, any completion order: all inside `VRun`) the k-th return
    reference resolves to exactly the k-th plain component.  No bound on nesting depth or sizes. -/
theorem C20_nested_inlining (interp : Interp V) (defs : List (Def V)) (hnf : NoDagFlags defs) (i : Nat)
    (args outs : List V) (hev : evalTopComps (withIdent interp) defs i args = .ok outs)
    (st : BState V) (refs : List Ref) (htr : traceTopComps defs i args = .ok (st, refs))
    (a : Attrs) {tr : List Label} {vs : VSt V}
    (hrun : VRun (st.cfg (withIdent interp)) a tr vs) (hdone : vs.st.pc = .done) :
    refs.length = outs.length ∧
    ∀ (k : Nat) (r : Ref), refs[k]? = some r → ∃ v, outs[k]? = some v ∧ resolve vs.ρ r = .ok v := by
  unfold evalTopComps at hev
  unfold traceTopComps at htr
  cases hd : defs[i]? with
  | none => simp [hd] at hev
  | some d =>
    simp only [hd] at hev htr
    have hdmem : d ∈ defs := List.mem_of_getElem? hd
    cases hbp : bindParams d.params args with
    | error e => simp [hbp] at hev
    | ok penv =>
      simp only [hbp] at hev htr
      cases hin : evalStmts (withIdent interp) defs defs.length d.body penv with
      | error e => simp [hin] at hev
      | ok env =>
        simp only [hin] at hev
        cases hb : traceStmts defs defs.length (initState penv) none d.body with
        | error e => simp [hb] at htr
        | ok st3 =>
          simp only [hb] at htr
          have hpair : traceArgs st3 d.ret.comps = (st, refs) := by injection htr
          obtain ⟨hg3, _⟩ := traceStmts_good interp defs hnf defs.length d.body (initState penv) penv env st3
            (hnf d hdmem) (good_init _ penv) hin hb
          have e4 := traceArgs_ext d.ret.comps st3
          have hg4 := good_of_ext hg3 e4
          have hso := traceArgs_sees (ρ' := den ((traceArgs st3 d.ret.comps).1.cfg (withIdent interp))) hg3.sees
            d.ret.comps st3 (traceArgs st3 d.ret.comps).1 outs (Ext.refl st3) (Ext.refl _) (shows_den hg3 e4) hev
          rw [hpair] at hso hg4
          have hwf := wf_of_good hg4
          have hρ := C01_core _ a hwf hrun hdone
          refine ⟨hso.1, ?_⟩
          intro k r hk
          obtain ⟨_, w, v, hw, hv, hidx⟩ := hso.2 k r hk
          refine ⟨v, hv, ?_⟩
          simp only [resolve, hρ r.src, hw]
          exact hidx

end VM
