import VM.Build
namespace VM
open TM
variable {V : Type} [PyVal V]

theorem index_append (w : V) (p1 p2 : List Key) :
    index w (p1 ++ p2) = (index w p1 >>= fun u => index u p2) := by
  unfold index
  rw [List.foldlM_append]

/-- `denote` only depends on the records of the listed nodes and on the results below a bound that
    covers everything those nodes read -/
theorem denote_congr (c c' : ECfg V) (B : Nat) (hi : c.interp = c'.interp) :
    ∀ (l : List Node) (ρ ρ' : Results V),
      (∀ n ∈ l, c.recOf n = c'.recOf n) → (∀ n ∈ l, n < B) →
      (∀ n ∈ l, ∀ x ∈ (c.recOf n).refs, x.src < B) →
      (∀ x, x < B → ρ x = ρ' x) →
      ∀ x, x < B → denote c l ρ x = denote c' l ρ' x := by
  intro l
  induction l with
  | nil => intro ρ ρ' _ _ _ h x hx; exact h x hx
  | cons n rest ih =>
    intro ρ ρ' hrec hlt hrefs hρ x hx
    have hout : outcome c ρ n = outcome c' ρ' n := by
      have h1 : outcome c ρ n = outcome c ρ' n :=
        outcome_congr c (fun r hr => hρ r.src (hrefs n (by simp) r hr))
      rw [h1]
      unfold outcome
      rw [hrec n (by simp), hi]
    simp only [denote]
    rw [hout]
    cases hO : outcome c' ρ' n with
    | some v =>
      simp only []
      apply ih _ _ (fun m hm => hrec m (by simp [hm])) (fun m hm => hlt m (by simp [hm]))
        (fun m hm => hrefs m (by simp [hm])) _ x hx
      intro y hy
      by_cases hyn : y = n
      · subst hyn; rw [set_eq, set_eq]
      · rw [set_ne hyn, set_ne hyn]; exact hρ y hy
    | none =>
      simp only []
      exact ih _ _ (fun m hm => hrec m (by simp [hm])) (fun m hm => hlt m (by simp [hm]))
        (fun m hm => hrefs m (by simp [hm])) hρ x hx

/-! ### what tracing arguments does to the state -/

/-- `st'` extends `st` by fresh constant holders only -/
structure Ext (st st' : BState V) : Prop where
  next  : st.next ≤ st'.next
  nodes : st'.nodes = st.nodes
  recOf : st'.recOf = st.recOf
  env   : st'.env = st.env
  below : ∀ x, x < st.next → st'.init x = st.init x
  above : (∀ x, st.next ≤ x → st.init x = none) → ∀ x, st'.next ≤ x → st'.init x = none

theorem Ext.refl (st : BState V) : Ext st st := ⟨Nat.le_refl _, rfl, rfl, rfl, fun _ _ => rfl, fun h => h⟩

theorem Ext.trans {a b c : BState V} (h1 : Ext a b) (h2 : Ext b c) : Ext a c :=
  ⟨Nat.le_trans h1.next h2.next, by rw [h2.nodes, h1.nodes], by rw [h2.recOf, h1.recOf], by rw [h2.env, h1.env],
   fun x hx => by rw [h2.below x (Nat.lt_of_lt_of_le hx h1.next), h1.below x hx],
   fun h => h2.above (h1.above h)⟩

theorem traceArg_ext (st : BState V) (a : Arg V) : Ext st (traceArg st a).1 := by
  cases a with
  | const v =>
    refine ⟨Nat.le_succ _, rfl, rfl, rfl, ?_, ?_⟩
    · intro x hx; show (st.init.set st.next v) x = st.init x; exact set_ne (Nat.ne_of_lt hx)
    · intro h x hx
      show (st.init.set st.next v) x = none
      have hlt : st.next < x := hx
      rw [set_ne (Nat.ne_of_gt hlt)]; exact h x (Nat.le_of_lt hlt)
  | var i path =>
    simp only [traceArg]
    split
    · exact Ext.refl st
    · refine ⟨Nat.le_succ _, rfl, rfl, rfl, fun _ _ => rfl, ?_⟩
      intro h x hx
      have hlt : st.next < x := hx
      exact h x (Nat.le_of_lt hlt)

theorem traceArgs_ext : ∀ (l : List (Arg V)) (st : BState V), Ext st (traceArgs st l).1 := by
  intro l
  induction l with
  | nil => intro st; exact Ext.refl st
  | cons a rest ih =>
    intro st
    simp only [traceArgs]
    exact (traceArg_ext st a).trans (ih _)

theorem traceKwargs_ext : ∀ (l : List (String × Arg V)) (st : BState V), Ext st (traceKwargs st l).1 := by
  intro l
  induction l with
  | nil => intro st; exact Ext.refl st
  | cons p rest ih =>
    intro st
    obtain ⟨k, a⟩ := p
    simp only [traceKwargs]
    exact (traceArg_ext st a).trans (ih _)

theorem traceActive_ext (st : BState V) (c : Call V) : Ext st (traceActive st c).1 := by
  unfold traceActive
  cases c.active with
  | none => exact Ext.refl st
  | some a => exact traceArg_ext st a

/-- structural bound: every reference produced by tracing points below the resulting `next` -/
theorem traceArg_lt (st : BState V) (a : Arg V) (henv : ∀ r ∈ st.env, r.src < st.next) :
    (traceArg st a).2.src < (traceArg st a).1.next := by
  cases a with
  | const v => exact Nat.lt_succ_self _
  | var i path =>
    simp only [traceArg]
    split
    · rename_i r0 hr0; exact henv r0 (List.mem_of_getElem? hr0)
    · exact Nat.lt_succ_self _

theorem env_lt_of_ext {st st' : BState V} (h : Ext st st') (henv : ∀ r ∈ st.env, r.src < st.next) :
    ∀ r ∈ st'.env, r.src < st'.next := by
  intro r hr; rw [h.env] at hr; exact Nat.lt_of_lt_of_le (henv r hr) h.next

theorem traceArgs_lt : ∀ (l : List (Arg V)) (st : BState V), (∀ r ∈ st.env, r.src < st.next) →
    ∀ r ∈ (traceArgs st l).2, r.src < (traceArgs st l).1.next := by
  intro l
  induction l with
  | nil => intro st _ r hr; simp [traceArgs] at hr
  | cons a rest ih =>
    intro st henv r hr
    simp only [traceArgs] at hr ⊢
    have hext2 := traceArgs_ext rest (traceArg st a).1
    rcases List.mem_cons.mp hr with rfl | hr
    · exact Nat.lt_of_lt_of_le (traceArg_lt st a henv) hext2.next
    · exact ih _ (env_lt_of_ext (traceArg_ext st a) henv) r hr

theorem traceKwargs_lt : ∀ (l : List (String × Arg V)) (st : BState V), (∀ r ∈ st.env, r.src < st.next) →
    ∀ p ∈ (traceKwargs st l).2, p.2.src < (traceKwargs st l).1.next := by
  intro l
  induction l with
  | nil => intro st _ r hr; simp [traceKwargs] at hr
  | cons q rest ih =>
    intro st henv p hp
    obtain ⟨k, a⟩ := q
    simp only [traceKwargs] at hp ⊢
    have hext2 := traceKwargs_ext rest (traceArg st a).1
    rcases List.mem_cons.mp hp with rfl | hp
    · exact Nat.lt_of_lt_of_le (traceArg_lt st a henv) hext2.next
    · exact ih _ (env_lt_of_ext (traceArg_ext st a) henv) p hp

end VM
