import VM.Den
/-! Prototype: value-carrying runs simulate runs of the scheduler LTS under the *denotational*
    activeness / failure functions, and compute the sequential denotation. (Core of C01.) -/
namespace VM
open TM
variable {V : Type} [PyVal V]

structure Attrs where
  cp : Node → Int
  seq : Node → Bool
  res : Node → Res
  maxc : Nat

def cfgWith (c : ECfg V) (a : Attrs) (act fl : Node → Bool) : Cfg :=
  { nodes := c.nodes, preds := fun n => (c.recOf n).refs.map (·.src), cp := a.cp, seq := a.seq,
    res := a.res, active := act, fails := fl, maxc := a.maxc }

def actD (c : ECfg V) (n : Node) : Bool :=
  match activeOf (den c) (c.recOf n) with | .ok b => b | .error _ => true
def failsD (c : ECfg V) (n : Node) : Bool := (outcome c (den c) n).isNone
def cfgD (c : ECfg V) (a : Attrs) : Cfg := cfgWith c a (actD c) (failsD c)

/-- a step only consults `active` / `fails` at the nodes its label mentions -/
theorem step_congr (c : ECfg V) (a : Attrs) {act fl act' fl' : Node → Bool} {s l s'}
    (h : Step (cfgWith c a act fl) s l s')
    (hact : ∀ n, (l = .skip n ∨ l.start = some n) → act' n = act n)
    (hfl : ∀ n, (l = .inline n ∨ l = .inlineFail n ∨ (∃ k m D, l = .wait k m D ∧ n ∈ D) ∨
                 (∃ k m D, l = .waitFail k m D n)) → fl' n = fl n) :
    Step (cfgWith c a act' fl') s l s' := by
  cases h with
  | top_done h1 h2 => exact Step.top_done h1 h2
  | top_block h1 h2 h3 => exact Step.top_block h1 h2 h3
  | top_pick h1 h2 h3 => exact Step.top_pick h1 h2 h3
  | wa_skip hw h1 h2 => exact Step.wa_skip hw h1 h2
  | wa_ok D hw h1 h2 h3 h4 h5 h6 =>
    exact Step.wa_ok (cfg := cfgWith c a act' fl') D hw h1 h2 h3 h4 h5
      (fun d hd => by rw [← h6 d hd]; exact hfl d (Or.inr (Or.inr (Or.inl ⟨_, _, _, rfl, hd⟩))))
  | wa_err D d hw h1 h2 h3 h4 h5 h6 h7 =>
    exact Step.wa_err (cfg := cfgWith c a act' fl') D d hw h1 h2 h3 h4 h5 h6
      (by rw [← h7]; exact hfl d (Or.inr (Or.inr (Or.inr ⟨_, _, _, rfl⟩))))
  | wc_skip hw h1 h2 => exact Step.wc_skip hw h1 h2
  | wc_ok D hw h1 h2 h3 h4 h5 h6 =>
    exact Step.wc_ok (cfg := cfgWith c a act' fl') D hw h1 h2 h3 h4 h5
      (fun d hd => by rw [← h6 d hd]; exact hfl d (Or.inr (Or.inr (Or.inl ⟨_, _, _, rfl, hd⟩))))
  | wc_err D d hw h1 h2 h3 h4 h5 h6 h7 =>
    exact Step.wc_err (cfg := cfgWith c a act' fl') D d hw h1 h2 h3 h4 h5 h6
      (by rw [← h7]; exact hfl d (Or.inr (Or.inr (Or.inr ⟨_, _, _, rfl⟩))))
  | pick_none h1 h2 => exact Step.pick_none h1 h2
  | pick_seqwait n h1 h2 h3 h4 => exact Step.pick_seqwait (cfg := cfgWith c a act' fl') n h1 h2 h3 h4
  | pick_skip n h1 h2 h3 h4 =>
    exact Step.pick_skip (cfg := cfgWith c a act' fl') n h1 h2 h3 (by rw [← h4]; exact hact n (Or.inl rfl))
  | pick_thread n h1 h2 h3 h4 h5 =>
    exact Step.pick_thread (cfg := cfgWith c a act' fl') n h1 h2 h3 (by rw [← h4]; exact hact n (Or.inr rfl)) h5
  | pick_async n h1 h2 h3 h4 h5 =>
    exact Step.pick_async (cfg := cfgWith c a act' fl') n h1 h2 h3 (by rw [← h4]; exact hact n (Or.inr rfl)) h5
  | pick_main_ok n h1 h2 h3 h4 h5 h6 =>
    exact Step.pick_main_ok (cfg := cfgWith c a act' fl') n h1 h2 h3 (by rw [← h4]; exact hact n (Or.inr rfl)) h5
      (by rw [← h6]; exact hfl n (Or.inl rfl))
  | pick_main_err n h1 h2 h3 h4 h5 h6 =>
    exact Step.pick_main_err (cfg := cfgWith c a act' fl') n h1 h2 h3 (by rw [← h4]; exact hact n (Or.inr rfl)) h5
      (by rw [← h6]; exact hfl n (Or.inr (Or.inl rfl)))

end VM
