import VM.Prog
/-! Lemmas for the correctness of the tracer on nested programs (`traceStmts`): growth of the table
    keeps earlier denotations; environments can be swapped; unpacking; parameter binding. -/
namespace VM
open TM
variable {V : Type} [PyVal V]

theorem cfg_setEnv (st : BState V) (e : List Ref) (interp : Interp V) :
    ({ st with env := e } : BState V).cfg interp = st.cfg interp := rfl

/-- the state grew: later table, same denotation on everything that existed before -/
structure Grows (interp : Interp V) (st st' : BState V) : Prop where
  next : st.next ≤ st'.next
  den  : ∀ x, x < st.next → den (st'.cfg interp) x = den (st.cfg interp) x

theorem Grows.refl (interp : Interp V) (st : BState V) : Grows interp st st := ⟨Nat.le_refl _, fun _ _ => rfl⟩

theorem Grows.trans {interp : Interp V} {a b c : BState V} (h1 : Grows interp a b) (h2 : Grows interp b c) :
    Grows interp a c :=
  ⟨Nat.le_trans h1.next h2.next, fun x hx => by rw [h2.den x (Nat.lt_of_lt_of_le hx h1.next), h1.den x hx]⟩

theorem grows_setEnv (interp : Interp V) (st : BState V) (e : List Ref) :
    Grows interp st { st with env := e } := ⟨Nat.le_refl _, fun _ _ => rfl⟩

theorem grows_setEnv' (interp : Interp V) (st : BState V) (e : List Ref) :
    Grows interp { st with env := e } st := ⟨Nat.le_refl _, fun _ _ => rfl⟩

/-- adding holders above `next` changes nothing below -/
theorem grows_of_ext {interp : Interp V} {st st' : BState V} {vals : List V} (hg : Good interp st vals)
    (h : Ext st st') : Grows interp st st' := by
  refine ⟨h.next, ?_⟩
  intro x hx
  show denote (st'.cfg interp) st'.nodes st'.init x = denote (st.cfg interp) st.nodes st.init x
  rw [h.nodes]
  apply denote_congr (st'.cfg interp) (st.cfg interp) st.next rfl st.nodes st'.init st.init
  · intro n _; show st'.recOf n = st.recOf n; rw [h.recOf]
  · exact hg.nlt
  · intro n hn y hy
    have hy' : y ∈ (st.recOf n).refs := by
      have : y ∈ (st'.recOf n).refs := hy
      rwa [h.recOf] at this
    exact Nat.lt_trans (hg.rlt n hn y hy') (hg.nlt n hn)
  · intro y hy; exact h.below y hy
  · exact hx

/-- the denotation side of `good_extend`: the new table agrees with the old one below the old `next`,
    and gives the new node the value `v` -/
theorem good_extend_den (interp : Interp V) {st st3 : BState V} {vals : List V} (hg : Good interp st vals)
    (hext : Ext st st3) (r : NodeRec) (v : V)
    (hout : ∀ ρ1, Shows (den (st.cfg interp)) ρ1 st st3 → outcomeRec interp ρ1 r = some v) :
    (∀ x, x < st.next → den ((extend st3 r).cfg interp) x = den (st.cfg interp) x) ∧
    den ((extend st3 r).cfg interp) st3.next = some v := by
  let n := st3.next
  let c0 := st.cfg interp
  let c4 := (extend st3 r).cfg interp
  have hn_ge : st.next ≤ n := hext.next
  have hrec_old : ∀ m ∈ st.nodes, c4.recOf m = c0.recOf m := by
    intro m hm
    have : m ≠ n := Nat.ne_of_lt (Nat.lt_of_lt_of_le (hg.nlt m hm) hn_ge)
    show (if m = n then r else st3.recOf m) = st.recOf m
    rw [if_neg this, hext.recOf]
  have hrec_n : c4.recOf n = r := by show (if n = n then r else st3.recOf n) = r; simp
  let ρ0 := den c0
  let ρ1 := denote c4 st.nodes st3.init
  have hA : ∀ x, x < st.next → ρ1 x = ρ0 x := by
    intro x hx
    apply denote_congr c4 c0 st.next rfl st.nodes st3.init st.init hrec_old hg.nlt
    · intro m hm y hy
      rw [hrec_old m hm] at hy
      exact Nat.lt_trans (hg.rlt m hm y hy) (hg.nlt m hm)
    · intro y hy; exact hext.below y hy
    · exact hx
  have hB : ∀ x, st.next ≤ x → ρ1 x = st3.init x := by
    intro x hx
    apply denote_notin
    intro hmem; exact absurd (hg.nlt x hmem) (Nat.not_lt.mpr hx)
  have hshow : Shows ρ0 ρ1 st st3 := ⟨hA, fun x hx _ => hB x hx⟩
  have houtn : outcome c4 ρ1 n = some v := by rw [outcome_eq, hrec_n]; exact hout ρ1 hshow
  have hden4 : den c4 = ρ1.set n v := by
    show denote c4 (st3.nodes ++ [n]) st3.init = _
    rw [hext.nodes, denote_append]
    exact denote_single c4 ρ1 n v houtn
  refine ⟨?_, ?_⟩
  · intro x hx
    show den c4 x = ρ0 x
    rw [hden4, set_ne (Nat.ne_of_lt (Nat.lt_of_lt_of_le hx hn_ge)), hA x hx]
  · show den c4 n = some v
    rw [hden4, set_eq]

theorem extend_next (st : BState V) (r : NodeRec) : (extend st r).next = st.next + 1 := rfl

/-- swapping the environment for one that is seen under the same table keeps the invariant -/
theorem good_setEnv {interp : Interp V} {st : BState V} {vals vals' : List V} (hg : Good interp st vals)
    (e : List Ref) (hs : Sees ({ st with env := e } : BState V) (den (st.cfg interp)) vals') :
    Good interp ({ st with env := e } : BState V) vals' :=
  ⟨hg.fresh, hg.nlt, hg.rlt, hg.sorted, hg.ninit, hs⟩

/-- an environment seen at `st` is still seen after the table grew -/
theorem sees_grows {interp : Interp V} {st st' : BState V} {vals : List V}
    (hs : Sees st (den (st.cfg interp)) vals) (hgr : Grows interp st st') :
    Sees ({ st' with env := st.env } : BState V) (den (st'.cfg interp)) vals := by
  refine ⟨hs.1, ?_⟩
  intro i r hi
  obtain ⟨hlt, w, v, hw, hv, hidx⟩ := hs.2 i r hi
  exact ⟨Nat.lt_of_lt_of_le hlt hgr.next, w, v, by rw [hgr.den r.src hlt]; exact hw, hv, hidx⟩

/-- concatenation of two seen environments -/
theorem sees_append {st : BState V} {ρ : Results V} {e1 e2 : List Ref} {v1 v2 : List V}
    (h1 : Sees ({ st with env := e1 } : BState V) ρ v1) (h2 : Sees ({ st with env := e2 } : BState V) ρ v2) :
    Sees ({ st with env := e1 ++ e2 } : BState V) ρ (v1 ++ v2) := by
  refine ⟨by show (e1 ++ e2).length = (v1 ++ v2).length; simp [show e1.length = v1.length from h1.1, show e2.length = v2.length from h2.1], ?_⟩
  intro i r hi
  have hi' : (e1 ++ e2)[i]? = some r := hi
  have hl1 : e1.length = v1.length := h1.1
  by_cases hlt : i < e1.length
  · rw [List.getElem?_append_left hlt] at hi'
    obtain ⟨a, w, v, hw, hv, hidx⟩ := h1.2 i r hi'
    exact ⟨a, w, v, hw, by rw [List.getElem?_append_left (by rw [← hl1]; exact hlt)]; exact hv, hidx⟩
  · have hge : e1.length ≤ i := Nat.le_of_not_lt hlt
    rw [List.getElem?_append_right hge] at hi'
    obtain ⟨a, w, v, hw, hv, hidx⟩ := h2.2 (i - e1.length) r hi'
    exact ⟨a, w, v, hw, by rw [List.getElem?_append_right (by rw [← hl1]; exact hge), ← hl1]; exact hv, hidx⟩

end VM
