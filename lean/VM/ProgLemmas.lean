import VM.Prog
/-! Lemmas for the correctness of the tracer on nested programs (`traceStmts`): growth of the table
    keeps earlier denotations; environments can be swapped; unpacking; parameter binding. -/
namespace VM
open TM
variable {V : Type} [PyVal V]

theorem cfg_setEnv (st : BState V) (e : List Ref) (interp : Interp V) :
    ({ st with env := e } : BState V).cfg interp = st.cfg interp := rfl

/-- the state grew: later table, same denotation on everything that existed before -/
structure Grows (interp : Interp V) (st st' : BState V) : Prop where
  next : st.next ≤ st'.next
  den  : ∀ x, x < st.next → den (st'.cfg interp) x = den (st.cfg interp) x

theorem Grows.refl (interp : Interp V) (st : BState V) : Grows interp st st := ⟨Nat.le_refl _, fun _ _ => rfl⟩

theorem Grows.trans {interp : Interp V} {a b c : BState V} (h1 : Grows interp a b) (h2 : Grows interp b c) :
    Grows interp a c :=
  ⟨Nat.le_trans h1.next h2.next, fun x hx => by rw [h2.den x (Nat.lt_of_lt_of_le hx h1.next), h1.den x hx]⟩

theorem grows_setEnv (interp : Interp V) (st : BState V) (e : List Ref) :
    Grows interp st { st with env := e } := ⟨Nat.le_refl _, fun _ _ => rfl⟩

theorem grows_setEnv' (interp : Interp V) (st : BState V) (e : List Ref) :
    Grows interp { st with env := e } st := ⟨Nat.le_refl _, fun _ _ => rfl⟩

/-- adding holders above `next` changes nothing below -/
theorem grows_of_ext {interp : Interp V} {st st' : BState V} {vals : List V} (hg : Good interp st vals)
    (h : Ext st st') : Grows interp st st' := by
  refine ⟨h.next, ?_⟩
  intro x hx
  show denote (st'.cfg interp) st'.nodes st'.init x = denote (st.cfg interp) st.nodes st.init x
  rw [h.nodes]
  apply denote_congr (st'.cfg interp) (st.cfg interp) st.next rfl st.nodes st'.init st.init
  · intro n _; show st'.recOf n = st.recOf n; rw [h.recOf]
  · exact hg.nlt
  · intro n hn y hy
    have hy' : y ∈ (st.recOf n).refs := by
      have : y ∈ (st'.recOf n).refs := hy
      rwa [h.recOf] at this
    exact Nat.lt_trans (hg.rlt n hn y hy') (hg.nlt n hn)
  · intro y hy; exact h.below y hy
  · exact hx

/-- the denotation side of `good_extend`: the new table agrees with the old one below the old `next`,
    and gives the new node the value `v` -/
theorem good_extend_den (interp : Interp V) {st st3 : BState V} {vals : List V} (hg : Good interp st vals)
    (hext : Ext st st3) (r : NodeRec) (v : V)
    (hout : ∀ ρ1, Shows (den (st.cfg interp)) ρ1 st st3 → outcomeRec interp ρ1 r = some v) :
    (∀ x, x < st.next → den ((extend st3 r).cfg interp) x = den (st.cfg interp) x) ∧
    den ((extend st3 r).cfg interp) st3.next = some v := by
  let n := st3.next
  let c0 := st.cfg interp
  let c4 := (extend st3 r).cfg interp
  have hn_ge : st.next ≤ n := hext.next
  have hrec_old : ∀ m ∈ st.nodes, c4.recOf m = c0.recOf m := by
    intro m hm
    have : m ≠ n := Nat.ne_of_lt (Nat.lt_of_lt_of_le (hg.nlt m hm) hn_ge)
    show (if m = n then r else st3.recOf m) = st.recOf m
    rw [if_neg this, hext.recOf]
  have hrec_n : c4.recOf n = r := by show (if n = n then r else st3.recOf n) = r; simp
  let ρ0 := den c0
  let ρ1 := denote c4 st.nodes st3.init
  have hA : ∀ x, x < st.next → ρ1 x = ρ0 x := by
    intro x hx
    apply denote_congr c4 c0 st.next rfl st.nodes st3.init st.init hrec_old hg.nlt
    · intro m hm y hy
      rw [hrec_old m hm] at hy
      exact Nat.lt_trans (hg.rlt m hm y hy) (hg.nlt m hm)
    · intro y hy; exact hext.below y hy
    · exact hx
  have hB : ∀ x, st.next ≤ x → ρ1 x = st3.init x := by
    intro x hx
    apply denote_notin
    intro hmem; exact absurd (hg.nlt x hmem) (Nat.not_lt.mpr hx)
  have hshow : Shows ρ0 ρ1 st st3 := ⟨hA, fun x hx _ => hB x hx⟩
  have houtn : outcome c4 ρ1 n = some v := by rw [outcome_eq, hrec_n]; exact hout ρ1 hshow
  have hden4 : den c4 = ρ1.set n v := by
    show denote c4 (st3.nodes ++ [n]) st3.init = _
    rw [hext.nodes, denote_append]
    exact denote_single c4 ρ1 n v houtn
  refine ⟨?_, ?_⟩
  · intro x hx
    show den c4 x = ρ0 x
    rw [hden4, set_ne (Nat.ne_of_lt (Nat.lt_of_lt_of_le hx hn_ge)), hA x hx]
  · show den c4 n = some v
    rw [hden4, set_eq]

theorem extend_next (st : BState V) (r : NodeRec) : (extend st r).next = st.next + 1 := rfl

/-- swapping the environment for one that is seen under the same table keeps the invariant -/
theorem good_setEnv {interp : Interp V} {st : BState V} {vals vals' : List V} (hg : Good interp st vals)
    (e : List Ref) (hs : Sees ({ st with env := e } : BState V) (den (st.cfg interp)) vals') :
    Good interp ({ st with env := e } : BState V) vals' :=
  ⟨hg.fresh, hg.nlt, hg.rlt, hg.sorted, hg.ninit, hg.norec, hs⟩

/-- an environment seen at `st` is still seen after the table grew -/
theorem sees_grows {interp : Interp V} {st st' : BState V} {vals : List V}
    (hs : Sees st (den (st.cfg interp)) vals) (hgr : Grows interp st st') :
    Sees ({ st' with env := st.env } : BState V) (den (st'.cfg interp)) vals := by
  refine ⟨hs.1, ?_⟩
  intro i r hi
  obtain ⟨hlt, w, v, hw, hv, hidx⟩ := hs.2 i r hi
  exact ⟨Nat.lt_of_lt_of_le hlt hgr.next, w, v, by rw [hgr.den r.src hlt]; exact hw, hv, hidx⟩

/-- concatenation of two seen environments -/
theorem sees_append {st : BState V} {ρ : Results V} {e1 e2 : List Ref} {v1 v2 : List V}
    (h1 : Sees ({ st with env := e1 } : BState V) ρ v1) (h2 : Sees ({ st with env := e2 } : BState V) ρ v2) :
    Sees ({ st with env := e1 ++ e2 } : BState V) ρ (v1 ++ v2) := by
  refine ⟨by show (e1 ++ e2).length = (v1 ++ v2).length; simp [show e1.length = v1.length from h1.1, show e2.length = v2.length from h2.1], ?_⟩
  intro i r hi
  have hi' : (e1 ++ e2)[i]? = some r := hi
  have hl1 : e1.length = v1.length := h1.1
  by_cases hlt : i < e1.length
  · rw [List.getElem?_append_left hlt] at hi'
    obtain ⟨a, w, v, hw, hv, hidx⟩ := h1.2 i r hi'
    exact ⟨a, w, v, hw, by rw [List.getElem?_append_left (by rw [← hl1]; exact hlt)]; exact hv, hidx⟩
  · have hge : e1.length ≤ i := Nat.le_of_not_lt hlt
    rw [List.getElem?_append_right hge] at hi'
    obtain ⟨a, w, v, hw, hv, hidx⟩ := h2.2 (i - e1.length) r hi'
    exact ⟨a, w, v, hw, by rw [List.getElem?_append_right (by rw [← hl1]; exact hge), ← hl1]; exact hv, hidx⟩

end VM

namespace VM
open TM
variable {V : Type} [PyVal V]

/-- the reference produced for an argument has a value under `ρ'` and indexes to the plain value -/
theorem traceArg_sees {ρ0 ρ' : Results V} {st0 st stF : BState V} {vals : List V} (a : Arg V) {v : V}
    (hsees : Sees st0 ρ0 vals) (h0 : Ext st0 st) (hF : Ext (traceArg st a).1 stF)
    (hshow : Shows ρ0 ρ' st0 stF) (hev : evalArg vals a = .ok v) :
    (traceArg st a).2.src < (traceArg st a).1.next ∧
    ∃ w, ρ' (traceArg st a).2.src = some w ∧ index w (traceArg st a).2.path = .ok v := by
  cases a with
  | const c =>
    simp only [evalArg] at hev
    have hv : c = v := by injection hev
    subst hv
    have hlt : st.next < (traceArg st (.const c)).1.next := Nat.lt_succ_self _
    refine ⟨hlt, c, ?_, rfl⟩
    have h1 : ρ' st.next = stF.init st.next :=
      hshow.2 st.next h0.next (Nat.lt_of_lt_of_le hlt hF.next)
    have h2 : stF.init st.next = some c := by
      rw [hF.below st.next hlt]; show (st.init.set st.next c) st.next = some c; exact set_eq
    show ρ' st.next = some c
    rw [h1, h2]
  | var i path =>
    simp only [evalArg] at hev
    have henv : st.env = st0.env := h0.env
    cases hvi : vals[i]? with
    | none => simp [hvi] at hev
    | some u =>
      simp only [hvi] at hev
      have hil : i < st0.env.length := by
        rw [hsees.1]; exact (List.getElem?_eq_some_iff.mp hvi).1
      obtain ⟨r0, hr0⟩ : ∃ r0, st0.env[i]? = some r0 := ⟨st0.env[i], List.getElem?_eq_getElem hil⟩
      obtain ⟨hlt, w, v', hw, hv', hidx⟩ := hsees.2 i r0 hr0
      have huv : u = v' := by rw [hvi] at hv'; injection hv'
      subst huv
      have htr : traceArg st (.var i path) = (st, ⟨r0.src, r0.path ++ path⟩) := by
        simp only [traceArg, henv, hr0]
      rw [htr]
      refine ⟨Nat.lt_of_lt_of_le hlt h0.next, w, ?_, ?_⟩
      · show ρ' r0.src = some w
        rw [hshow.1 r0.src hlt]; exact hw
      · show index w (r0.path ++ path) = .ok v
        rw [index_append, hidx]; exact hev

/-- list version: the references produced for a list of arguments are seen with the evaluated values -/
theorem traceArgs_sees {ρ0 ρ' : Results V} {st0 : BState V} {vals : List V} (hsees : Sees st0 ρ0 vals) :
    ∀ (l : List (Arg V)) (st stF : BState V) (vs : List V), Ext st0 st → Ext (traceArgs st l).1 stF →
      Shows ρ0 ρ' st0 stF → l.mapM (evalArg vals) = .ok vs →
      Sees ({ stF with env := (traceArgs st l).2 } : BState V) ρ' vs := by
  intro l
  induction l with
  | nil =>
    intro st stF vs _ _ _ hev
    simp only [List.mapM_nil] at hev
    have : vs = [] := by injection hev with h; exact h.symm
    subst this
    exact ⟨rfl, by intro i r hi; simp [traceArgs] at hi⟩
  | cons a rest ih =>
    intro st stF vs h0 hF hshow hev
    simp only [List.mapM_cons] at hev
    cases ha : evalArg vals a with
    | error e => simp [ha] at hev; cases hev
    | ok v =>
      cases hr : rest.mapM (evalArg vals) with
      | error e => simp [ha, hr] at hev; cases hev
      | ok vs' =>
        simp [ha, hr] at hev
        have hvs : vs = v :: vs' := by injection hev with h; exact h.symm
        subst hvs
        have hext1 := traceArg_ext st a
        have hext2 := traceArgs_ext rest (traceArg st a).1
        have hF' : Ext (traceArgs (traceArg st a).1 rest).1 stF := by simpa [traceArgs] using hF
        have hFa : Ext (traceArg st a).1 stF := hext2.trans hF'
        obtain ⟨hlt, w, hw, hidx⟩ := traceArg_sees a hsees h0 hFa hshow ha
        have h2 := ih (traceArg st a).1 stF vs' (h0.trans hext1) hF' hshow hr
        refine ⟨?_, ?_⟩
        · show ((traceArgs st (a :: rest)).2).length = (v :: vs').length
          simp only [traceArgs, List.length_cons]
          have : ((traceArgs (traceArg st a).1 rest).2).length = vs'.length := h2.1
          omega
        · intro i r hi
          have hi' : ((traceArg st a).2 :: (traceArgs (traceArg st a).1 rest).2)[i]? = some r := by
            simpa [traceArgs] using hi
          cases i with
          | zero =>
            simp at hi'; subst hi'
            exact ⟨Nat.lt_of_lt_of_le hlt hFa.next, w, v, hw, rfl, hidx⟩
          | succ j =>
            simp at hi'
            obtain ⟨hl, w', v', hw', hv', hidx'⟩ := h2.2 j r hi'
            exact ⟨hl, w', v', hw', by simpa using hv', hidx'⟩

/-- under the denotation of a later state, holders created since are shown -/
theorem shows_den {interp : Interp V} {st stF : BState V} {vals : List V} (hg : Good interp st vals)
    (hext : Ext st stF) : Shows (den (st.cfg interp)) (den (stF.cfg interp)) st stF := by
  refine ⟨(grows_of_ext hg hext).den, ?_⟩
  intro x hx _
  show denote (stF.cfg interp) stF.nodes stF.init x = stF.init x
  apply denote_notin
  rw [hext.nodes]
  intro hmem; exact absurd (hg.nlt x hmem) (Nat.not_lt.mpr hx)

/-- holders only: `Good` is kept (the environment is the old one) -/
theorem good_of_ext {interp : Interp V} {st st' : BState V} {vals : List V} (hg : Good interp st vals)
    (h : Ext st st') : Good interp st' vals := by
  have hgr := grows_of_ext hg h
  refine ⟨h.above hg.fresh, ?_, ?_, ?_, ?_, ?_, ?_⟩
  · intro n hn; rw [h.nodes] at hn; exact Nat.lt_of_lt_of_le (hg.nlt n hn) h.next
  · intro n hn r hr; rw [h.nodes] at hn; rw [h.recOf] at hr; exact hg.rlt n hn r hr
  · rw [h.nodes]; exact hg.sorted
  · intro n hn; rw [h.nodes] at hn; rw [h.below n (hg.nlt n hn)]; exact hg.ninit n hn
  · intro n hn; rw [h.nodes] at hn; rw [h.recOf]; exact hg.norec n hn
  · have := sees_grows hg.sees hgr
    have he : ({ st' with env := st.env } : BState V) = st' := by
      cases st'; simp only [BState.mk.injEq, true_and]; exact h.env.symm
    rwa [he] at this

end VM

namespace VM
open TM
variable {V : Type} [PyVal V]

/-- `traceCall_good` together with the growth fact -/
theorem traceCall_grows (interp : Interp V) {st : BState V} {vals : List V} (c : Call V) {v : V}
    (hg : Good interp st vals) (hev : evalCall interp vals c = .ok v) :
    Grows interp st (traceCall st c) := by
  unfold traceCall
  have e1 := traceArgs_ext c.args st
  have e2 := traceKwargs_ext c.kwargs (traceArgs st c.args).1
  have e3 := traceActive_ext (traceKwargs (traceArgs st c.args).1 c.kwargs).1 c
  have hden := good_extend_den interp hg ((e1.trans e2).trans e3)
    { fn := c.fn, args := (traceArgs st c.args).2,
      kwargs := (traceKwargs (traceArgs st c.args).1 c.kwargs).2,
      active := (traceActive (traceKwargs (traceArgs st c.args).1 c.kwargs).1 c).2 } v ?_
  · refine ⟨?_, hden.1⟩
    show st.next ≤ (traceActive (traceKwargs (traceArgs st c.args).1 c.kwargs).1 c).1.next + 1
    exact Nat.le_succ_of_le ((e1.trans e2).trans e3).next
  · intro ρ1 hshow
    obtain ⟨b, hb, hbF, hbT⟩ := evalCall_inv interp vals c v hev
    have hact := traceActive_sound (ρ' := ρ1) c hg.sees (e1.trans e2) (Ext.refl _) hshow hb
      { fn := c.fn, args := (traceArgs st c.args).2,
        kwargs := (traceKwargs (traceArgs st c.args).1 c.kwargs).2,
        active := (traceActive (traceKwargs (traceArgs st c.args).1 c.kwargs).1 c).2 } rfl
    unfold outcomeRec
    rw [hact]
    cases b with
    | false => simp only; rw [hbF rfl]
    | true =>
      obtain ⟨vs, kws, hvs, hkws, hint⟩ := hbT rfl
      have h1 := (traceArgs_sound (ρ' := ρ1) hg.sees c.args st _ vs (Ext.refl st) (e2.trans e3) hshow hvs).1
      have h2 := (traceKwargs_sound (ρ' := ρ1) hg.sees c.kwargs (traceArgs st c.args).1 _ kws e1 e3 hshow hkws).1
      simp only [callOf, h1, h2]
      show (match interp c.fn vs kws with | .ok v => some v | .error _ => none) = some v
      rw [hint]

/-- `mapM` in `Except`: the result has the same length and is computed pointwise -/
theorem mapM_ok_pointwise {α β : Type} (f : α → Except Err β) : ∀ (l : List α) (ys : List β),
    l.mapM f = .ok ys → ys.length = l.length ∧ ∀ (i : Nat) (x : α), l[i]? = some x → ∃ y, ys[i]? = some y ∧ f x = .ok y := by
  intro l
  induction l with
  | nil =>
    intro ys h
    simp only [List.mapM_nil] at h
    have : ys = [] := by injection h with h; exact h.symm
    subst this
    exact ⟨rfl, by intro i x hi; simp at hi⟩
  | cons a rest ih =>
    intro ys h
    simp only [List.mapM_cons] at h
    cases ha : f a with
    | error e => simp [ha] at h; cases h
    | ok y =>
      cases hr : rest.mapM f with
      | error e => simp [ha, hr] at h; cases h
      | ok ys' =>
        simp [ha, hr] at h
        have hys : ys = y :: ys' := by injection h with h; exact h.symm
        subst hys
        obtain ⟨hl, hp⟩ := ih ys' hr
        refine ⟨by simp [hl], ?_⟩
        intro i x hi
        cases i with
        | zero => simp at hi; subst hi; exact ⟨y, by simp, ha⟩
        | succ j => simp at hi; obtain ⟨y', hy', hf⟩ := hp j x hi; exact ⟨y', by simpa using hy', hf⟩

theorem sees_dropLast {st : BState V} {ρ : Results V} {e : List Ref} {r : Ref} {vals : List V} {v : V}
    (h : Sees ({ st with env := e ++ [r] } : BState V) ρ (vals ++ [v])) :
    Sees ({ st with env := e } : BState V) ρ vals ∧
    (r.src < st.next ∧ ∃ w, ρ r.src = some w ∧ index w r.path = .ok v) := by
  have hlen : e.length = vals.length := by
    have : (e ++ [r]).length = (vals ++ [v]).length := h.1
    simpa using this
  refine ⟨⟨hlen, ?_⟩, ?_⟩
  · intro i x hi
    have hi' : e[i]? = some x := hi
    have hlt : i < e.length := (List.getElem?_eq_some_iff.mp hi').1
    obtain ⟨a, w, u, hw, hu, hidx⟩ := h.2 i x (by show (e ++ [r])[i]? = some x; rw [List.getElem?_append_left hlt]; exact hi')
    refine ⟨a, w, u, hw, ?_, hidx⟩
    rw [List.getElem?_append_left (by rw [← hlen]; exact hlt)] at hu; exact hu
  · obtain ⟨a, w, u, hw, hu, hidx⟩ := h.2 e.length r (by show (e ++ [r])[e.length]? = some r; simp)
    have : u = v := by
      rw [hlen] at hu; simp at hu; exact hu.symm
    subst this
    exact ⟨a, w, hw, hidx⟩

/-- unpacking: rebinding the last variable as `k` indexed components keeps the invariant -/
theorem good_rebind {interp : Interp V} {st : BState V} {vals : List V} {v : V} {k : Nat} {comps : List V}
    (hg : Good interp st (vals ++ [v])) (hu : unpackVals v k = .ok comps) :
    Good interp (rebindUnpack st k) (vals ++ comps) := by
  have hne : st.env ≠ [] := by
    intro h
    have : st.env.length = (vals ++ [v]).length := hg.sees.1
    rw [h] at this; simp at this
  obtain ⟨e, r, her⟩ : ∃ e r, st.env = e ++ [r] := ⟨st.env.dropLast, st.env.getLast hne, (List.dropLast_concat_getLast hne).symm⟩
  have hlast : st.env.getLast? = some r := by rw [her]; simp
  have hdrop : st.env.dropLast = e := by rw [her]; simp
  have hst : st = ({ st with env := e ++ [r] } : BState V) := by cases st; simp only [BState.mk.injEq, true_and]; exact her
  have hsees0 : Sees ({ st with env := e ++ [r] } : BState V) (den (st.cfg interp)) (vals ++ [v]) := by
    have := hg.sees; rw [hst] at this; exact this
  obtain ⟨hs1, hlt, w, hw, hidx⟩ := sees_dropLast hsees0
  obtain ⟨hlen, hpt⟩ := mapM_ok_pointwise _ _ _ hu
  have hs2 : Sees ({ st with env := (List.range k).map (fun (j : Nat) => (⟨r.src, r.path ++ [Key.idx (Int.ofNat j)]⟩ : Ref)) } : BState V)
      (den (st.cfg interp)) comps := by
    refine ⟨by simp [hlen], ?_⟩
    intro i x hi
    have hi' : ((List.range k).map (fun (j : Nat) => (⟨r.src, r.path ++ [Key.idx (Int.ofNat j)]⟩ : Ref)))[i]? = some x := hi
    simp only [List.getElem?_map, List.getElem?_range] at hi'
    by_cases hik : i < k
    · simp [hik] at hi'
      subst hi'
      obtain ⟨y, hy, hf⟩ := hpt i i (by simp [hik])
      refine ⟨hlt, w, y, hw, hy, ?_⟩
      show index w (r.path ++ [Key.idx (Int.ofNat i)]) = .ok y
      rw [index_append, hidx]; exact hf
    · simp [hik] at hi'
  have hnew := sees_append hs1 hs2
  have hre : rebindUnpack st k = ({ st with env := e ++ (List.range k).map (fun (j : Nat) => (⟨r.src, r.path ++ [Key.idx (Int.ofNat j)]⟩ : Ref)) } : BState V) := by
    simp only [rebindUnpack, hlast, hdrop]
  rw [hre]
  exact good_setEnv hg _ hnew

theorem rebind_grows (interp : Interp V) (st : BState V) (k : Nat) : Grows interp st (rebindUnpack st k) := by
  unfold rebindUnpack
  cases st.env.getLast? with
  | none => exact Grows.refl interp st
  | some r => exact grows_setEnv interp st _

end VM

namespace VM
open TM
variable {V : Type} [PyVal V]

theorem sees_nil (st : BState V) (ρ : Results V) : Sees ({ st with env := [] } : BState V) ρ [] :=
  ⟨rfl, by intro i r hi; simp at hi⟩

theorem sees_cons_inv {st : BState V} {ρ : Results V} {a : Ref} {as : List Ref} {v : V} {vs : List V}
    (h : Sees ({ st with env := a :: as } : BState V) ρ (v :: vs)) :
    (a.src < st.next ∧ ∃ w, ρ a.src = some w ∧ index w a.path = .ok v) ∧
    Sees ({ st with env := as } : BState V) ρ vs := by
  refine ⟨?_, ⟨?_, ?_⟩⟩
  · obtain ⟨hl, w, u, hw, hu, hidx⟩ := h.2 0 a (by show (a :: as)[0]? = some a; simp)
    have : u = v := by simp at hu; exact hu.symm
    subst this; exact ⟨hl, w, hw, hidx⟩
  · have : (a :: as).length = (v :: vs).length := h.1
    simpa using this
  · intro i r hi
    have hi' : as[i]? = some r := hi
    obtain ⟨hl, w, u, hw, hu, hidx⟩ := h.2 (i + 1) r (by show (a :: as)[i + 1]? = some r; simpa using hi')
    exact ⟨hl, w, u, hw, by simpa using hu, hidx⟩

theorem sees_cons {st : BState V} {ρ : Results V} {a : Ref} {as : List Ref} {v : V} {vs : List V}
    (ha : a.src < st.next ∧ ∃ w, ρ a.src = some w ∧ index w a.path = .ok v)
    (h : Sees ({ st with env := as } : BState V) ρ vs) :
    Sees ({ st with env := a :: as } : BState V) ρ (v :: vs) := by
  refine ⟨?_, ?_⟩
  · show (a :: as).length = (v :: vs).length
    have : as.length = vs.length := h.1
    simp [this]
  · intro i r hi
    have hi' : (a :: as)[i]? = some r := hi
    cases i with
    | zero =>
      simp at hi'; subst hi'
      obtain ⟨hl, w, hw, hidx⟩ := ha
      exact ⟨hl, w, v, hw, rfl, hidx⟩
    | succ j =>
      simp at hi'
      obtain ⟨hl, w, u, hw, hu, hidx⟩ := h.2 j r hi'
      exact ⟨hl, w, u, hw, by simpa using hu, hidx⟩

/-- an environment seen under the table of `st` is seen under the table of any later state -/
theorem sees_env_grows {interp : Interp V} {st st' : BState V} {e : List Ref} {vals : List V}
    (hs : Sees ({ st with env := e } : BState V) (den (st.cfg interp)) vals) (hgr : Grows interp st st') :
    Sees ({ st' with env := e } : BState V) (den (st'.cfg interp)) vals := by
  have h1 : Sees ({ st with env := e } : BState V) (den (({ st with env := e } : BState V).cfg interp)) vals := hs
  have h2 : Grows interp ({ st with env := e } : BState V) st' := ⟨hgr.next, hgr.den⟩
  exact sees_grows h1 h2

theorem withIdent_ident (interp : Interp V) (x : V) : withIdent interp identFn [x] [] = .ok x := by
  simp [withIdent]

/-- binding the parameters of a nested call: an identity stub per supplied argument, a holder per
    unsupplied default; afterwards the parameter references are seen with the bound values -/
theorem bindParamRefs_good (interp : Interp V) : ∀ (params : List (Option V)) (st : BState V) (vals : List V)
    (argRefs : List Ref) (vs penv : List V) (st2 : BState V) (prefs : List Ref),
    Good (withIdent interp) st vals →
    Sees ({ st with env := argRefs } : BState V) (den (st.cfg (withIdent interp))) vs →
    bindParams params vs = .ok penv →
    bindParamRefs st none params argRefs = .ok (st2, prefs) →
    Good (withIdent interp) st2 vals ∧ Grows (withIdent interp) st st2 ∧ st2.env = st.env ∧
    Sees ({ st2 with env := prefs } : BState V) (den (st2.cfg (withIdent interp))) penv := by
  intro params
  induction params with
  | nil =>
    intro st vals argRefs vs penv st2 prefs hg hs hb hr
    cases argRefs with
    | nil =>
      cases vs with
      | nil =>
        simp only [bindParams] at hb
        simp only [bindParamRefs] at hr
        have hp : penv = [] := by injection hb with h; exact h.symm
        have : (st, ([] : List Ref)) = (st2, prefs) := by injection hr
        obtain ⟨rfl, rfl⟩ := Prod.mk.inj this
        subst hp
        exact ⟨hg, Grows.refl _ _, rfl, sees_nil _ _⟩
      | cons v vs => have := hs.1; simp at this
    | cons a as => simp [bindParamRefs] at hr
  | cons p ps ih =>
    intro st vals argRefs vs penv st2 prefs hg hs hb hr
    cases argRefs with
    | nil =>
      have hvs : vs = [] := by
        have : ([] : List Ref).length = vs.length := hs.1
        cases vs with | nil => rfl | cons _ _ => simp at this
      subst hvs
      cases p with
      | none => simp [bindParamRefs] at hr
      | some d =>
        simp only [bindParams] at hb
        simp only [bindParamRefs] at hr
        cases hb' : bindParams ps ([] : List V) with
        | error e => simp [hb', bind, Except.bind] at hb
        | ok r =>
          simp [hb', bind, Except.bind, pure, Except.pure] at hb
          subst hb
          cases hr' : bindParamRefs ({ st with next := st.next + 1, init := st.init.set st.next d } : BState V) none ps [] with
          | error e => simp [hr', bind, Except.bind] at hr
          | ok q =>
            obtain ⟨st2', rs⟩ := q
            simp [hr', bind, Except.bind, pure, Except.pure] at hr
            obtain ⟨rfl, rfl⟩ := hr
            -- the holder step is an `Ext`
            have hext : Ext st ({ st with next := st.next + 1, init := st.init.set st.next d } : BState V) := by
              refine ⟨Nat.le_succ _, rfl, rfl, rfl, ?_, ?_⟩
              · intro x hx; show (st.init.set st.next d) x = st.init x; exact set_ne (Nat.ne_of_lt hx)
              · intro h x hx
                show (st.init.set st.next d) x = none
                have hlt : st.next < x := hx
                rw [set_ne (Nat.ne_of_gt hlt)]; exact h x (Nat.le_of_lt hlt)
            have hg1 := good_of_ext hg hext
            have hgr1 := grows_of_ext hg hext
            obtain ⟨hg2, hgr2, henv2, hs2⟩ := ih _ vals [] [] r st2' rs hg1 (sees_nil _ _) hb' hr'
            refine ⟨hg2, hgr1.trans hgr2, by rw [henv2], ?_⟩
            apply sees_cons _ hs2
            have hlt1 : st.next < st.next + 1 := Nat.lt_succ_self _
            refine ⟨Nat.lt_of_lt_of_le hlt1 hgr2.next, d, ?_, rfl⟩
            rw [hgr2.den st.next hlt1]
            show denote _ st.nodes (st.init.set st.next d) st.next = some d
            rw [denote_notin _ _ _ _ (fun hm => absurd (hg.nlt _ hm) (Nat.lt_irrefl _)), set_eq]
    | cons a as =>
      cases vs with
      | nil => have := hs.1; simp at this
      | cons v vs' =>
        obtain ⟨⟨halt, w, hw, hidx⟩, hstail⟩ := sees_cons_inv hs
        -- bindParams: whatever `p` is, the supplied value wins
        have hb2 : ∃ r, bindParams ps vs' = .ok r ∧ penv = v :: r := by
          cases p <;> simp only [bindParams] at hb <;>
            (cases hb' : bindParams ps vs' with
             | error e => simp [hb', bind, Except.bind] at hb
             | ok r => simp [hb', bind, Except.bind, pure, Except.pure] at hb; exact ⟨r, rfl, hb.symm⟩)
        obtain ⟨r, hb', rfl⟩ := hb2
        have hr2 : ∃ st2' rs, bindParamRefs ({ extend ({ st with env := [] } : BState V)
              { fn := identFn, args := [a], kwargs := [], active := none } with env := st.env } : BState V) none ps as
              = .ok (st2', rs) ∧ st2 = st2' ∧ prefs = (⟨st.next, []⟩ : Ref) :: rs := by
          cases p <;> simp only [bindParamRefs] at hr <;>
            (cases hr' : bindParamRefs ({ extend ({ st with env := [] } : BState V)
                { fn := identFn, args := [a], kwargs := [], active := none } with env := st.env } : BState V) none ps as with
             | error e => simp [hr', bind, Except.bind] at hr
             | ok q =>
               obtain ⟨st2', rs⟩ := q
               simp [hr', bind, Except.bind, pure, Except.pure] at hr
               exact ⟨st2', rs, rfl, hr.1.symm, hr.2.symm⟩)
        obtain ⟨st2', rs, hr', rfl, rfl⟩ := hr2
        -- the stub is one `extend` from the state with the empty environment
        have hg0 : Good (withIdent interp) ({ st with env := [] } : BState V) [] := good_setEnv hg [] (sees_nil _ _)
        have hout : ∀ ρ1, Shows (den (({ st with env := [] } : BState V).cfg (withIdent interp))) ρ1
            ({ st with env := [] } : BState V) ({ st with env := [] } : BState V) →
            outcomeRec (withIdent interp) ρ1 { fn := identFn, args := [a], kwargs := [], active := none } = some v := by
          intro ρ1 hshow
          have h1 : ρ1 a.src = some w := by rw [hshow.1 a.src halt]; exact hw
          simp only [outcomeRec, activeOf, callOf, List.mapM_cons, List.mapM_nil, resolve, h1, hidx]
          simp [bind, Except.bind, pure, Except.pure, withIdent_ident]
        have hg1 := good_extend (withIdent interp) hg0 (Ext.refl _)
          { fn := identFn, args := [a], kwargs := [], active := none } v
          (by intro x hx; simp [NodeRec.refs] at hx; subst hx; exact halt) hout
        have hden1 := good_extend_den (withIdent interp) hg0 (Ext.refl _)
          { fn := identFn, args := [a], kwargs := [], active := none } v hout
        have hgr1 : Grows (withIdent interp) st (extend ({ st with env := [] } : BState V)
            { fn := identFn, args := [a], kwargs := [], active := none }) :=
          ⟨Nat.le_succ _, hden1.1⟩
        have hg1' : Good (withIdent interp) ({ extend ({ st with env := [] } : BState V)
            { fn := identFn, args := [a], kwargs := [], active := none } with env := st.env } : BState V) vals :=
          good_setEnv hg1 st.env (sees_grows hg.sees hgr1)
        have hgr1' : Grows (withIdent interp) st ({ extend ({ st with env := [] } : BState V)
            { fn := identFn, args := [a], kwargs := [], active := none } with env := st.env } : BState V) :=
          ⟨hgr1.next, hgr1.den⟩
        have hstail' := sees_env_grows hstail hgr1'
        obtain ⟨hg2, hgr2, henv2, hs2⟩ := ih _ vals as vs' r st2 rs hg1' hstail' hb' hr'
        refine ⟨hg2, hgr1'.trans hgr2, by rw [henv2], ?_⟩
        apply sees_cons _ hs2
        have hlt1 : st.next < st.next + 1 := Nat.lt_succ_self _
        refine ⟨Nat.lt_of_lt_of_le hlt1 hgr2.next, v, ?_, rfl⟩
        rw [hgr2.den st.next hlt1]
        exact hden1.2

end VM
