import VM.Fresh
/-! C15 / C11, general form: **whatever operations came before — calls, executor runs and `setup()` invocations with ANY
    (closed) selections and any arguments, succeeding or failing — a call computes, on every node of its own selection,
    exactly what it computes on the instance the history started from.**

    Selections are sub-lists `all.filter q` of the DAG's node list that are closed with respect to the setup region
    (`ClosedSel`: a selected node's references into the region are selected too — true of every target / ancestor
    selection).  Two facts carry the proof:

      * `sub_selection_den`   on the setup region a closed sub-selection computes what the whole table computes;
      * `op_then_call`        the setup values an operation leaves behind are the values the next call would compute itself
                              (so the next call is a seeded restart), and the ones outside its selection are never read. -/
namespace VM
open TM
variable {V : Type} [PyVal V]

/-- a selected node's references into the region are selected too -/
def ClosedSel (i : Inst V) (S q : Node → Bool) : Prop :=
  ∀ n ∈ i.dag.nodes, q n = true → ∀ r ∈ (i.dag.recOf n).refs, S r.src = true → r.src ∈ i.dag.nodes → q r.src = true

theorem runCfg_nodes_sub (i : Inst V) (sel : List Node) (init : Results V) : ∀ n ∈ (runCfg i sel init).nodes, n ∈ sel :=
  fun n hn => (List.mem_filter.mp hn).1

/-- on the region, a closed sub-selection computes what the whole table computes -/
theorem sub_selection_den (i : Inst V) (S q : Node → Bool) (init : Results V)
    (hS : regionClosedB i.dag.recOf i.dag.nodes S = true) (hq : ClosedSel i S q) (x : Node)
    (hSx : S x = true) (hx : q x = true ∨ x ∉ i.dag.nodes) :
    den (runCfg i (i.dag.nodes.filter q) init) x = den (runCfg i i.dag.nodes init) x := by
  have hclosedS : ∀ n ∈ i.dag.nodes, S n = true → ∀ r ∈ (i.dag.recOf n).refs, S r.src = true := by
    intro n hn hSn r hr
    have := List.all_eq_true.mp hS n hn
    simp only [hSn, Bool.not_true, Bool.false_or, List.all_eq_true] at this
    exact this r hr
  -- step 1: the sub-selection restricted to S
  have hcb1 : isClosedB (runCfg i (i.dag.nodes.filter q) init) S = true := by
    apply List.all_eq_true.mpr
    intro n hn
    have hn1 : n ∈ i.dag.nodes := (List.mem_filter.mp (runCfg_nodes_sub i _ init n hn)).1
    by_cases hSn : S n = true
    · simp only [hSn, Bool.not_true, Bool.false_or, List.all_eq_true]
      intro r hr
      simp [hclosedS n hn1 hSn r hr]
    · have : S n = false := by simpa using hSn
      simp [this]
  -- step 2: the whole table restricted to S ∧ q
  have hcb2 : isClosedB (runCfg i i.dag.nodes init) (fun n => S n && q n) = true := by
    apply List.all_eq_true.mpr
    intro n hn
    have hn1 : n ∈ i.dag.nodes := runCfg_nodes_sub i _ init n hn
    by_cases hT : (S n && q n) = true
    · simp only [hT, Bool.not_true, Bool.false_or, List.all_eq_true]
      intro r hr
      have hSn : S n = true := (Bool.and_eq_true _ _ ▸ hT).1
      have hqn : q n = true := (Bool.and_eq_true _ _ ▸ hT).2
      have hSr := hclosedS n hn1 hSn r hr
      by_cases hin : r.src ∈ (runCfg i i.dag.nodes init).nodes
      · have hin1 : r.src ∈ i.dag.nodes := runCfg_nodes_sub i _ init _ hin
        simp [hSr, hq n hn1 hqn r hr hSr hin1]
      · simp [hin]
    · have : (S n && q n) = false := by simpa using hT
      simp [this]
  have e1 := den_restrict (runCfg i (i.dag.nodes.filter q) init) S hcb1 x (Or.inr hSx)
  have e2 := den_restrict (runCfg i i.dag.nodes init) (fun n => S n && q n) hcb2 x (by
    rcases hx with hx | hx
    · right; simp [hSx, hx]
    · left; intro h; exact hx (runCfg_nodes_sub i _ init x h))
  rw [← e1, ← e2]
  -- the two restricted tables are the same table
  have hsame : restrict (runCfg i (i.dag.nodes.filter q) init) S = restrict (runCfg i i.dag.nodes init) (fun n => S n && q n) := by
    show (⟨((i.dag.nodes.filter q).filter _).filter S, _, _, _⟩ : ECfg V) = ⟨(i.dag.nodes.filter _).filter _, _, _, _⟩
    congr 1
    rw [List.filter_filter, List.filter_filter, List.filter_filter]
    apply List.filter_congr
    intro a _
    cases S a <;> cases q a <;> cases (init a).isNone <;> rfl
  rw [hsame]

/-- the extra setup values an operation left behind that a later selection `q2` does not contain -/
def extraB (i i' : Inst V) (q2 : Node → Bool) (x : Node) : Bool :=
  i.dag.isSetup x && (i.res x).isNone && (i'.res x).isSome && !q2 x

/-- **one step**: an operation with a closed selection (a call / executor run with any arguments, or a `setup()`), then a
    call with a closed selection: on every node that is not a leftover outside the second selection — in particular on
    every node of the second selection — the call computes what it computes without the operation. -/
theorem op_then_call (i : Inst V) (S q1 q2 : Node → Bool) (hR : SetupRegion i i.dag.nodes S)
    (hq1 : ClosedSel i S q1) (hq2 : ClosedSel i S q2)
    (hwf : ∀ (j : Inst V) (op : Op V), WF (opCfg j op))
    (init1 : Results V) (hinit1 : ∀ x, S x = true → init1 x = i.res x)
    (i' : Inst V)
    (hi' : i' = (if succeeded (runCfg i (i.dag.nodes.filter q1) init1) then
                   copyBack i (den (runCfg i (i.dag.nodes.filter q1) init1)) else i))
    (args2 : List V) (x : Node) (hx : extraB i i' q2 x = false) :
    den (opCfg i' (.call (i.dag.nodes.filter q2) args2)) x = den (opCfg i (.call (i.dag.nodes.filter q2) args2)) x := by
  have hneg : ¬ succeeded (runCfg i (i.dag.nodes.filter q1) init1) = true →
      den (opCfg i' (.call (i.dag.nodes.filter q2) args2)) x = den (opCfg i (.call (i.dag.nodes.filter q2) args2)) x := by
    intro hsucc
    have : i' = i := by rw [hi']; simp [hsucc]
    rw [this]
  by_cases hsucc : succeeded (runCfg i (i.dag.nodes.filter q1) init1) = true
  case neg => exact hneg hsucc
  have hi'' : i' = copyBack i (den (runCfg i (i.dag.nodes.filter q1) init1)) := by rw [hi']; simp [hsucc]
  subst hi''
  -- names
  let all := i.dag.nodes
  let c1 := runCfg i (all.filter q1) init1
  let c2 := opCfg i (.call (all.filter q2) args2)
  let i1 := copyBack i (den c1)
  have hc2init : ∀ y, c2.init y = (match argOf i.dag.params args2 y with | some v => some v | none => i.res y) :=
    fun y => bindArgs_eq i.dag.params args2 i.res y
  have hinit2' : ∀ y, bindArgs i1.res i.dag.params args2 y
      = (match argOf i.dag.params args2 y with | some v => some v | none => i1.res y) :=
    fun y => bindArgs_eq i.dag.params args2 i1.res y
  have hnotparam : ∀ y, S y = true → ∀ as : List V, argOf i.dag.params as y = none := by
    intro y hy as
    cases h : argOf i.dag.params as y with
    | none => rfl
    | some v => have := hR.params y (argOf_some_mem _ _ _ _ h); rw [hy] at this; cases this
  have hmem2 : ∀ y, y ∈ c2.nodes ↔ (y ∈ all ∧ q2 y = true) ∧ c2.init y = none := by
    intro y
    show y ∈ (all.filter q2).filter _ ↔ _
    simp only [List.mem_filter, Option.isNone_iff_eq_none]
    constructor
    · rintro ⟨h1, h2⟩; exact ⟨h1, h2⟩
    · rintro ⟨h1, h2⟩; exact ⟨h1, h2⟩
  have hmem1 : ∀ y, y ∈ c1.nodes → y ∈ all ∧ q1 y = true := by
    intro y hy
    have := List.mem_filter.mp (runCfg_nodes_sub i _ init1 y hy)
    exact this
  have hres_none : ∀ y, y ∈ c2.nodes → i.dag.isSetup y = true → i.res y = none := by
    intro y hy2 hsu
    have h := ((hmem2 y).mp hy2).2
    rw [hc2init y, hnotparam y (hR.setup y hsu) args2] at h
    exact h
  -- the value chain: what the operation stored is what the second call computes itself
  have hchain : ∀ y, i.dag.isSetup y = true → y ∈ c1.nodes → q2 y = true → den c2 y = den c1 y := by
    intro y hsy hy1 hq2y
    have hSy := hR.setup y hsy
    have ⟨hyall, hq1y⟩ := hmem1 y hy1
    have a2 : den c2 y = den (runCfg i all (bindArgs i.res i.dag.params args2)) y :=
      sub_selection_den i S q2 _ hR.closed hq2 y hSy (Or.inl hq2y)
    have a1 : den c1 y = den (runCfg i all init1) y :=
      sub_selection_den i S q1 init1 hR.closed hq1 y hSy (Or.inl hq1y)
    have ab : den (runCfg i all (bindArgs i.res i.dag.params args2)) y = den (runCfg i all init1) y := by
      apply runCfg_den_agree i all _ _ S hR.closed _ y hSy
      intro z hz
      rw [hinit1 z hz]
      have hz' : z ∉ i.dag.params := fun h => by rw [hR.params z h] at hz; cases hz
      exact bindArgs_notin _ _ _ _ hz'
    rw [a2, ab, ← a1]
  -- the seeding predicate and the middle configuration
  let f : Node → Bool := fun n => decide (n ∈ c2.nodes) && i.dag.isSetup n && (den c1 n).isSome
  let ex : Node → Bool := extraB i i1 q2
  let initm : Results V := fun y => if ex y then none else bindArgs i1.res i.dag.params args2 y
  -- (a) den c1 on a setup node outside c1's nodes is the instance's own value
  have hden1_out : ∀ y, i.dag.isSetup y = true → y ∉ c1.nodes → den c1 y = i.res y := by
    intro y hsy hy
    have : den c1 y = c1.init y := denote_notin c1 c1.nodes c1.init y hy
    rw [this]; exact hinit1 y (hR.setup y hsy)
  -- pointwise description of the middle initial results
  have hinitm : ∀ y, initm y = (if f y then den c2 y else c2.init y) := by
    intro y
    show (if ex y then none else bindArgs i1.res i.dag.params args2 y) = _
    rw [hinit2' y, hc2init y]
    cases ha : argOf i.dag.params args2 y with
    | some v =>
      have hns : i.dag.isSetup y = false := by
        cases h : i.dag.isSetup y with
        | false => rfl
        | true => rw [hnotparam y (hR.setup y h) args2] at ha; cases ha
      simp [f, ex, extraB, hns]
    | none =>
      show (if ex y then none else i1.res y) = _
      cases hsu : i.dag.isSetup y with
      | false => simp [f, ex, extraB, hsu, i1, copyBack]
      | true =>
        cases hry : i.res y with
        | some w =>
          have : y ∉ c2.nodes := by
            intro hy; have := ((hmem2 y).mp hy).2; rw [hc2init y, ha, hry] at this; cases this
          simp [f, ex, extraB, hsu, hry, this, i1, copyBack]
        | none =>
          cases hd : den c1 y with
          | none => simp [f, ex, extraB, hsu, hry, hd, i1, copyBack]
          | some v =>
            have hy1 : y ∈ c1.nodes := by
              apply Classical.byContradiction; intro hy
              have := hden1_out y hsu hy; rw [hd, hry] at this; cases this
            have ⟨hyall, _⟩ := hmem1 y hy1
            cases hq2y : q2 y with
            | true =>
              have hy2 : y ∈ c2.nodes := (hmem2 y).mpr ⟨⟨hyall, hq2y⟩, by rw [hc2init y, ha, hry]⟩
              have hv : den c2 y = some v := by rw [hchain y hsu hy1 hq2y]; exact hd
              simp [f, ex, extraB, hsu, hry, hd, hq2y, hy2, hv, i1, copyBack]
            | false =>
              have hy2 : y ∉ c2.nodes := fun h => by have := ((hmem2 y).mp h).1.2; rw [hq2y] at this; cases this
              simp [f, ex, extraB, hsu, hry, hd, hq2y, hy2, i1, copyBack]
  -- (1) the real second configuration and the middle one agree wherever nothing extra sits
  let U : Node → Bool := fun y => !ex y
  have hex_setup : ∀ y, ex y = true → i.dag.isSetup y = true ∧ q2 y = false ∧ y ∈ all := by
    intro y hy
    simp only [ex, extraB, Bool.and_eq_true, Bool.not_eq_true', Option.isNone_iff_eq_none] at hy
    obtain ⟨⟨⟨hsu, hrn⟩, hsome⟩, hq⟩ := hy
    refine ⟨hsu, hq, ?_⟩
    apply Classical.byContradiction; intro hnin
    have hy1 : y ∉ c1.nodes := fun h => hnin (hmem1 y h).1
    have : i1.res y = i.res y := by
      show (if i.dag.isSetup y && (i.res y).isNone then den c1 y else i.res y) = i.res y
      rw [hden1_out y hsu hy1]; simp
    rw [this, hrn] at hsome; cases hsome
  have hnodes_eq : (all.filter q2).filter (fun n => (bindArgs i1.res i.dag.params args2 n).isNone)
      = (all.filter q2).filter (fun n => (initm n).isNone) := by
    apply List.filter_congr
    intro n hn
    have hq2n : q2 n = true := (List.mem_filter.mp hn).2
    have : ex n = false := by
      cases h : ex n with
      | false => rfl
      | true => have := (hex_setup n h).2.1; rw [hq2n] at this; cases this
    simp [initm, this]
  have hstep1 : den (opCfg i1 (.call (all.filter q2) args2)) x
      = den (runCfg i (all.filter q2) initm) x := by
    have hUx : U x = true := by
      show (!extraB i i1 q2 x) = true
      rw [show extraB i i1 q2 x = false from hx]; rfl
    show denote (runCfg i1 (all.filter q2) (bindArgs i1.res i.dag.params args2)) _ _ x = denote (runCfg i (all.filter q2) initm) _ _ x
    show denote _ ((all.filter q2).filter _) (bindArgs i1.res i.dag.params args2) x = denote _ ((all.filter q2).filter _) initm x
    rw [← hnodes_eq]
    have hin : ∀ n ∈ (all.filter q2).filter (fun n => (bindArgs i1.res i.dag.params args2 n).isNone),
        U n = true ∧ ∀ r ∈ ((runCfg i (all.filter q2) initm).recOf n).refs, U r.src = true := by
      intro n hn
      have hn2 := List.mem_filter.mp (List.mem_filter.mp hn).1
      have hUn : U n = true := by
        cases h : ex n with
        | false => simp [U, h]
        | true => have := (hex_setup n h).2.1; rw [hn2.2] at this; cases this
      refine ⟨hUn, ?_⟩
      intro r hr
      cases h : ex r.src with
      | false => simp [U, h]
      | true =>
        obtain ⟨hsu, hq, hall⟩ := hex_setup r.src h
        have := hq2 n hn2.1 hn2.2 r hr (hR.setup r.src hsu) hall
        rw [hq] at this; cases this
    have hag : AgreeOn U (bindArgs i1.res i.dag.params args2) initm := by
      intro y hy
      have : ex y = false := by simpa [U] using hy
      simp [initm, this]
    have e := denote_agreeOn (runCfg i (all.filter q2) initm) U _ hin _ _ hag x hUx
    -- `denote` reads `recOf` and `interp` only: the two configurations share them
    have hsamefn : ∀ (l : List Node) (ρ : Results V),
        denote (runCfg i1 (all.filter q2) (bindArgs i1.res i.dag.params args2)) l ρ
          = denote (runCfg i (all.filter q2) initm) l ρ := by
      intro l
      induction l with
      | nil => intro ρ; rfl
      | cons n rest ih =>
        intro ρ
        simp only [denote]
        have ho : outcome (runCfg i1 (all.filter q2) (bindArgs i1.res i.dag.params args2)) ρ n
            = outcome (runCfg i (all.filter q2) initm) ρ n := rfl
        rw [ho]
        cases outcome (runCfg i (all.filter q2) initm) ρ n with
        | none => exact ih ρ
        | some v => exact ih _
    rw [hsamefn]; exact e
  -- (2) the middle configuration is the fresh one, seeded with values it computes itself
  have hmid : runCfg i (all.filter q2) initm = seeded c2 f := by
    show (⟨(all.filter q2).filter _, i.dag.recOf, i.dag.interp, initm⟩ : ECfg V) = ⟨c2.nodes.filter _, c2.recOf, c2.interp, _⟩
    have hn : (all.filter q2).filter (fun n => (initm n).isNone) = c2.nodes.filter (fun n => !f n) := by
      show _ = ((all.filter q2).filter (fun n => (bindArgs i.res i.dag.params args2 n).isNone)).filter (fun n => !f n)
      rw [List.filter_filter (l := all.filter q2) (p := fun n => !f n)]
      apply List.filter_congr
      intro y hy
      rw [hinitm y]
      cases hf : f y with
      | false =>
        have e : c2.init y = bindArgs i.res i.dag.params args2 y := rfl
        simp [e]
      | true =>
        have hf' := hf
        simp only [f, Bool.and_eq_true, decide_eq_true_eq] at hf'
        obtain ⟨⟨hy2, hsu⟩, hsome⟩ := hf'
        obtain ⟨v, hv⟩ := Option.isSome_iff_exists.mp hsome
        have hy1 : y ∈ c1.nodes := by
          apply Classical.byContradiction; intro hny
          have := hden1_out y hsu hny
          rw [hv, hres_none y hy2 hsu] at this; cases this
        have hq2y := ((hmem2 y).mp hy2).1.2
        have : den c2 y = some v := by rw [hchain y hsu hy1 hq2y]; exact hv
        have hi : (bindArgs i.res i.dag.params args2 y) = none := ((hmem2 y).mp hy2).2
        simp [this, hi]
    have hfun : initm = (fun y => if f y then den c2 y else c2.init y) := funext hinitm
    rw [hn, hfun]
    rfl
  rw [hstep1, hmid]
  refine (C18_restart_same c2 f (hwf i _) ?_ ?_).1 x
  · intro n hn
    simp only [f, Bool.and_eq_true, decide_eq_true_eq] at hn
    exact hn.1.1
  · intro n hn
    simp only [f, Bool.and_eq_true, decide_eq_true_eq] at hn
    obtain ⟨⟨hy2, hsu⟩, hsome⟩ := hn
    obtain ⟨v, hv⟩ := Option.isSome_iff_exists.mp hsome
    have hy1 : n ∈ c1.nodes := by
      apply Classical.byContradiction; intro hny
      have := hden1_out n hsu hny
      rw [hv, hres_none n hy2 hsu] at this; cases this
    exact ⟨v, by rw [hchain n hsu hy1 ((hmem2 n).mp hy2).1.2]; exact hv⟩

/-- operations with closed selections: a call / executor run (any arguments) or a `setup()` -/
inductive COp (V : Type) where
  | call (q : Node → Bool) (args : List V)
  | setup (q : Node → Bool)

def COp.q : COp V → Node → Bool
  | .call q _ => q
  | .setup q => q

def COp.toOp (nodes : List Node) : COp V → Op V
  | .call q args => .call (nodes.filter q) args
  | .setup q => .setup (nodes.filter q)

theorem applyOp_toOp (i : Inst V) (o : COp V) :
    applyOp i (o.toOp i.dag.nodes) =
      (if succeeded (runCfg i (i.dag.nodes.filter o.q) (opCfg i (o.toOp i.dag.nodes)).init) then
         copyBack i (den (runCfg i (i.dag.nodes.filter o.q) (opCfg i (o.toOp i.dag.nodes)).init)) else i) := by
  cases o with
  | call q args => rfl
  | setup q => rfl

theorem toOp_init_region (i : Inst V) (S : Node → Bool) (hpar : ∀ p ∈ i.dag.params, S p = false) (o : COp V) :
    ∀ x, S x = true → (opCfg i (o.toOp i.dag.nodes)).init x = i.res x := by
  intro x hx
  cases o with
  | call q args =>
    show bindArgs i.res i.dag.params args x = i.res x
    apply bindArgs_notin
    intro h; rw [hpar x h] at hx; cases hx
  | setup q => rfl

/-- **C15 / C11, general form.**  After ANY history of operations on an instance — calls and executor runs with any
    closed selections and any arguments, `setup()` invocations with any closed selections, succeeding or failing — a call
    computes, on every node of its own (closed) selection, exactly what it computes on the instance the history
    started from.  On a freshly built DAG: whatever happened before, the call returns what a first call would. -/
theorem C15_call_after_any_history (ops : List (COp V)) : ∀ (i : Inst V) (S : Node → Bool)
    (_hR : SetupRegion i i.dag.nodes S) (_hwf : ∀ (j : Inst V) (op : Op V), WF (opCfg j op))
    (_hops : ∀ o ∈ ops, ClosedSel i S o.q) (q2 : Node → Bool) (_hq2 : ClosedSel i S q2) (args : List V) (x : Node)
    (_hx : q2 x = true),
    den (opCfg (runHistory i (ops.map (COp.toOp i.dag.nodes))) (.call (i.dag.nodes.filter q2) args)) x
      = den (opCfg i (.call (i.dag.nodes.filter q2) args)) x := by
  induction ops with
  | nil => intro i S _ _ _ q2 _ args x _; rfl
  | cons o rest ih =>
    intro i S hR hwf hops q2 hq2 args x hx
    simp only [List.map_cons, runHistory]
    have hd : (applyOp i (o.toOp i.dag.nodes)).dag = i.dag := applyOp_dag i _
    have hR' : SetupRegion (applyOp i (o.toOp i.dag.nodes)) (applyOp i (o.toOp i.dag.nodes)).dag.nodes S := by
      rw [hd]; exact ⟨by rw [hd]; exact hR.setup, by rw [hd]; exact hR.closed, by rw [hd]; exact hR.params⟩
    have hcs : ∀ (q : Node → Bool), ClosedSel i S q → ClosedSel (applyOp i (o.toOp i.dag.nodes)) S q := by
      intro q h; unfold ClosedSel; rw [hd]; exact h
    have hih := ih (applyOp i (o.toOp i.dag.nodes)) S hR' hwf
      (fun o' ho' => hcs _ (hops o' (by simp [ho']))) q2 (hcs q2 hq2) args x hx
    rw [hd] at hih
    rw [hih]
    apply op_then_call i S o.q q2 hR (hops o (by simp)) hq2 hwf
      (opCfg i (o.toOp i.dag.nodes)).init (toOp_init_region i S hR.params o) _ (applyOp_toOp i o) args x
    simp [extraB, hx]

/-- `ClosedSel`, decided (the history driver evaluates it on every selection it computes) -/
def closedSelB (i : Inst V) (S q : Node → Bool) : Bool :=
  i.dag.nodes.all fun n => !q n || (i.dag.recOf n).refs.all fun r => !S r.src || !i.dag.nodes.contains r.src || q r.src

theorem closedSelB_iff (i : Inst V) (S q : Node → Bool) : closedSelB i S q = true ↔ ClosedSel i S q := by
  simp only [closedSelB, ClosedSel, List.all_eq_true, Bool.or_eq_true, Bool.not_eq_true', List.contains_eq_mem,
    decide_eq_false_iff_not]
  constructor
  · intro h n hn hq r hr hS hin
    rcases h n hn with h1 | h1
    · rw [hq] at h1; cases h1
    · rcases h1 r hr with (h2 | h2) | h2
      · rw [hS] at h2; cases h2
      · exact absurd hin h2
      · exact h2
  · intro h n hn
    cases hq : q n with
    | false => exact Or.inl rfl
    | true =>
      right
      intro r hr
      cases hS : S r.src with
      | false => exact Or.inl (Or.inl rfl)
      | true =>
        by_cases hin : r.src ∈ i.dag.nodes
        · exact Or.inr (h n hn hq r hr hS hin)
        · exact Or.inl (Or.inr hin)

end VM
