import VM.Thm
/-! Prototype: the tracer for the flat fragment (positional / keyword / constant arguments, key
    paths, activation flags) and its correctness against plain sequential evaluation. -/
namespace VM
open TM
variable {V : Type} [PyVal V]

inductive Arg (V : Type) where
  | const (v : V)
  | var (i : Nat) (path : List Key)

structure Call (V : Type) where
  fn     : String
  args   : List (Arg V)
  kwargs : List (String × Arg V)
  active : Option (Arg V)

/-! ### plain (sequential Python) evaluation -/

def evalArg (env : List V) : Arg V → Except Err V
  | .const v => .ok v
  | .var i path => match env[i]? with
    | none => .error .usage
    | some v => index v path

def evalActive (env : List V) (c : Call V) : Except Err Bool :=
  match c.active with
  | none => .ok true
  | some a => match evalArg env a with
    | .ok u => .ok (PyVal.truthy u)
    | .error e => .error e

def evalCall (interp : Interp V) (env : List V) (c : Call V) : Except Err V :=
  match evalActive env c with
  | .error e => .error e
  | .ok false => .ok PyVal.none
  | .ok true =>
    match c.args.mapM (evalArg env) with
    | .error e => .error e
    | .ok vs =>
      match c.kwargs.mapM (kwMap (evalArg env)) with
      | .error e => .error e
      | .ok kws => interp c.fn vs kws

/-- run the body statement by statement; each call binds one new variable -/
def evalBody (interp : Interp V) : List (Call V) → List V → Except Err (List V)
  | [], env => .ok env
  | c :: rest, env => do
    let v ← evalCall interp env c
    evalBody interp rest (env ++ [v])

/-! ### the tracer -/

structure BState (V : Type) where
  next  : Nat                  -- fresh index supply
  nodes : List Node            -- recorded call nodes, in order
  recOf : Node → NodeRec
  init  : Results V            -- constant holders and parameters
  env   : List Ref             -- variable ↦ reference (a `UsageExecNode`)

def emptyRec : NodeRec := { fn := "", args := [], kwargs := [], active := none }

/-- an argument becomes a reference: a constant gets a fresh holder whose value is precomputed -/
def traceArg (st : BState V) : Arg V → BState V × Ref
  | .const v => ({ st with next := st.next + 1, init := st.init.set st.next v }, ⟨st.next, []⟩)
  | .var i path => match st.env[i]? with
    | some r => (st, ⟨r.src, r.path ++ path⟩)
    | none => ({ st with next := st.next + 1 }, ⟨st.next, []⟩)   -- unbound variable: a dangling source

def traceArgs (st : BState V) : List (Arg V) → BState V × List Ref
  | [] => (st, [])
  | a :: rest =>
    let (st1, r) := traceArg st a
    let (st2, rs) := traceArgs st1 rest
    (st2, r :: rs)

def traceKwargs (st : BState V) : List (String × Arg V) → BState V × List (String × Ref)
  | [] => (st, [])
  | (k, a) :: rest =>
    let (st1, r) := traceArg st a
    let (st2, rs) := traceKwargs st1 rest
    (st2, (k, r) :: rs)

/-- record one more node whose record is `r`; it gets the next fresh index and binds a new variable -/
def extend (st : BState V) (r : NodeRec) : BState V :=
  { next := st.next + 1, nodes := st.nodes ++ [st.next],
    recOf := fun x => if x = st.next then r else st.recOf x,
    init := st.init, env := st.env ++ [⟨st.next, []⟩] }

def traceActive (st : BState V) (c : Call V) : BState V × Option Ref :=
  match c.active with
  | none => (st, none)
  | some a => ((traceArg st a).1, some (traceArg st a).2)

def traceCall (st : BState V) (c : Call V) : BState V :=
  let p1 := traceArgs st c.args
  let p2 := traceKwargs p1.1 c.kwargs
  let p3 := traceActive p2.1 c
  extend p3.1 { fn := c.fn, args := p1.2, kwargs := p2.2, active := p3.2 }

def traceBody (st : BState V) : List (Call V) → BState V
  | [] => st
  | c :: rest => traceBody (traceCall st c) rest

def BState.cfg (st : BState V) (interp : Interp V) : ECfg V :=
  { nodes := st.nodes, recOf := st.recOf, interp := interp, init := st.init }

end VM
