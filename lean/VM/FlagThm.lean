import VM.Flag
/-! Correctness of the tracer on nested programs WITH activation flags on nested calls
    (`traceStmts_goodF`), for modules in which every flagged nested call targets a `DeadDef` callee. -/
namespace VM
open TM
variable {V : Type} [PyVal V]

theorem index_nil (v : V) : index v [] = .ok v := rfl

/-- whole variables bound by the body evaluate to None in an environment whose body part is all None -/
theorem mapM_evalArg_dead (n m : Nat) (penv : List V) (hlen : penv.length = n) : ∀ (l : List (Arg V)),
    (∀ a ∈ l, ∃ i, a = Arg.var i [] ∧ n ≤ i ∧ i < n + m) →
    l.mapM (evalArg (penv ++ List.replicate m (PyVal.none : V))) = .ok (l.map (fun _ => (PyVal.none : V))) := by
  intro l
  induction l with
  | nil => intro _; rfl
  | cons a rest ih =>
    intro h
    obtain ⟨i, rfl, hge, hlt⟩ := h a (by simp)
    have hget : (penv ++ List.replicate m (PyVal.none : V))[i]? = some PyVal.none := by
      rw [List.getElem?_append_right (by rw [hlen]; exact hge), hlen]
      rw [List.getElem?_replicate]
      have : i - n < m := by omega
      simp [this]
    have ha : evalArg (penv ++ List.replicate m (PyVal.none : V)) (Arg.var i []) = .ok PyVal.none := by
      simp only [evalArg, hget]; rfl
    have ih' := ih (fun x hx => h x (by simp [hx]))
    simp only [List.mapM_cons, ha, ih', List.map_cons]
    rfl

theorem map_none_eq_replicate {α : Type} (l : List α) :
    l.map (fun _ => (PyVal.none : V)) = List.replicate l.length PyVal.none := by
  induction l with
  | nil => rfl
  | cons a l ih => simp [List.replicate_succ, ih]

/-- the statement proved for the dead scope at one fuel level (used as induction hypothesis) -/
def DeadIH (interp : Interp V) (defs : List (Def V)) (fuel : Nat) : Prop :=
  ∀ (stmts : List (Stmt V)) (st : BState V) (vals : List V) (st' : BState V) (r : Ref),
    DeadStmts defs stmts → Good (withIdent interp) st vals → FlagVal (withIdent interp) st (some r) false →
    traceStmts defs fuel st (some r) stmts = .ok st' →
    Good (withIdent interp) st' (vals ++ List.replicate (bound defs stmts) PyVal.none) ∧ Grows (withIdent interp) st st'

/-- **a nested call whose imposed flag is falsy**: every returned reference denotes None -/
theorem deadCall_good (interp : Interp V) (defs : List (Def V)) (fuel : Nat) (IH : DeadIH interp defs fuel)
    {st : BState V} {vals : List V} (r : Ref) (d : Def V) (hd : DeadDef defs d) (args : List (Arg V))
    (hg : Good (withIdent interp) st vals) (hf : FlagVal (withIdent interp) st (some r) false)
    {p2 : BState V × List Ref} {st3 : BState V}
    (hbr : bindParamRefs (traceArgs st args).1 (some r) d.params (traceArgs st args).2 = .ok p2)
    (hbody : traceStmts defs fuel { p2.1 with env := p2.2 } (some r) d.body = .ok st3) :
    Good (withIdent interp)
      ({ (traceArgs st3 d.ret.comps).1 with env := p2.1.env ++ (traceArgs st3 d.ret.comps).2 } : BState V)
      (vals ++ d.ret.comps.map (fun _ => (PyVal.none : V))) ∧
    Grows (withIdent interp) st
      ({ (traceArgs st3 d.ret.comps).1 with env := p2.1.env ++ (traceArgs st3 d.ret.comps).2 } : BState V) := by
  cases hd with
  | mk _ hdb hrw =>
    -- 1. arguments
    have e1 := traceArgs_ext args st
    have hg1 := good_of_ext hg e1
    have hgr1 := grows_of_ext hg e1
    have hlt1 := traceArgs_lt args st (env_lt_of_good hg)
    -- 2. parameters
    obtain ⟨hg2, hgr2, _, penv, hlen, hsp⟩ := bindParamRefs_dead interp r d.params (traceArgs st args).1 vals
      (traceArgs st args).2 p2.1 p2.2 hg1 (hf.grows hgr1) hlt1 (by rw [hbr])
    have hg2' : Good (withIdent interp) ({ p2.1 with env := p2.2 } : BState V) penv := good_setEnv hg2 p2.2 hsp
    have hf2 : FlagVal (withIdent interp) ({ p2.1 with env := p2.2 } : BState V) (some r) false :=
      ((hf.grows hgr1).grows hgr2).setEnv _
    -- 3. the callee's body
    obtain ⟨hg3, hgr3⟩ := IH d.body _ penv st3 r hdb hg2' hf2 hbody
    have hgr23 : Grows (withIdent interp) p2.1 st3 := ⟨hgr3.next, hgr3.den⟩
    -- 4. the callee's outputs
    have hos := mapM_evalArg_dead d.params.length (bound defs d.body) penv hlen d.ret.comps hrw
    have e4 := traceArgs_ext d.ret.comps st3
    have hg4 := good_of_ext hg3 e4
    have hgr4 := grows_of_ext hg3 e4
    have hso := traceArgs_sees (ρ' := den ((traceArgs st3 d.ret.comps).1.cfg (withIdent interp))) hg3.sees
      d.ret.comps st3 (traceArgs st3 d.ret.comps).1 _ (Ext.refl st3) (Ext.refl _) (shows_den hg3 e4) hos
    -- 5. back in the caller's environment
    have hsouter := sees_grows hg2.sees (hgr23.trans hgr4)
    have hsees5 := sees_append hsouter hso
    refine ⟨good_setEnv hg4 _ hsees5, ?_⟩
    have := ((hgr1.trans hgr2).trans hgr23).trans hgr4
    exact ⟨this.next, this.den⟩

theorem replicate_append_none (vals : List V) (k m : Nat) :
    (vals ++ List.replicate k (PyVal.none : V)) ++ List.replicate m PyVal.none =
    vals ++ List.replicate (m + k) PyVal.none := by
  rw [List.append_assoc, List.replicate_append_replicate, Nat.add_comm]

/-- **the dead scope**: under a falsy imposed flag every variable the statements bind denotes None -/
theorem traceStmts_dead (interp : Interp V) (defs : List (Def V)) : ∀ (fuel : Nat), DeadIH interp defs fuel := by
  intro fuel
  induction fuel with
  | zero =>
    intro stmts
    induction stmts with
    | nil =>
      intro st vals st' r _ hg _ htr
      simp only [traceStmts] at htr
      have : st = st' := by injection htr
      subst this
      exact ⟨by simpa [bound] using hg, Grows.refl _ _⟩
    | cons s rest ihs =>
      intro st vals st' r hds hg hf htr
      cases hds with
      | call c _ hrest =>
        simp only [traceStmts] at htr
        cases h1 : traceCallWith st c (some r) with
        | error e => simp [h1] at htr
        | ok st1 =>
          simp only [h1] at htr
          obtain ⟨hg1, hgr1⟩ := traceCallWith_good (withIdent interp) c r false (v := PyVal.none) hg hf
            (fun h => by cases h) (fun _ => rfl) h1
          obtain ⟨hg2, hgr2⟩ := ihs st1 _ st' r hrest hg1 (hf.grows hgr1) htr
          refine ⟨?_, hgr1.trans hgr2⟩
          have := replicate_append_none vals 1 (bound defs rest)
          simp only [List.replicate_one] at this
          rw [this] at hg2
          exact hg2
      | dag j args act d _ _ _ _ => simp [traceStmts] at htr
  | succ fuel ihf =>
    intro stmts
    induction stmts with
    | nil =>
      intro st vals st' r _ hg _ htr
      simp only [traceStmts] at htr
      have : st = st' := by injection htr
      subst this
      exact ⟨by simpa [bound] using hg, Grows.refl _ _⟩
    | cons s rest ihs =>
      intro st vals st' r hds hg hf htr
      cases hds with
      | call c _ hrest =>
        simp only [traceStmts] at htr
        cases h1 : traceCallWith st c (some r) with
        | error e => simp [h1] at htr
        | ok st1 =>
          simp only [h1] at htr
          obtain ⟨hg1, hgr1⟩ := traceCallWith_good (withIdent interp) c r false (v := PyVal.none) hg hf
            (fun h => by cases h) (fun _ => rfl) h1
          obtain ⟨hg2, hgr2⟩ := ihs st1 _ st' r hrest hg1 (hf.grows hgr1) htr
          refine ⟨?_, hgr1.trans hgr2⟩
          have := replicate_append_none vals 1 (bound defs rest)
          simp only [List.replicate_one] at this
          rw [this] at hg2
          exact hg2
      | dag j args act d _ hj hdd hrest =>
        simp only [traceStmts, hj] at htr
        cases act with
        | some a => simp [nestedFlag] at htr
        | none =>
          simp only [nestedFlag] at htr
          cases hbr : bindParamRefs (traceArgs st args).1 (some r) d.params (traceArgs st args).2 with
          | error e => simp [hbr] at htr
          | ok p2 =>
            simp only [hbr] at htr
            cases hbody : traceStmts defs fuel { p2.1 with env := p2.2 } (some r) d.body with
            | error e => simp [hbody] at htr
            | ok st3 =>
              simp only [hbody] at htr
              obtain ⟨hg5, hgr5⟩ := deadCall_good interp defs fuel ihf r d hdd args hg hf hbr hbody
              obtain ⟨hg6, hgr6⟩ := ihs _ _ st' r hrest hg5 (hf.grows hgr5) htr
              refine ⟨?_, hgr5.trans hgr6⟩
              rw [map_none_eq_replicate, replicate_append_none] at hg6
              simpa [bound, hj] using hg6

end VM

namespace VM
open TM
variable {V : Type} [PyVal V]

/-- what `nestedFlag` yields for a nested call reached in a LIVE scope: the flag to impose on the
    callee and its value -/
theorem nestedFlag_live (interp : Interp V) {st : BState V} {vals : List V} {ovr : Option Ref} {act : Option (Arg V)}
    {b : Bool} {p0 : BState V × Option Ref} (hg : Good interp st vals) (hf : FlagVal interp st ovr true)
    (hev : evalFlag vals act = .ok b) (hnf : nestedFlag st ovr act = .ok p0) :
    Ext st p0.1 ∧ FlagVal interp p0.1 p0.2 b ∧ (b = false → ovr = none ∧ ∃ a, act = some a) := by
  cases ovr with
  | none =>
    cases act with
    | none =>
      simp only [nestedFlag] at hnf
      simp only [evalFlag] at hev
      have hb : b = true := by injection hev with h; exact h.symm
      have : p0 = (st, none) := by injection hnf with h; exact h.symm
      subst this; subst hb
      exact ⟨Ext.refl st, rfl, fun h => by cases h⟩
    | some a =>
      simp only [nestedFlag] at hnf
      have : p0 = ((traceArg st a).1, some (traceArg st a).2) := by injection hnf with h; exact h.symm
      subst this
      simp only [evalFlag] at hev
      cases hu : evalArg vals a with
      | error e => simp [hu, bind, Except.bind] at hev
      | ok u =>
        simp [hu, bind, Except.bind, pure, Except.pure] at hev
        have e0 := traceArg_ext st a
        obtain ⟨hlt, w, hw, hidx⟩ := traceArg_sees (ρ' := den ((traceArg st a).1.cfg interp)) a hg.sees
          (Ext.refl st) (Ext.refl _) (shows_den hg e0) hu
        exact ⟨e0, ⟨hlt, w, u, hw, hidx, hev⟩, fun _ => ⟨rfl, a, rfl⟩⟩
  | some r =>
    cases act with
    | some a => simp [nestedFlag] at hnf
    | none =>
      simp only [nestedFlag] at hnf
      simp only [evalFlag] at hev
      have hb : b = true := by injection hev with h; exact h.symm
      have : p0 = (st, some r) := by injection hnf with h; exact h.symm
      subst this; subst hb
      exact ⟨Ext.refl st, hf, fun h => by cases h⟩

/-- **tracer correctness with flags on nested calls**: in a live scope (no imposed flag, or an imposed
    flag whose value is truthy) tracing preserves `Good` against plain evaluation -/
theorem traceStmts_goodF (interp : Interp V) (defs : List (Def V)) (hfs : FlagSafe defs) :
    ∀ (fuel : Nat) (stmts : List (Stmt V)) (st : BState V) (ovr : Option Ref) (vals valsF : List V) (st' : BState V),
      (∀ s ∈ stmts, Stmt.flagSafe defs s) →
      Good (withIdent interp) st vals → FlagVal (withIdent interp) st ovr true →
      evalStmts (withIdent interp) defs fuel stmts vals = .ok valsF →
      traceStmts defs fuel st ovr stmts = .ok st' →
      Good (withIdent interp) st' valsF ∧ Grows (withIdent interp) st st'
  | _, [], st, ovr, vals, valsF, st', _, hg, _, hev, htr => by
    simp only [evalStmts] at hev
    simp only [traceStmts] at htr
    have h1 : vals = valsF := by injection hev
    have h2 : st = st' := by injection htr
    subst h1; subst h2
    exact ⟨hg, Grows.refl _ _⟩
  | fuel, .call c none :: rest, st, ovr, vals, valsF, st', hnd, hg, hf, hev, htr => by
    simp only [evalStmts] at hev
    simp only [traceStmts] at htr
    cases hc : evalCall (withIdent interp) vals c with
    | error e => simp [hc] at hev
    | ok v =>
      simp only [hc] at hev
      cases h1 : traceCallWith st c ovr with
      | error e => simp [h1] at htr
      | ok st1 =>
        simp only [h1] at htr
        have hstep : Good (withIdent interp) st1 (vals ++ [v]) ∧ Grows (withIdent interp) st st1 := by
          cases ovr with
          | none =>
            simp only [traceCallWith] at h1
            have : traceCall st c = st1 := by injection h1
            subst this
            exact ⟨traceCall_good (withIdent interp) c hg hc, traceCall_grows (withIdent interp) c hg hc⟩
          | some r =>
            exact traceCallWith_good (withIdent interp) c r true hg hf (fun _ => hc) (fun h => by cases h) h1
        obtain ⟨hg1, hgr1⟩ := hstep
        obtain ⟨hg2, hgr2⟩ := traceStmts_goodF interp defs hfs fuel rest st1 ovr (vals ++ [v]) valsF st'
          (fun s hs => hnd s (by simp [hs])) hg1 (hf.grows hgr1) hev htr
        exact ⟨hg2, hgr1.trans hgr2⟩
  | fuel, .call c (some k) :: rest, st, ovr, vals, valsF, st', hnd, hg, hf, hev, htr => by
    simp only [evalStmts] at hev
    simp only [traceStmts] at htr
    cases hc : evalCall (withIdent interp) vals c with
    | error e => simp [hc] at hev
    | ok v =>
      simp only [hc] at hev
      cases hu : unpackVals v k with
      | error e => simp [hu] at hev
      | ok comps =>
        simp only [hu] at hev
        cases h1 : traceCallWith st c ovr with
        | error e => simp [h1] at htr
        | ok st1 =>
          simp only [h1] at htr
          have hstep : Good (withIdent interp) st1 (vals ++ [v]) ∧ Grows (withIdent interp) st st1 := by
            cases ovr with
            | none =>
              simp only [traceCallWith] at h1
              have : traceCall st c = st1 := by injection h1
              subst this
              exact ⟨traceCall_good (withIdent interp) c hg hc, traceCall_grows (withIdent interp) c hg hc⟩
            | some r =>
              exact traceCallWith_good (withIdent interp) c r true hg hf (fun _ => hc) (fun h => by cases h) h1
          obtain ⟨hg1, hgr1⟩ := hstep
          have hg1' := good_rebind hg1 hu
          have hgr1' := rebind_grows (withIdent interp) st1 k
          obtain ⟨hg2, hgr2⟩ := traceStmts_goodF interp defs hfs fuel rest (rebindUnpack st1 k) ovr
            (vals ++ comps) valsF st' (fun s hs => hnd s (by simp [hs])) hg1' (hf.grows (hgr1.trans hgr1')) hev htr
          exact ⟨hg2, (hgr1.trans hgr1').trans hgr2⟩
  | 0, .dag _ _ _ :: _, _, _, _, _, _, _, _, _, hev, _ => by
    simp [evalStmts] at hev
  | fuel+1, .dag j args act :: rest, st, ovr, vals, valsF, st', hnd, hg, hf, hev, htr => by
    simp only [evalStmts] at hev
    simp only [traceStmts] at htr
    cases hd : defs[j]? with
    | none => simp [hd] at hev
    | some d =>
      simp only [hd] at hev htr
      have hdmem : d ∈ defs := List.mem_of_getElem? hd
      cases hfl : evalFlag vals act with
      | error e => simp [hfl] at hev
      | ok b =>
        simp only [hfl] at hev
        cases hnf : nestedFlag st ovr act with
        | error e => simp [hnf] at htr
        | ok p0 =>
          simp only [hnf] at htr
          obtain ⟨e0, hf0, hdead⟩ := nestedFlag_live (withIdent interp) hg hf hfl hnf
          have hg0 := good_of_ext hg e0
          have hgr0 := grows_of_ext hg e0
          cases hbr : bindParamRefs (traceArgs p0.1 args).1 p0.2 d.params (traceArgs p0.1 args).2 with
          | error e => simp [hbr] at htr
          | ok p2 =>
            simp only [hbr] at htr
            cases hbody : traceStmts defs fuel { p2.1 with env := p2.2 } p0.2 d.body with
            | error e => simp [hbody] at htr
            | ok st3 =>
              simp only [hbody] at htr
              cases b with
              | false =>
                -- the flag is falsy: the specification binds None to every output
                simp only at hev
                obtain ⟨hovr, a, hact⟩ := hdead rfl
                have hsafe : DeadDef defs d := by
                  have := hnd (.dag j args act) (by simp)
                  rw [hact] at this
                  exact this d hd
                cases hp02 : p0.2 with
                | none => rw [hp02] at hf0; cases hf0
                | some r =>
                  rw [hp02] at hf0 hbr hbody
                  obtain ⟨hg5, hgr5⟩ := deadCall_good interp defs fuel (traceStmts_dead interp defs fuel) r d hsafe args
                    hg0 hf0 hbr hbody
                  have hgr05 := hgr0.trans hgr5
                  obtain ⟨hg6, hgr6⟩ := traceStmts_goodF interp defs hfs (fuel+1) rest _ ovr _ valsF st'
                    (fun s hs => hnd s (by simp [hs])) hg5 (hf.grows hgr05) hev htr
                  exact ⟨hg6, hgr05.trans hgr6⟩
              | true =>
                simp only at hev
                cases hvs : args.mapM (evalArg vals) with
                | error e => simp [hvs] at hev
                | ok vs =>
                  simp only [hvs] at hev
                  cases hbp : bindParams d.params vs with
                  | error e => simp [hbp] at hev
                  | ok penv =>
                    simp only [hbp] at hev
                    cases hin : evalStmts (withIdent interp) defs fuel d.body penv with
                    | error e => simp [hin] at hev
                    | ok ienv =>
                      simp only [hin] at hev
                      cases hos : d.ret.comps.mapM (evalArg ienv) with
                      | error e => simp [hos] at hev
                      | ok outs =>
                        simp only [hos] at hev
                        -- 1. arguments
                        have e1 := traceArgs_ext args p0.1
                        have hg1 := good_of_ext hg0 e1
                        have hgr1 := grows_of_ext hg0 e1
                        have hsa := traceArgs_sees (ρ' := den ((traceArgs p0.1 args).1.cfg (withIdent interp))) hg0.sees args p0.1
                          (traceArgs p0.1 args).1 vs (Ext.refl p0.1) (Ext.refl _) (shows_den hg0 e1) hvs
                        -- 2. parameters
                        obtain ⟨hg2, hgr2, henv2, hsp⟩ := bindParamRefs_live interp p0.2 d.params (traceArgs p0.1 args).1 vals
                          (traceArgs p0.1 args).2 vs penv p2.1 p2.2 hg1 (hf0.grows hgr1) hsa hbp (by rw [hbr])
                        have hg2' : Good (withIdent interp) ({ p2.1 with env := p2.2 } : BState V) penv :=
                          good_setEnv hg2 p2.2 hsp
                        have hf2 : FlagVal (withIdent interp) ({ p2.1 with env := p2.2 } : BState V) p0.2 true :=
                          ((hf0.grows hgr1).grows hgr2).setEnv _
                        -- 3. the callee's body (smaller fuel), under the imposed flag
                        obtain ⟨hg3, hgr3⟩ := traceStmts_goodF interp defs hfs fuel d.body _ p0.2 penv ienv st3
                          (hfs d hdmem) hg2' hf2 hin hbody
                        have hgr23 : Grows (withIdent interp) p2.1 st3 := ⟨hgr3.next, hgr3.den⟩
                        -- 4. the callee's outputs
                        have e4 := traceArgs_ext d.ret.comps st3
                        have hg4 := good_of_ext hg3 e4
                        have hgr4 := grows_of_ext hg3 e4
                        have hso := traceArgs_sees (ρ' := den ((traceArgs st3 d.ret.comps).1.cfg (withIdent interp))) hg3.sees
                          d.ret.comps st3 (traceArgs st3 d.ret.comps).1 outs (Ext.refl st3) (Ext.refl _) (shows_den hg3 e4) hos
                        -- 5. back in the caller's environment
                        have hsouter := sees_grows hg2.sees (hgr23.trans hgr4)
                        have hsees5 := sees_append hsouter hso
                        have hg5 : Good (withIdent interp)
                            ({ (traceArgs st3 d.ret.comps).1 with env := p2.1.env ++ (traceArgs st3 d.ret.comps).2 } : BState V)
                            (vals ++ outs) := good_setEnv hg4 _ hsees5
                        have hgr05 : Grows (withIdent interp) st
                            ({ (traceArgs st3 d.ret.comps).1 with env := p2.1.env ++ (traceArgs st3 d.ret.comps).2 } : BState V) := by
                          have := (((hgr0.trans hgr1).trans hgr2).trans hgr23).trans hgr4
                          exact ⟨this.next, this.den⟩
                        obtain ⟨hg6, hgr6⟩ := traceStmts_goodF interp defs hfs (fuel+1) rest _ ovr (vals ++ outs) valsF st'
                          (fun s hs => hnd s (by simp [hs])) hg5 (hf.grows hgr05) hev htr
                        exact ⟨hg6, hgr05.trans hgr6⟩
termination_by fuel stmts => (fuel, stmts.length)

end VM

namespace VM
open TM
variable {V : Type} [PyVal V]

/-- **C20 / C01 / C10 for nested programs with flags on nested calls** (model level).  As
    `C20_nested_inlining`, for every module in which each *flagged* nested call targets a callee that
    returns only whole results of its own nodes and does not use `unpack_to` (`FlagSafe`; modules
    without flagged nested calls are a special case, `flagSafe_of_noDagFlags`).  Plain evaluation is the
    inlining specification: `outs = inner(args) if flag else (None, …)`. -/
theorem C20_nested_inlining_flags (interp : Interp V) (defs : List (Def V)) (hfs : FlagSafe defs) (i : Nat)
    (args outs : List V) (hev : evalTopComps (withIdent interp) defs i args = .ok outs)
    (st : BState V) (refs : List Ref) (htr : traceTopComps defs i args = .ok (st, refs))
    (a : Attrs) {tr : List Label} {vs : VSt V}
    (hrun : VRun (st.cfg (withIdent interp)) a tr vs) (hdone : vs.st.pc = .done) :
    refs.length = outs.length ∧
    ∀ (k : Nat) (r : Ref), refs[k]? = some r → ∃ v, outs[k]? = some v ∧ resolve vs.ρ r = .ok v := by
  unfold evalTopComps at hev
  unfold traceTopComps at htr
  cases hd : defs[i]? with
  | none => simp [hd] at hev
  | some d =>
    simp only [hd] at hev htr
    have hdmem : d ∈ defs := List.mem_of_getElem? hd
    cases hbp : bindParams d.params args with
    | error e => simp [hbp] at hev
    | ok penv =>
      simp only [hbp] at hev htr
      cases hin : evalStmts (withIdent interp) defs defs.length d.body penv with
      | error e => simp [hin] at hev
      | ok env =>
        simp only [hin] at hev
        cases hb : traceStmts defs defs.length (initState penv) none d.body with
        | error e => simp [hb] at htr
        | ok st3 =>
          simp only [hb] at htr
          have hpair : traceArgs st3 d.ret.comps = (st, refs) := by injection htr
          obtain ⟨hg3, _⟩ := traceStmts_goodF interp defs hfs defs.length d.body (initState penv) none penv env st3
            (hfs d hdmem) (good_init _ penv) rfl hin hb
          have e4 := traceArgs_ext d.ret.comps st3
          have hg4 := good_of_ext hg3 e4
          have hso := traceArgs_sees (ρ' := den ((traceArgs st3 d.ret.comps).1.cfg (withIdent interp))) hg3.sees
            d.ret.comps st3 (traceArgs st3 d.ret.comps).1 outs (Ext.refl st3) (Ext.refl _) (shows_den hg3 e4) hev
          rw [hpair] at hso hg4
          have hwf := wf_of_good hg4
          have hρ := C01_core _ a hwf hrun hdone
          refine ⟨hso.1, ?_⟩
          intro k r hk
          obtain ⟨_, w, v, hw, hv, hidx⟩ := hso.2 k r hk
          refine ⟨v, hv, ?_⟩
          simp only [resolve, hρ r.src, hw]
          exact hidx

/-! ### an executable check of `FlagSafe` (run by the driver on every generated module) -/

def argWholeB (lo hi : Nat) : Arg V → Bool
  | .var i [] => decide (lo ≤ i) && decide (i < hi)
  | _ => false

def deadStmtsB (defs : List (Def V)) : Nat → List (Stmt V) → Bool
  | _, [] => true
  | fuel, .call _ none :: rest => deadStmtsB defs fuel rest
  | _, .call _ (some _) :: _ => false
  | 0, .dag _ _ _ :: _ => false
  | fuel+1, .dag j _ _ :: rest =>
    match defs[j]? with
    | none => false
    | some d =>
      deadStmtsB defs fuel d.body &&
      d.ret.comps.all (argWholeB d.params.length (d.params.length + bound defs d.body)) &&
      deadStmtsB defs (fuel+1) rest
termination_by fuel stmts => (fuel, stmts.length)

def deadDefB (defs : List (Def V)) (fuel : Nat) (d : Def V) : Bool :=
  deadStmtsB defs fuel d.body && d.ret.comps.all (argWholeB d.params.length (d.params.length + bound defs d.body))

def stmtFlagSafeB (defs : List (Def V)) : Stmt V → Bool
  | .dag j _ (some _) => match defs[j]? with | none => true | some d => deadDefB defs defs.length d
  | _ => true

def flagSafeB (defs : List (Def V)) : Bool := defs.all (fun d => d.body.all (stmtFlagSafeB defs))

theorem argWholeB_sound {lo hi : Nat} {a : Arg V} (h : argWholeB lo hi a = true) :
    ∃ i, a = Arg.var i [] ∧ lo ≤ i ∧ i < hi := by
  cases a with
  | const v => simp [argWholeB] at h
  | var i path =>
    cases path with
    | nil =>
      simp only [argWholeB, Bool.and_eq_true, decide_eq_true_eq] at h
      exact ⟨i, rfl, h.1, h.2⟩
    | cons k ks => simp [argWholeB] at h

theorem retWhole_of_all {defs : List (Def V)} {d : Def V}
    (h : d.ret.comps.all (argWholeB d.params.length (d.params.length + bound defs d.body)) = true) : RetWhole defs d := by
  intro a ha
  exact argWholeB_sound (List.all_eq_true.mp h a ha)

theorem deadStmtsB_sound (defs : List (Def V)) : ∀ (fuel : Nat) (stmts : List (Stmt V)),
    deadStmtsB defs fuel stmts = true → DeadStmts defs stmts
  | _, [], _ => .nil
  | fuel, .call c none :: rest, h => by
    simp only [deadStmtsB] at h
    exact .call c rest (deadStmtsB_sound defs fuel rest h)
  | _, .call _ (some _) :: _, h => by simp [deadStmtsB] at h
  | 0, .dag _ _ _ :: _, h => by simp [deadStmtsB] at h
  | fuel+1, .dag j args act :: rest, h => by
    simp only [deadStmtsB] at h
    cases hd : defs[j]? with
    | none => simp [hd] at h
    | some d =>
      simp only [hd, Bool.and_eq_true] at h
      exact .dag j args act d rest hd (.mk d (deadStmtsB_sound defs fuel d.body h.1.1) (retWhole_of_all h.1.2))
        (deadStmtsB_sound defs (fuel+1) rest h.2)
termination_by fuel stmts => (fuel, stmts.length)

theorem flagSafeB_sound (defs : List (Def V)) (h : flagSafeB defs = true) : FlagSafe defs := by
  intro d hd s hs
  have h1 := List.all_eq_true.mp (List.all_eq_true.mp h d hd) s hs
  cases s with
  | call c u => trivial
  | dag j args act =>
    cases act with
    | none => trivial
    | some a =>
      intro dj hj
      simp only [stmtFlagSafeB, hj, deadDefB, Bool.and_eq_true] at h1
      exact .mk dj (deadStmtsB_sound defs _ dj.body h1.1) (retWhole_of_all h1.2)

end VM
