import VM.Compose
import VM.History3
/-! Why reusing a setup value is harmless (C11, semantic side).

    The build-time validation (`LazyExecNode._validate_dependencies`, `DiGraphEx.from_exec_nodes`) refuses a DAG
    in which a setup node depends on anything but setup nodes and constants — in particular on a DAG argument.
    Model: a region `S` of the table that is closed under ALL references (`regionClosedB`).  Then the value a run
    computes on `S` depends only on the initial results on `S`: not on the call's arguments, not on anything
    outside.  Consequently the value a setup node gets in the call that first runs it is the value ANY call would
    compute for it: `copyBack` + reuse never changes what a later call returns. -/
namespace VM
open TM
variable {V : Type} [PyVal V]

/-- every reference of a selected node of the region stays in the region (executable: a driver can check it) -/
def regionClosedB (recOf : Node → NodeRec) (sel : List Node) (S : Node → Bool) : Bool :=
  sel.all fun n => !S n || (recOf n).refs.all fun r => S r.src

def AgreeOn (S : Node → Bool) (σ τ : Results V) : Prop := ∀ x, S x = true → σ x = τ x

/-- inside a reference-closed region the denotation only reads the region -/
theorem denote_agreeOn (c : ECfg V) (S : Node → Bool) :
    ∀ (rest : List Node), (∀ n ∈ rest, S n = true ∧ ∀ r ∈ (c.recOf n).refs, S r.src = true) →
      ∀ (σ τ : Results V), AgreeOn S σ τ → AgreeOn S (denote c rest σ) (denote c rest τ) := by
  intro rest
  induction rest with
  | nil => intro _ σ τ h; exact h
  | cons n rest ih =>
    intro hmem σ τ hag
    have hrest : ∀ m ∈ rest, S m = true ∧ ∀ r ∈ (c.recOf m).refs, S r.src = true :=
      fun m hm => hmem m (by simp [hm])
    have hsrc : ∀ r ∈ (c.recOf n).refs, σ r.src = τ r.src := fun r hr => hag _ ((hmem n (by simp)).2 r hr)
    simp only [denote]
    rw [outcome_congr c hsrc]
    cases outcome c τ n with
    | none => exact ih hrest σ τ hag
    | some v =>
      apply ih hrest
      intro x hx
      by_cases hxn : x = n
      · subst hxn; rw [set_eq, set_eq]
      · rw [set_ne hxn, set_ne hxn]; exact hag x hx

theorem denote_init_field (c : ECfg V) (init' : Results V) (l : List Node) (ρ : Results V) :
    denote { c with init := init' } l ρ = denote c l ρ := by
  induction l generalizing ρ with
  | nil => rfl
  | cons n rest ih =>
    simp only [denote]
    have : outcome { c with init := init' } ρ n = outcome c ρ n := rfl
    rw [this]
    cases outcome c ρ n with
    | none => exact ih ρ
    | some v => exact ih _

/-- **two runs of one selection whose initial results agree on a reference-closed region compute the same values
    on that region** — whatever they were given elsewhere (arguments, defaults, cached values). -/
theorem runCfg_den_agree (i : Inst V) (sel : List Node) (init1 init2 : Results V) (S : Node → Bool)
    (hcl : regionClosedB i.dag.recOf sel S = true) (hag : AgreeOn S init1 init2) :
    AgreeOn S (den (runCfg i sel init1)) (den (runCfg i sel init2)) := by
  intro x hx
  have hclosed : ∀ n ∈ sel, S n = true → ∀ r ∈ (i.dag.recOf n).refs, S r.src = true := by
    intro n hn hS r hr
    have := List.all_eq_true.mp hcl n hn
    simp only [hS, Bool.not_true, Bool.false_or, List.all_eq_true] at this
    exact this r hr
  have hcb : ∀ (init : Results V), isClosedB (runCfg i sel init) S = true := by
    intro init
    apply List.all_eq_true.mpr
    intro n hn
    have hns : n ∈ sel := (List.mem_filter.mp hn).1
    cases hS : S n with
    | false => simp
    | true =>
      simp only [Bool.not_true, Bool.false_or, List.all_eq_true]
      intro r hr
      have : S r.src = true := hclosed n hns hS r hr
      simp [this]
  rw [← den_restrict (runCfg i sel init1) S (hcb init1) x (Or.inr hx),
      ← den_restrict (runCfg i sel init2) S (hcb init2) x (Or.inr hx)]
  -- the two restricted tables list the same nodes
  have hnodes : (sel.filter fun n => (init1 n).isNone).filter S = (sel.filter fun n => (init2 n).isNone).filter S := by
    rw [List.filter_filter, List.filter_filter]
    apply List.filter_congr
    intro n _
    cases hS : S n with
    | false => simp
    | true => simp [hag n hS]
  have hin : ∀ n ∈ (sel.filter fun n => (init1 n).isNone).filter S,
      S n = true ∧ ∀ r ∈ (i.dag.recOf n).refs, S r.src = true := by
    intro n hn
    have h1 := List.mem_filter.mp hn
    have hns : n ∈ sel := (List.mem_filter.mp h1.1).1
    exact ⟨h1.2, hclosed n hns h1.2⟩
  show denote (restrict (runCfg i sel init1) S) ((sel.filter fun n => (init1 n).isNone).filter S) init1 x
     = denote (restrict (runCfg i sel init2) S) ((sel.filter fun n => (init2 n).isNone).filter S) init2 x
  rw [← hnodes]
  have e : restrict (runCfg i sel init2) S
      = { restrict (runCfg i sel init1) S with
            nodes := (sel.filter fun n => (init2 n).isNone).filter S, init := init2 } := rfl
  have d2 : denote (restrict (runCfg i sel init2) S) ((sel.filter fun n => (init1 n).isNone).filter S) init2
      = denote (restrict (runCfg i sel init1) S) ((sel.filter fun n => (init1 n).isNone).filter S) init2 := by
    -- `denote` reads `recOf` and `interp` only
    have : ∀ (l : List Node) (ρ : Results V),
        denote (restrict (runCfg i sel init2) S) l ρ = denote (restrict (runCfg i sel init1) S) l ρ := by
      intro l
      induction l with
      | nil => intro ρ; rfl
      | cons n rest ih =>
        intro ρ
        simp only [denote]
        have ho : outcome (restrict (runCfg i sel init2) S) ρ n = outcome (restrict (runCfg i sel init1) S) ρ n := rfl
        rw [ho]
        cases outcome (restrict (runCfg i sel init1) S) ρ n with
        | none => exact ih ρ
        | some v => exact ih _
    exact this _ _
  rw [d2]
  exact denote_agreeOn (restrict (runCfg i sel init1) S) S _ hin init1 init2 hag x hx

/-- **C11 (semantics of reuse)**: in a DAG whose setup region is reference-closed and contains no parameter, the
    value any call computes on the region does not depend on the call's arguments. -/
theorem setup_value_independent_of_arguments (i : Inst V) (sel : List Node) (S : Node → Bool)
    (hcl : regionClosedB i.dag.recOf sel S = true) (hpar : ∀ p ∈ i.dag.params, S p = false)
    (args1 args2 : List V) :
    AgreeOn S (den (opCfg i (.call sel args1))) (den (opCfg i (.call sel args2))) := by
  apply runCfg_den_agree i sel _ _ S hcl
  intro x hx
  have hx' : x ∉ i.dag.params := fun h => by rw [hpar x h] at hx; cases hx
  rw [bindArgs_notin _ _ _ _ hx', bindArgs_notin _ _ _ _ hx']

end VM
