import VM.FlagThm
import TM.Term4
/-! C09 for the DAGs the tracer builds: the hypotheses of `TM.C09_bound` (duplicate-free node list,
    acyclic dependencies) are not assumptions about "some DAG" — every table traced from a describing
    function satisfies them, so every scheduler run on it is bounded. -/
namespace VM
open TM
variable {V : Type} [PyVal V]

/-- a traced table is acyclic: every reference of a recorded node points to a strictly smaller index,
    and only recorded nodes have a record -/
theorem acyclic_of_good {interp : Interp V} {st : BState V} {vals : List V} (hg : Good interp st vals)
    (a : Attrs) (act fl : Node → Bool) : Acyclic (cfgWith (st.cfg interp) a act fl) := by
  refine ⟨id, ?_⟩
  intro n p hp
  have hp' : p ∈ ((st.recOf n).refs.map (·.src)) := hp
  obtain ⟨r, hr, rfl⟩ := List.mem_map.mp hp'
  by_cases hn : n ∈ st.nodes
  · exact hg.rlt n hn r hr
  · rw [hg.norec n hn] at hr; simp at hr

/-- **C09 for traced DAGs**: whatever describing module is traced (nested calls, flags, defaults,
    `unpack_to`), with adversarial activeness and failures of nodes, any attribute assignment and any
    `max_concurrency ≥ 1`: every run of the scheduler on the traced table has at most
    `32 · |nodes| + 12` steps — no infinite execution, no spinning. -/
theorem C09_traced_terminates (interp : Interp V) (defs : List (Def V)) (hfs : FlagSafe defs) (i : Nat)
    (args outs : List V) (hev : evalTopComps (withIdent interp) defs i args = .ok outs)
    (st : BState V) (refs : List Ref) (htr : traceTopComps defs i args = .ok (st, refs))
    (a : Attrs) (hm : 0 < a.maxc) (act fl : Node → Bool) {tr : List Label} {s : St}
    (hrun : Run (cfgWith (st.cfg (withIdent interp)) a act fl) tr s) :
    tr.length ≤ 32 * st.nodes.length + 12 := by
  unfold evalTopComps at hev
  unfold traceTopComps at htr
  cases hd : defs[i]? with
  | none => simp [hd] at hev
  | some d =>
    simp only [hd] at hev htr
    have hdmem : d ∈ defs := List.mem_of_getElem? hd
    cases hbp : bindParams d.params args with
    | error e => simp [hbp] at hev
    | ok penv =>
      simp only [hbp] at hev htr
      cases hin : evalStmts (withIdent interp) defs defs.length d.body penv with
      | error e => simp [hin] at hev
      | ok env =>
        cases hb : traceStmts defs defs.length (initState penv) none d.body with
        | error e => simp [hb] at htr
        | ok st3 =>
          simp only [hb] at htr
          have hpair : traceArgs st3 d.ret.comps = (st, refs) := by injection htr
          obtain ⟨hg3, _⟩ := traceStmts_goodF interp defs hfs defs.length d.body (initState penv) none penv env st3
            (hfs d hdmem) (good_init _ penv) rfl hin hb
          have hg4 := good_of_ext hg3 (traceArgs_ext d.ret.comps st3)
          rw [hpair] at hg4
          exact C09_bound (cfgWith (st.cfg (withIdent interp)) a act fl) (pairwise_lt_nodup hg4.sorted)
            (acyclic_of_good hg4 a act fl) hm hrun

end VM

namespace VM
open TM
variable {V : Type} [PyVal V]

/-- C03 (build half) for modules with flags on nested calls: every call site is a node of its own -/
theorem C03_distinct_call_sites_flags (interp : Interp V) (defs : List (Def V)) (hfs : FlagSafe defs) (i : Nat)
    (args outs : List V) (hev : evalTopComps (withIdent interp) defs i args = .ok outs)
    (st : BState V) (refs : List Ref) (htr : traceTopComps defs i args = .ok (st, refs)) :
    st.nodes.Nodup := by
  unfold evalTopComps at hev
  unfold traceTopComps at htr
  cases hd : defs[i]? with
  | none => simp [hd] at hev
  | some d =>
    simp only [hd] at hev htr
    cases hbp : bindParams d.params args with
    | error e => simp [hbp] at hev
    | ok penv =>
      simp only [hbp] at hev htr
      cases hin : evalStmts (withIdent interp) defs defs.length d.body penv with
      | error e => simp [hin] at hev
      | ok env =>
        cases hb : traceStmts defs defs.length (initState penv) none d.body with
        | error e => simp [hb] at htr
        | ok st3 =>
          simp only [hb] at htr
          have hpair : traceArgs st3 d.ret.comps = (st, refs) := by injection htr
          obtain ⟨hg3, _⟩ := traceStmts_goodF interp defs hfs defs.length d.body (initState penv) none penv env st3
            (hfs d (List.mem_of_getElem? hd)) (good_init _ penv) rfl hin hb
          have hg4 := good_of_ext hg3 (traceArgs_ext d.ret.comps st3)
          rw [hpair] at hg4
          exact pairwise_lt_nodup hg4.sorted

end VM
