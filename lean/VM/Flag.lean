import VM.ProgThm
/-! Activation flags on *nested calls* (`inner(x, twz_active=flag)`): what the code does — it imposes the
    flag on every stub and every node of the callee, at any depth — against the inlining specification
    (`if flag: outs = inner(args) else: outs = None, …`).

    The two agree whenever every component the callee returns is the *whole* result of one of the
    callee's own nodes (or of a nested callee's) and the callee's body has no `unpack_to`
    (`DeadDef`): then a falsy flag turns every returned reference into None.  Where the callee returns
    an indexed part, an unpacked component or one of its parameters, they do not agree (the known
    findings; witnesses in `VD/FlagWitness.lean`). -/
namespace VM
open TM
variable {V : Type} [PyVal V]

/-- number of variables a statement list binds -/
def bound (defs : List (Def V)) : List (Stmt V) → Nat
  | [] => 0
  | .call _ none :: rest => bound defs rest + 1
  | .call _ (some k) :: rest => bound defs rest + k
  | .dag j _ _ :: rest => bound defs rest + (match defs[j]? with | some d => d.ret.comps.length | none => 0)

/-- every returned component is a whole variable bound by the body (not a parameter, not indexed) -/
def RetWhole (defs : List (Def V)) (d : Def V) : Prop :=
  ∀ a ∈ d.ret.comps, ∃ i, a = Arg.var i [] ∧ d.params.length ≤ i ∧ i < d.params.length + bound defs d.body

mutual
/-- statement lists that behave under a falsy imposed flag as the specification says: no `unpack_to`,
    nested callees hereditarily so -/
inductive DeadStmts (defs : List (Def V)) : List (Stmt V) → Prop
  | nil : DeadStmts defs []
  | call (c : Call V) (rest : List (Stmt V)) : DeadStmts defs rest → DeadStmts defs (.call c none :: rest)
  | dag (j : Nat) (args : List (Arg V)) (act : Option (Arg V)) (d : Def V) (rest : List (Stmt V)) :
      defs[j]? = some d → DeadDef defs d → DeadStmts defs rest → DeadStmts defs (.dag j args act :: rest)
inductive DeadDef (defs : List (Def V)) : Def V → Prop
  | mk (d : Def V) : DeadStmts defs d.body → RetWhole defs d → DeadDef defs d
end

/-- a flagged nested call only ever targets a `DeadDef` callee -/
def Stmt.flagSafe (defs : List (Def V)) : Stmt V → Prop
  | .dag j _ (some _) => ∀ d, defs[j]? = some d → DeadDef defs d
  | _ => True

def FlagSafe (defs : List (Def V)) : Prop := ∀ d ∈ defs, ∀ s ∈ d.body, Stmt.flagSafe defs s

theorem flagSafe_of_noDagFlags {defs : List (Def V)} (h : NoDagFlags defs) : FlagSafe defs := by
  intro d hd s hs
  have := h d hd s hs
  cases s with
  | call c u => trivial
  | dag j args act =>
    have hact : act = none := this
    subst hact; trivial

/-- the value of the activation reference imposed by an enclosing flagged nested call, under the
    table built so far (`none`: no flag imposed, i.e. active) -/
def FlagVal (interp : Interp V) (st : BState V) (ovr : Option Ref) (b : Bool) : Prop :=
  match ovr with
  | none => b = true
  | some r => r.src < st.next ∧ ∃ w u, den (st.cfg interp) r.src = some w ∧ index w r.path = .ok u ∧ PyVal.truthy u = b

theorem FlagVal.grows {interp : Interp V} {st st' : BState V} {ovr : Option Ref} {b : Bool}
    (h : FlagVal interp st ovr b) (hgr : Grows interp st st') : FlagVal interp st' ovr b := by
  cases ovr with
  | none => exact h
  | some r =>
    obtain ⟨hlt, w, u, hw, hidx, hb⟩ := h
    exact ⟨Nat.lt_of_lt_of_le hlt hgr.next, w, u, by rw [hgr.den r.src hlt]; exact hw, hidx, hb⟩

theorem FlagVal.setEnv {interp : Interp V} {st : BState V} {ovr : Option Ref} {b : Bool}
    (h : FlagVal interp st ovr b) (e : List Ref) : FlagVal interp ({ st with env := e } : BState V) ovr b := h

/-- a record carrying the imposed flag is active exactly when the flag's value says so, under every
    results map that shows the state -/
theorem activeOf_flag {interp : Interp V} {st st3 : BState V} {ovr : Option Ref} {b : Bool}
    (h : FlagVal interp st ovr b) (ρ1 : Results V) (hshow : Shows (den (st.cfg interp)) ρ1 st st3)
    (rec : NodeRec) (hrec : rec.active = ovr) : activeOf ρ1 rec = .ok b := by
  cases ovr with
  | none =>
    have : b = true := h
    subst this
    simp [activeOf, hrec]
  | some r =>
    obtain ⟨hlt, w, u, hw, hidx, hb⟩ := h
    have h1 : ρ1 r.src = some w := by rw [hshow.1 r.src hlt]; exact hw
    simp only [activeOf, hrec, resolve, h1, hidx]
    show (do let v ← Except.ok u; pure (PyVal.truthy v)) = Except.ok b
    rw [← hb]; rfl

/-- the record `traceCallWith` writes -/
def callRec (st : BState V) (c : Call V) (act : Option Ref) : NodeRec :=
  { fn := c.fn, args := (traceArgs st c.args).2,
    kwargs := (traceKwargs (traceArgs st c.args).1 c.kwargs).2, active := act }

/-- **one traced call under an imposed flag** keeps the tracer invariant: the new variable is the plain
    value when the flag is truthy, None when it is falsy -/
theorem traceCallWith_good (interp : Interp V) {st st1 : BState V} {vals : List V} (c : Call V) (r : Ref)
    (b : Bool) {v : V} (hg : Good interp st vals) (hf : FlagVal interp st (some r) b)
    (hvT : b = true → evalCall interp vals c = .ok v) (hvF : b = false → v = PyVal.none)
    (htr : traceCallWith st c (some r) = .ok st1) :
    Good interp st1 (vals ++ [v]) ∧ Grows interp st st1 := by
  unfold traceCallWith at htr
  simp only at htr
  cases hact : c.active with
  | some a => simp [hact] at htr
  | none =>
    simp only [hact] at htr
    have hst1 : extend (traceKwargs (traceArgs st c.args).1 c.kwargs).1
        (callRec st c (some r)) = st1 := by
      injection htr
    subst hst1
    have e1 := traceArgs_ext c.args st
    have e2 := traceKwargs_ext c.kwargs (traceArgs st c.args).1
    have henv0 := env_lt_of_good hg
    have henv1 := env_lt_of_ext e1 henv0
    have hreflt : ∀ x ∈ (callRec st c (some r)).refs,
        x.src < (traceKwargs (traceArgs st c.args).1 c.kwargs).1.next := by
      intro x hx
      simp only [NodeRec.refs, callRec, List.mem_append, List.mem_map] at hx
      rcases hx with (hx | ⟨p, hp, rfl⟩) | hx
      · exact Nat.lt_of_lt_of_le (traceArgs_lt c.args st henv0 x hx) e2.next
      · exact traceKwargs_lt c.kwargs _ henv1 p hp
      · have hx' : x = r := by simpa using hx
        subst hx'
        exact Nat.lt_of_lt_of_le hf.1 (e1.trans e2).next
    have hout : ∀ ρ1, Shows (den (st.cfg interp)) ρ1 st (traceKwargs (traceArgs st c.args).1 c.kwargs).1 →
        outcomeRec interp ρ1 (callRec st c (some r)) = some v := by
      intro ρ1 hshow
      have hactive := activeOf_flag hf ρ1 hshow (callRec st c (some r)) rfl
      unfold outcomeRec
      rw [hactive]
      cases b with
      | false => simp only; rw [hvF rfl]
      | true =>
        obtain ⟨b', hb', _, hbT⟩ := evalCall_inv interp vals c v (hvT rfl)
        have hb'' : b' = true := by
          unfold evalActive at hb'
          rw [hact] at hb'
          injection hb' with h; exact h.symm
        obtain ⟨vs, kws, hvs, hkws, hint⟩ := hbT hb''
        have h1 := (traceArgs_sound (ρ' := ρ1) hg.sees c.args st _ vs (Ext.refl st) e2 hshow hvs).1
        have h2 := (traceKwargs_sound (ρ' := ρ1) hg.sees c.kwargs (traceArgs st c.args).1 _ kws e1 (Ext.refl _) hshow hkws).1
        have h1' : (callRec st c (some r)).args.mapM (resolve ρ1) = .ok vs := h1
        have h2' : (callRec st c (some r)).kwargs.mapM (kwMap (resolve ρ1)) = .ok kws := h2
        simp only [callOf, h1', h2']
        show (match interp c.fn vs kws with | .ok v => some v | .error _ => none) = some v
        rw [hint]
    refine ⟨good_extend interp hg (e1.trans e2) _ v hreflt hout, ?_⟩
    have hden := good_extend_den interp hg (e1.trans e2) _ v hout
    exact ⟨Nat.le_succ_of_le (e1.trans e2).next, hden.1⟩

end VM

namespace VM
open TM
variable {V : Type} [PyVal V]

/-- the argument stub of a nested call, with the imposed flag -/
def stubRec (a : Ref) (fl : Option Ref) : NodeRec := { fn := identFn, args := [a], kwargs := [], active := fl }

/-- the state after one stub has been recorded (the caller's environment is kept) -/
def stubState (st : BState V) (a : Ref) (fl : Option Ref) : BState V :=
  { extend ({ st with env := [] } : BState V) (stubRec a fl) with env := st.env }

/-- **one stub**: it yields the argument's value when the imposed flag is truthy and None when it is falsy -/
theorem stub_step (interp : Interp V) {st : BState V} {vals : List V} (a : Ref) (fl : Option Ref) (b : Bool) (v : V)
    (hg : Good (withIdent interp) st vals) (hf : FlagVal (withIdent interp) st fl b) (halt : a.src < st.next)
    (hvT : b = true → ∃ w, den (st.cfg (withIdent interp)) a.src = some w ∧ index w a.path = .ok v)
    (hvF : b = false → v = PyVal.none) :
    Good (withIdent interp) (stubState st a fl) vals ∧ Grows (withIdent interp) st (stubState st a fl) ∧
    den ((stubState st a fl).cfg (withIdent interp)) st.next = some v := by
  have hg0 : Good (withIdent interp) ({ st with env := [] } : BState V) [] := good_setEnv hg [] (sees_nil _ _)
  have hout : ∀ ρ1, Shows (den (({ st with env := [] } : BState V).cfg (withIdent interp))) ρ1
      ({ st with env := [] } : BState V) ({ st with env := [] } : BState V) →
      outcomeRec (withIdent interp) ρ1 (stubRec a fl) = some v := by
    intro ρ1 hshow
    have hactive := activeOf_flag (st := ({ st with env := [] } : BState V)) (hf.setEnv []) ρ1 hshow (stubRec a fl) rfl
    unfold outcomeRec
    rw [hactive]
    cases b with
    | false => simp only; rw [hvF rfl]
    | true =>
      obtain ⟨w, hw, hidx⟩ := hvT rfl
      have h1 : ρ1 a.src = some w := by rw [hshow.1 a.src halt]; exact hw
      simp only [callOf, stubRec, List.mapM_cons, List.mapM_nil, resolve, h1, hidx]
      simp [bind, Except.bind, pure, Except.pure, withIdent_ident]
  have hreflt : ∀ x ∈ (stubRec a fl).refs, x.src < ({ st with env := [] } : BState V).next := by
    intro x hx
    cases fl with
    | none =>
      have : x = a := by simpa [NodeRec.refs, stubRec] using hx
      subst this; exact halt
    | some r =>
      have : x = a ∨ x = r := by simpa [NodeRec.refs, stubRec] using hx
      rcases this with rfl | rfl
      · exact halt
      · exact hf.1
  have hg1 := good_extend (withIdent interp) hg0 (Ext.refl _) (stubRec a fl) v hreflt hout
  have hden1 := good_extend_den (withIdent interp) hg0 (Ext.refl _) (stubRec a fl) v hout
  have hgr1 : Grows (withIdent interp) st (extend ({ st with env := [] } : BState V) (stubRec a fl)) :=
    ⟨Nat.le_succ _, hden1.1⟩
  refine ⟨good_setEnv hg1 st.env (sees_grows hg.sees hgr1), ⟨hgr1.next, hgr1.den⟩, hden1.2⟩

/-- the holder step of `bindParamRefs` is an `Ext` -/
theorem holder_ext (st : BState V) (d : V) :
    Ext st ({ st with next := st.next + 1, init := st.init.set st.next d } : BState V) := by
  refine ⟨Nat.le_succ _, rfl, rfl, rfl, ?_, ?_⟩
  · intro x hx; show (st.init.set st.next d) x = st.init x; exact set_ne (Nat.ne_of_lt hx)
  · intro h x hx
    show (st.init.set st.next d) x = none
    have hlt : st.next < x := hx
    rw [set_ne (Nat.ne_of_gt hlt)]; exact h x (Nat.le_of_lt hlt)

theorem holder_den (interp : Interp V) {st : BState V} {vals : List V} (hg : Good interp st vals) (d : V) :
    den (({ st with next := st.next + 1, init := st.init.set st.next d } : BState V).cfg interp) st.next = some d := by
  show denote _ st.nodes (st.init.set st.next d) st.next = some d
  rw [denote_notin _ _ _ _ (fun hm => absurd (hg.nlt _ hm) (Nat.lt_irrefl _)), set_eq]

/-- unfolding `bindParamRefs` on a supplied argument -/
theorem bindParamRefs_cons_inv {st st2 : BState V} {fl : Option Ref} {p : Option V} {ps : List (Option V)}
    {a : Ref} {as prefs : List Ref} (hr : bindParamRefs st fl (p :: ps) (a :: as) = .ok (st2, prefs)) :
    ∃ rs, bindParamRefs (stubState st a fl) fl ps as = .ok (st2, rs) ∧ prefs = (⟨st.next, []⟩ : Ref) :: rs := by
  cases p <;> simp only [bindParamRefs] at hr <;>
    (cases hr' : bindParamRefs ({ extend ({ st with env := [] } : BState V)
        { fn := identFn, args := [a], kwargs := [], active := fl } with env := st.env } : BState V) fl ps as with
     | error e => simp [hr', bind, Except.bind] at hr
     | ok q =>
       obtain ⟨st2', rs⟩ := q
       simp [hr', bind, Except.bind, pure, Except.pure] at hr
       refine ⟨rs, ?_, hr.2.symm⟩
       rw [← hr.1]; exact hr')

/-- unfolding `bindParamRefs` on an unsupplied default -/
theorem bindParamRefs_default_inv {st st2 : BState V} {fl : Option Ref} {d : V} {ps : List (Option V)}
    {prefs : List Ref} (hr : bindParamRefs st fl (some d :: ps) [] = .ok (st2, prefs)) :
    ∃ rs, bindParamRefs ({ st with next := st.next + 1, init := st.init.set st.next d } : BState V) fl ps [] = .ok (st2, rs) ∧
      prefs = (⟨st.next, []⟩ : Ref) :: rs := by
  simp only [bindParamRefs] at hr
  cases hr' : bindParamRefs ({ st with next := st.next + 1, init := st.init.set st.next d } : BState V) fl ps [] with
  | error e => simp [hr', bind, Except.bind] at hr
  | ok q =>
    obtain ⟨st2', rs⟩ := q
    simp [hr', bind, Except.bind, pure, Except.pure] at hr
    refine ⟨rs, ?_, hr.2.symm⟩
    rw [← hr.1]

/-- binding the parameters of a nested call under an imposed flag that is TRUTHY (or absent): as
    `bindParamRefs_good` -/
theorem bindParamRefs_live (interp : Interp V) (fl : Option Ref) : ∀ (params : List (Option V)) (st : BState V)
    (vals : List V) (argRefs : List Ref) (vs penv : List V) (st2 : BState V) (prefs : List Ref),
    Good (withIdent interp) st vals → FlagVal (withIdent interp) st fl true →
    Sees ({ st with env := argRefs } : BState V) (den (st.cfg (withIdent interp))) vs →
    bindParams params vs = .ok penv →
    bindParamRefs st fl params argRefs = .ok (st2, prefs) →
    Good (withIdent interp) st2 vals ∧ Grows (withIdent interp) st st2 ∧ st2.env = st.env ∧
    Sees ({ st2 with env := prefs } : BState V) (den (st2.cfg (withIdent interp))) penv := by
  intro params
  induction params with
  | nil =>
    intro st vals argRefs vs penv st2 prefs hg _ hs hb hr
    cases argRefs with
    | nil =>
      cases vs with
      | nil =>
        simp only [bindParams] at hb
        simp only [bindParamRefs] at hr
        have hp : penv = [] := by injection hb with h; exact h.symm
        have : (st, ([] : List Ref)) = (st2, prefs) := by injection hr
        obtain ⟨rfl, rfl⟩ := Prod.mk.inj this
        subst hp
        exact ⟨hg, Grows.refl _ _, rfl, sees_nil _ _⟩
      | cons v vs => have := hs.1; simp at this
    | cons a as => simp [bindParamRefs] at hr
  | cons p ps ih =>
    intro st vals argRefs vs penv st2 prefs hg hf hs hb hr
    cases argRefs with
    | nil =>
      have hvs : vs = [] := by
        have : ([] : List Ref).length = vs.length := hs.1
        cases vs with | nil => rfl | cons _ _ => simp at this
      subst hvs
      cases p with
      | none => simp [bindParamRefs] at hr
      | some d =>
        simp only [bindParams] at hb
        cases hb' : bindParams ps ([] : List V) with
        | error e => simp [hb', bind, Except.bind] at hb
        | ok r =>
          simp [hb', bind, Except.bind, pure, Except.pure] at hb
          subst hb
          obtain ⟨rs, hr', rfl⟩ := bindParamRefs_default_inv hr
          have hext := holder_ext st d
          have hg1 := good_of_ext hg hext
          have hgr1 := grows_of_ext hg hext
          obtain ⟨hg2, hgr2, henv2, hs2⟩ := ih _ vals [] [] r st2 rs hg1 (hf.grows hgr1) (sees_nil _ _) hb' hr'
          refine ⟨hg2, hgr1.trans hgr2, by rw [henv2], ?_⟩
          apply sees_cons _ hs2
          have hlt1 : st.next < st.next + 1 := Nat.lt_succ_self _
          refine ⟨Nat.lt_of_lt_of_le hlt1 hgr2.next, d, ?_, rfl⟩
          rw [hgr2.den st.next hlt1]
          exact holder_den (withIdent interp) hg d
    | cons a as =>
      cases vs with
      | nil => have := hs.1; simp at this
      | cons v vs' =>
        obtain ⟨⟨halt, w, hw, hidx⟩, hstail⟩ := sees_cons_inv hs
        have hb2 : ∃ r, bindParams ps vs' = .ok r ∧ penv = v :: r := by
          cases p <;> simp only [bindParams] at hb <;>
            (cases hb' : bindParams ps vs' with
             | error e => simp [hb', bind, Except.bind] at hb
             | ok r => simp [hb', bind, Except.bind, pure, Except.pure] at hb; exact ⟨r, rfl, hb.symm⟩)
        obtain ⟨r, hb', rfl⟩ := hb2
        obtain ⟨rs, hr', rfl⟩ := bindParamRefs_cons_inv hr
        obtain ⟨hg1', hgr1', hden1⟩ := stub_step interp a fl true v hg hf halt (fun _ => ⟨w, hw, hidx⟩)
          (fun h => by cases h)
        have hstail' := sees_env_grows hstail hgr1'
        obtain ⟨hg2, hgr2, henv2, hs2⟩ := ih _ vals as vs' r st2 rs hg1' (hf.grows hgr1') hstail' hb' hr'
        refine ⟨hg2, hgr1'.trans hgr2, by rw [henv2]; rfl, ?_⟩
        apply sees_cons _ hs2
        have hlt1 : st.next < st.next + 1 := Nat.lt_succ_self _
        refine ⟨Nat.lt_of_lt_of_le hlt1 hgr2.next, v, ?_, rfl⟩
        rw [hgr2.den st.next hlt1]
        exact hden1

/-- binding the parameters under an imposed flag that is FALSY: every stub yields None, unsupplied
    defaults keep their value; whatever the bound values are, the parameter references are seen -/
theorem bindParamRefs_dead (interp : Interp V) (r : Ref) : ∀ (params : List (Option V)) (st : BState V)
    (vals : List V) (argRefs : List Ref) (st2 : BState V) (prefs : List Ref),
    Good (withIdent interp) st vals → FlagVal (withIdent interp) st (some r) false →
    (∀ a ∈ argRefs, a.src < st.next) →
    bindParamRefs st (some r) params argRefs = .ok (st2, prefs) →
    Good (withIdent interp) st2 vals ∧ Grows (withIdent interp) st st2 ∧ st2.env = st.env ∧
    ∃ penv : List V, penv.length = params.length ∧
      Sees ({ st2 with env := prefs } : BState V) (den (st2.cfg (withIdent interp))) penv := by
  intro params
  induction params with
  | nil =>
    intro st vals argRefs st2 prefs hg _ _ hr
    cases argRefs with
    | nil =>
      simp only [bindParamRefs] at hr
      have : (st, ([] : List Ref)) = (st2, prefs) := by injection hr
      obtain ⟨rfl, rfl⟩ := Prod.mk.inj this
      exact ⟨hg, Grows.refl _ _, rfl, [], rfl, sees_nil _ _⟩
    | cons a as => simp [bindParamRefs] at hr
  | cons p ps ih =>
    intro st vals argRefs st2 prefs hg hf hlt hr
    cases argRefs with
    | nil =>
      cases p with
      | none => simp [bindParamRefs] at hr
      | some d =>
        obtain ⟨rs, hr', rfl⟩ := bindParamRefs_default_inv hr
        have hext := holder_ext st d
        have hg1 := good_of_ext hg hext
        have hgr1 := grows_of_ext hg hext
        obtain ⟨hg2, hgr2, henv2, penv, hlen, hs2⟩ := ih _ vals [] st2 rs hg1 (hf.grows hgr1)
          (by intro a ha; simp at ha) hr'
        refine ⟨hg2, hgr1.trans hgr2, by rw [henv2], d :: penv, by simp [hlen], ?_⟩
        apply sees_cons _ hs2
        have hlt1 : st.next < st.next + 1 := Nat.lt_succ_self _
        refine ⟨Nat.lt_of_lt_of_le hlt1 hgr2.next, d, ?_, rfl⟩
        rw [hgr2.den st.next hlt1]
        exact holder_den (withIdent interp) hg d
    | cons a as =>
      obtain ⟨rs, hr', rfl⟩ := bindParamRefs_cons_inv hr
      have halt : a.src < st.next := hlt a (by simp)
      obtain ⟨hg1', hgr1', hden1⟩ := stub_step interp a (some r) false PyVal.none hg hf halt
        (fun h => by cases h) (fun _ => rfl)
      obtain ⟨hg2, hgr2, henv2, penv, hlen, hs2⟩ := ih _ vals as st2 rs hg1' (hf.grows hgr1')
        (by intro x hx; exact Nat.lt_of_lt_of_le (hlt x (by simp [hx])) hgr1'.next) hr'
      refine ⟨hg2, hgr1'.trans hgr2, by rw [henv2]; rfl, PyVal.none :: penv, by simp [hlen], ?_⟩
      apply sees_cons _ hs2
      have hlt1 : st.next < st.next + 1 := Nat.lt_succ_self _
      refine ⟨Nat.lt_of_lt_of_le hlt1 hgr2.next, PyVal.none, ?_, rfl⟩
      rw [hgr2.den st.next hlt1]
      exact hden1

end VM
