import VM.C01
/-! Programs of the supported fragment with `unpack_to`, defaulted parameters, nested DAG calls and
    return shapes: syntax, plain (sequential Python) evaluation, and the tracer.

    A *module* is a list of DAG definitions; definition `i` may call definitions `j < i` (the callee
    object exists before the caller is described).  A nested call is traced by tracing the callee's
    body in place with its parameters bound to the supplied argument references (through identity
    stubs, as the code does) or to holders of the defaults — "equivalent to inlining it" is the
    specification; that the real table-splice produces this very table is what the B slice compares.
    Recursion over nesting depth is by fuel (`defs.length` suffices). -/
namespace VM
open TM
variable {V : Type} [PyVal V]

inductive Shape (α : Type) where
  | single (a : α)
  | tuple (l : List α)
  | list (l : List α)
  | dict (l : List (String × α))

def Shape.comps {α : Type} : Shape α → List α
  | .single a => [a]
  | .tuple l => l
  | .list l => l
  | .dict l => l.map (·.2)

/-- rebuild a shape of the same form from new components (lengths are kept by construction) -/
def Shape.withComps {α β : Type} : Shape α → List β → Shape β
  | .single _, b :: _ => .single b
  | .single _, [] => .tuple []
  | .tuple _, l => .tuple l
  | .list _, l => .list l
  | .dict d, l => .dict ((d.map (·.1)).zip l)

inductive Stmt (V : Type) where
  | call (c : Call V) (unpack : Option Nat)
  | dag (callee : Nat) (args : List (Arg V)) (active : Option (Arg V))

structure Def (V : Type) where
  params : List (Option V)        -- one entry per parameter: its default, if any
  body   : List (Stmt V)
  ret    : Shape (Arg V)

/-- the identity function used by argument stubs of nested calls -/
def identFn : String := "$ident"

def withIdent (interp : Interp V) : Interp V := fun f args kws =>
  if f = identFn then (match args with | [x] => .ok x | _ => .error .usage) else interp f args kws

/-- positional binding of arguments to parameters; omitted parameters take their defaults -/
def bindParams : List (Option V) → List V → Except Err (List V)
  | [], [] => .ok []
  | [], _ :: _ => .error .usage                        -- too many arguments
  | some d :: ps, [] => do let r ← bindParams ps []; pure (d :: r)
  | none :: _, [] => .error .usage                      -- missing required argument
  | _ :: ps, v :: vs => do let r ← bindParams ps vs; pure (v :: r)

def evalFlag (env : List V) : Option (Arg V) → Except Err Bool
  | none => .ok true
  | some a => do let u ← evalArg env a; pure (PyVal.truthy u)

def unpackVals (v : V) (k : Nat) : Except Err (List V) :=
  (List.range k).mapM (fun (j : Nat) => index v [Key.idx (Int.ofNat j)])

/-! ### plain evaluation -/

def evalStmts (interp : Interp V) (defs : List (Def V)) : Nat → List (Stmt V) → List V → Except Err (List V)
  | _, [], env => .ok env
  | fuel, .call c none :: rest, env =>
    match evalCall interp env c with
    | .error e => .error e
    | .ok v => evalStmts interp defs fuel rest (env ++ [v])
  | fuel, .call c (some k) :: rest, env =>
    match evalCall interp env c with
    | .error e => .error e
    | .ok v =>
      match unpackVals v k with
      | .error e => .error e
      | .ok comps => evalStmts interp defs fuel rest (env ++ comps)
  | 0, .dag _ _ _ :: _, _ => .error .usage
  | fuel+1, .dag j args act :: rest, env =>
    match defs[j]? with
    | none => .error .usage
    | some d =>
      match evalFlag env act with
      | .error e => .error e
      | .ok false => evalStmts interp defs (fuel+1) rest (env ++ d.ret.comps.map (fun _ => PyVal.none))
      | .ok true =>
        match args.mapM (evalArg env) with
        | .error e => .error e
        | .ok vs =>
          match bindParams d.params vs with
          | .error e => .error e
          | .ok penv =>
            match evalStmts interp defs fuel d.body penv with
            | .error e => .error e
            | .ok ienv =>
              match d.ret.comps.mapM (evalArg ienv) with
              | .error e => .error e
              | .ok outs => evalStmts interp defs (fuel+1) rest (env ++ outs)
termination_by fuel stmts => (fuel, stmts.length)

/-- the components of what definition `i` returns when called with `args` the plain-Python way -/
def evalTopComps (interp : Interp V) (defs : List (Def V)) (i : Nat) (args : List V) : Except Err (List V) :=
  match defs[i]? with
  | none => .error .usage
  | some d =>
    match bindParams d.params args with
    | .error e => .error e
    | .ok penv =>
      match evalStmts interp defs defs.length d.body penv with
      | .error e => .error e
      | .ok env => d.ret.comps.mapM (evalArg env)

/-- calling definition `i` of the module with `args` the plain-Python way -/
def evalTop (interp : Interp V) (defs : List (Def V)) (i : Nat) (args : List V) : Except Err (Shape V) :=
  match defs[i]?, evalTopComps interp defs i args with
  | some d, .ok outs => .ok (d.ret.withComps outs)
  | _, .error e => .error e
  | none, _ => .error .usage

/-! ### the tracer -/

/-- like `traceCall`, with an optional activation reference imposed by an enclosing nested call;
    a call that already carries its own flag is refused in that case, as the code does -/
def traceCallWith (st : BState V) (c : Call V) (ovr : Option Ref) : Except Err (BState V) :=
  match ovr with
  | none => .ok (traceCall st c)
  | some r =>
    match c.active with
    | some _ => .error .usage
    | none =>
      let p1 := traceArgs st c.args
      let p2 := traceKwargs p1.1 c.kwargs
      .ok (extend p2.1 { fn := c.fn, args := p1.2, kwargs := p2.2, active := some r })

/-- after an `extend` that bound one variable, rebind it as `k` unpacked components -/
def rebindUnpack (st : BState V) (k : Nat) : BState V :=
  match st.env.getLast? with
  | none => st
  | some r => { st with env := st.env.dropLast ++ (List.range k).map (fun (j : Nat) => (⟨r.src, r.path ++ [Key.idx (Int.ofNat j)]⟩ : Ref)) }

/-- parameter references of a nested call: an identity stub for each supplied argument, a fresh
    precomputed holder for each defaulted parameter that was not supplied -/
def bindParamRefs (st : BState V) (flag : Option Ref) : List (Option V) → List Ref → Except Err (BState V × List Ref)
  | [], [] => .ok (st, [])
  | [], _ :: _ => .error .usage
  | some d :: ps, [] => do
    let st1 : BState V := { st with next := st.next + 1, init := st.init.set st.next d }
    let (st2, rs) ← bindParamRefs st1 flag ps []
    pure (st2, ⟨st.next, []⟩ :: rs)
  | none :: _, [] => .error .usage
  | _ :: ps, a :: as => do
    let st1 := extend { st with env := [] } { fn := identFn, args := [a], kwargs := [], active := flag }
    let stub : Ref := ⟨st.next, []⟩
    let (st2, rs) ← bindParamRefs { st1 with env := st.env } flag ps as
    pure (st2, stub :: rs)

/-- the activation reference imposed on the nodes of a nested call: the enclosing one, or the call's
    own flag; the two cannot be combined (the code refuses) -/
def nestedFlag (st : BState V) (ovr : Option Ref) (act : Option (Arg V)) : Except Err (BState V × Option Ref) :=
  match ovr, act with
  | some r, none => .ok (st, some r)
  | some _, some _ => .error .usage
  | none, none => .ok (st, none)
  | none, some a => .ok ((traceArg st a).1, some (traceArg st a).2)

def traceStmts (defs : List (Def V)) : Nat → BState V → Option Ref → List (Stmt V) → Except Err (BState V)
  | _, st, _, [] => .ok st
  | fuel, st, ovr, .call c none :: rest =>
    match traceCallWith st c ovr with
    | .error e => .error e
    | .ok st1 => traceStmts defs fuel st1 ovr rest
  | fuel, st, ovr, .call c (some k) :: rest =>
    match traceCallWith st c ovr with
    | .error e => .error e
    | .ok st1 => traceStmts defs fuel (rebindUnpack st1 k) ovr rest
  | 0, _, _, .dag _ _ _ :: _ => .error .usage
  | fuel+1, st, ovr, .dag j args act :: rest =>
    match defs[j]? with
    | none => .error .usage
    | some d =>
      match nestedFlag st ovr act with
      | .error e => .error e
      | .ok p0 =>
        match bindParamRefs (traceArgs p0.1 args).1 p0.2 d.params (traceArgs p0.1 args).2 with
        | .error e => .error e
        | .ok p2 =>
          match traceStmts defs fuel { p2.1 with env := p2.2 } p0.2 d.body with
          | .error e => .error e
          | .ok st3 =>
            traceStmts defs (fuel+1)
              { (traceArgs st3 d.ret.comps).1 with env := p2.1.env ++ (traceArgs st3 d.ret.comps).2 } ovr rest
termination_by fuel _ _ stmts => (fuel, stmts.length)

/-- the table of definition `i` as a top-level DAG and the references of its return components -/
def traceTopComps (defs : List (Def V)) (i : Nat) (args : List V) : Except Err (BState V × List Ref) :=
  match defs[i]? with
  | none => .error .usage
  | some d =>
    match bindParams d.params args with
    | .error e => .error e
    | .ok penv =>
      match traceStmts defs defs.length (initState penv) none d.body with
      | .error e => .error e
      | .ok st => .ok (traceArgs st d.ret.comps)

/-- the table and return references of definition `i` as a top-level DAG -/
def traceTop (defs : List (Def V)) (i : Nat) (args : List V) : Except Err (BState V × Shape Ref) :=
  match defs[i]?, traceTopComps defs i args with
  | some d, .ok p => .ok (p.1, d.ret.withComps p.2)
  | _, .error e => .error e
  | none, _ => .error .usage

/-- what a DAG call returns according to the model: sequential denotation of the traced table,
    `none` if some selected node raises -/
def runTop (interp : Interp V) (defs : List (Def V)) (i : Nat) (args : List V) : Except Err (Shape V) := do
  let (st, rets) ← traceTop defs i args
  let c : ECfg V := st.cfg (withIdent interp)
  let ρ := den c
  if c.nodes.any (fun n => (outcome c ρ n).isNone) then .error .usage
  else do
    let outs ← rets.comps.mapM (resolve ρ)
    pure (rets.withComps outs)

end VM
