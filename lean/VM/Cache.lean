import VM.History2
/-! Prototype: restarting from a cache file (C18, model level): pre-seeding the results of some nodes
    with the values the sequential denotation gives them prunes exactly those nodes and changes nothing else. -/
namespace VM
open TM
variable {V : Type} [PyVal V]

/-- the restart configuration: nodes whose value is in the file `f` are precomputed -/
def seeded (c : ECfg V) (f : Node → Bool) : ECfg V :=
  { c with nodes := c.nodes.filter (fun n => !f n),
           init := fun x => if f x then den c x else c.init x }

/-- general form: run the remaining nodes of a suffix from any map that agrees with `den c` wherever `den c` will no longer change -/
theorem denote_seeded (c : ECfg V) (f : Node → Bool) (hwf : WF c) (hf : ∀ n, f n = true → n ∈ c.nodes)
    (hfsome : ∀ n, f n = true → ∃ v, den c n = some v) :
    ∀ (done rest : List Node), c.nodes = done ++ rest →
      ∀ (σ : Results V),
        (∀ x, x ∉ rest → σ x = den c x) →                       -- already final outside `rest`
        (∀ x ∈ rest, f x = true → σ x = den c x) →              -- seeded members of `rest` are final too
        (∀ x ∈ rest, f x = false → σ x = denote c done c.init x) →
        ∀ x, denote (seeded c f) (rest.filter (fun n => !f n)) σ x = den c x := by
  intro done rest
  induction rest generalizing done with
  | nil =>
    intro _ σ h1 _ _ x
    simp only [List.filter_nil, denote]
    exact h1 x (by simp)
  | cons n rest ih =>
    intro hs σ h1 h2 h3 x
    have hnd := hwf.1
    rw [hs] at hnd
    have hn_rest : n ∉ rest := (List.nodup_cons.mp (List.nodup_append.mp hnd).2.1).1
    have hn_done : n ∉ done := fun h => (List.nodup_append.mp hnd).2.2 n h n (by simp) rfl
    have hs' : c.nodes = (done ++ [n]) ++ rest := by rw [hs]; simp
    cases hfn : f n with
    | true =>
      -- n is in the file: not run; σ n is already final
      simp only [List.filter_cons, hfn, Bool.not_true, Bool.false_eq_true, if_false]
      apply ih (done ++ [n]) hs' σ
      · intro y hy
        by_cases hyn : y = n
        · subst hyn; exact h2 y (by simp) hfn
        · exact h1 y (by simp [hyn, hy])
      · intro y hy hfy; exact h2 y (by simp [hy]) hfy
      · intro y hy hfy
        rw [h3 y (by simp [hy]) hfy, denote_append]
        have hyn : y ≠ n := fun h => hn_rest (h ▸ hy)
        simp only [denote]
        cases outcome c (denote c done c.init) n with
        | some v => simp only []; rw [set_ne hyn]
        | none => rfl
    | false =>
      simp only [List.filter_cons, hfn, Bool.not_false, if_true, denote]
      -- every source of n is final in σ
      have hsrc : ∀ r ∈ (c.recOf n).refs, σ r.src = den c r.src := by
        intro r hr
        by_cases hin : r.src ∈ c.nodes
        · have hd := hwf.2 done n rest hs r hr hin
          have : r.src ∉ n :: rest := fun h => (List.nodup_append.mp hnd).2.2 r.src hd r.src h rfl
          exact h1 r.src this
        · have : r.src ∉ n :: rest := fun h => hin (by rw [hs]; exact List.mem_append_right _ h)
          exact h1 r.src this
      have hout : outcome (seeded c f) σ n = outcome c (den c) n := by
        have : outcome (seeded c f) σ n = outcome c σ n := rfl
        rw [this]; exact outcome_congr c hsrc
      rw [hout]
      have hdn := (den_split c hwf done n rest hs).2
      have hinit : c.init n = den c n ∨ True := Or.inr trivial
      cases hO : outcome c (den c) n with
      | some v =>
        simp only []
        rw [hO] at hdn
        apply ih (done ++ [n]) hs' (σ.set n v)
        · intro y hy
          by_cases hyn : y = n
          · subst hyn; rw [set_eq]; exact hdn.symm
          · rw [set_ne hyn]; exact h1 y (by simp [hyn, hy])
        · intro y hy hfy
          have hyn : y ≠ n := fun h => hn_rest (h ▸ hy)
          rw [set_ne hyn]; exact h2 y (by simp [hy]) hfy
        · intro y hy hfy
          have hyn : y ≠ n := fun h => hn_rest (h ▸ hy)
          rw [set_ne hyn, h3 y (by simp [hy]) hfy, denote_append]
          simp only [denote]
          cases outcome c (denote c done c.init) n with
          | some w => simp only []; rw [set_ne hyn]
          | none => rfl
      | none =>
        simp only []
        rw [hO] at hdn
        apply ih (done ++ [n]) hs' σ
        · intro y hy
          by_cases hyn : y = n
          · subst hyn
            -- n raises: den c n = c.init n, and σ n = denote c done init n = init n
            rw [h3 y (by simp) hfn, denote_notin c done _ y hn_done]; exact hdn.symm
          · exact h1 y (by simp [hyn, hy])
        · intro y hy hfy; exact h2 y (by simp [hy]) hfy
        · intro y hy hfy
          have hyn : y ≠ n := fun h => hn_rest (h ▸ hy)
          rw [h3 y (by simp [hy]) hfy, denote_append]
          simp only [denote]
          cases outcome c (denote c done c.init) n with
          | some w => simp only []; rw [set_ne hyn]
          | none => rfl

/-- **C18** (model level): a restart seeded with cached values computes the same results as the caching
    run, and the cached nodes are not part of its execution graph (so they are not executed). -/
theorem C18_restart_same (c : ECfg V) (f : Node → Bool) (hwf : WF c) (hf : ∀ n, f n = true → n ∈ c.nodes)
    (hfsome : ∀ n, f n = true → ∃ v, den c n = some v) :
    (∀ x, den (seeded c f) x = den c x) ∧ (∀ n ∈ (seeded c f).nodes, f n = false) := by
  refine ⟨?_, ?_⟩
  · intro x
    apply denote_seeded c f hwf hf hfsome [] c.nodes (by simp) (seeded c f).init
    · intro y hy
      show (if f y then den c y else c.init y) = den c y
      cases hfy : f y with
      | true => simp
      | false => simp; exact (denote_notin c c.nodes c.init y hy).symm
    · intro y _ hfy; show (if f y then den c y else c.init y) = den c y; simp [hfy]
    · intro y _ hfy; show (if f y then den c y else c.init y) = denote c [] c.init y; simp [hfy, denote]
  · intro n hn
    have := (List.mem_filter.mp hn).2
    simpa using this

end VM
