import VM.ProgThm
import VM.Compose
import VM.Concurrent
import VM.Active
/-! Short corollaries that state further clauses of the properties on top of the main theorems. -/
namespace VM
open TM
variable {V : Type} [PyVal V]

/-- C02 (values): whenever a node is about to start (it is runnable), everything it reads from the
    results map is final: each argument / keyword argument / flag reference resolves to the same value
    as under the sequential denotation — never a stale, missing or foreign value. -/
theorem C02_values_at_start (c : ECfg V) (a : Attrs) (hwf : WF c) {tr vs} (hv : VRun c a tr vs)
    {n : Node} (hn : n ∈ vs.st.runnable) :
    ∀ r ∈ (c.recOf n).refs, resolve vs.ρ r = resolve (den c) r := by
  obtain ⟨hr, hs⟩ := vrun_sim c a hwf hv
  intro r hrm
  exact resolve_congr (reads_agree c a hwf hr hs hn r hrm)

/-- C03 (build half): every traced call site is a node of its own — the node list of a traced module
    has no duplicates, whatever functions are reused -/
theorem C03_distinct_call_sites (interp : Interp V) (defs : List (Def V)) (hnf : NoDagFlags defs) (i : Nat)
    (args outs : List V) (hev : evalTopComps (withIdent interp) defs i args = .ok outs)
    (st : BState V) (refs : List Ref) (htr : traceTopComps defs i args = .ok (st, refs)) :
    st.nodes.Nodup := by
  unfold evalTopComps at hev
  unfold traceTopComps at htr
  cases hd : defs[i]? with
  | none => simp [hd] at hev
  | some d =>
    simp only [hd] at hev htr
    cases hbp : bindParams d.params args with
    | error e => simp [hbp] at hev
    | ok penv =>
      simp only [hbp] at hev htr
      cases hin : evalStmts (withIdent interp) defs defs.length d.body penv with
      | error e => simp [hin] at hev
      | ok env =>
        cases hb : traceStmts defs defs.length (initState penv) none d.body with
        | error e => simp [hb] at htr
        | ok st3 =>
          simp only [hb] at htr
          have hpair : traceArgs st3 d.ret.comps = (st, refs) := by injection htr
          obtain ⟨hg3, _⟩ := traceStmts_good interp defs hnf defs.length d.body (initState penv) penv env st3
            (hnf d (List.mem_of_getElem? hd)) (good_init _ penv) hin hb
          have hg4 := good_of_ext hg3 (traceArgs_ext d.ret.comps st3)
          rw [hpair] at hg4
          exact pairwise_lt_nodup hg4.sorted

/-- C13 (values): if no production node refers to a debug node (the build-time rule), leaving the debug
    nodes out changes no production value -/
theorem C13_debug_nodes_never_influence (c : ECfg V) (isDebug : Node → Bool)
    (hrule : isClosedB c (fun n => !isDebug n) = true) (x : Node) (hx : isDebug x = false) :
    den (restrict c (fun n => !isDebug n)) x = den c x :=
  den_restrict c _ hrule x (Or.inr (by simp [hx]))

/-- C18 (`cache_deps_of`): the restart's execution graph is exactly the nodes missing from the file -/
theorem C18_restart_runs_only_uncached (c : ECfg V) (f : Node → Bool) (n : Node) :
    n ∈ (seeded c f).nodes ↔ n ∈ c.nodes ∧ f n = false := by
  simp [seeded]

end VM

namespace VM
open TM
variable {V : Type} [PyVal V]

/-- C17 (a): the sync and the async flavour run the same scheduler over the same table; whatever
    attributes, `max_concurrency` and completion orders the two executions had, if both return they hold
    the same result on every node (hence return the same value and record the same setup results), and
    they started exactly the same nodes, each once. -/
theorem C17a_flavours_agree (c : ECfg V) (hwf : WF c) (a1 a2 : Attrs) {tr1 tr2 vs1 vs2}
    (h1 : VRun c a1 tr1 vs1) (h2 : VRun c a2 tr2 vs2) (d1 : vs1.st.pc = .done) (d2 : vs2.st.pc = .done) :
    (∀ n, vs1.ρ n = vs2.ρ n) ∧ (∀ n ∈ c.nodes, (starts tr1).count n = (starts tr2).count n) := by
  refine ⟨fun n => by rw [C01_core c a1 hwf h1 d1 n, C01_core c a2 hwf h2 d2 n], ?_⟩
  intro n hn
  obtain ⟨r1, _⟩ := vrun_sim c a1 hwf h1
  obtain ⟨r2, _⟩ := vrun_sim c a2 hwf h2
  have e1 := C03_exactly_once_at_done (cfgD c a1) hwf.1 r1 d1 n hn
  have e2 := C03_exactly_once_at_done (cfgD c a2) hwf.1 r2 d2 n hn
  -- activeness under the denotational configuration does not depend on the attributes
  have hact : (cfgD c a1).active n = (cfgD c a2).active n := rfl
  cases hb : (cfgD c a1).active n with
  | true =>
    rw [(e1.1 hb).1, (e2.1 (by rw [← hact]; exact hb)).1]
  | false =>
    have n1 := (e1.2 hb).1
    have n2 := (e2.2 (by rw [← hact]; exact hb)).1
    rw [List.count_eq_zero_of_not_mem n1, List.count_eq_zero_of_not_mem n2]

end VM
