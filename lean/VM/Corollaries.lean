import VM.ProgThm
import VM.Compose
import VM.Concurrent
import VM.Active
/-! Short corollaries that state further clauses of the properties on top of the main theorems. -/
namespace VM
open TM
variable {V : Type} [PyVal V]

/-- C02 (values): whenever a node is about to start (it is runnable), everything it reads from the
    results map is final: each argument / keyword argument / flag reference resolves to the same value
    as under the sequential denotation — never a stale, missing or foreign value. -/
theorem C02_values_at_start (c : ECfg V) (a : Attrs) (hwf : WF c) {tr vs} (hv : VRun c a tr vs)
    {n : Node} (hn : n ∈ vs.st.runnable) :
    ∀ r ∈ (c.recOf n).refs, resolve vs.ρ r = resolve (den c) r := by
  obtain ⟨hr, hs⟩ := vrun_sim c a hwf hv
  intro r hrm
  exact resolve_congr (reads_agree c a hwf hr hs hn r hrm)

/-- C03 (build half): every traced call site is a node of its own — the node list of a traced module
    has no duplicates, whatever functions are reused -/
theorem C03_distinct_call_sites (interp : Interp V) (defs : List (Def V)) (hnf : NoDagFlags defs) (i : Nat)
    (args outs : List V) (hev : evalTopComps (withIdent interp) defs i args = .ok outs)
    (st : BState V) (refs : List Ref) (htr : traceTopComps defs i args = .ok (st, refs)) :
    st.nodes.Nodup := by
  unfold evalTopComps at hev
  unfold traceTopComps at htr
  cases hd : defs[i]? with
  | none => simp [hd] at hev
  | some d =>
    simp only [hd] at hev htr
    cases hbp : bindParams d.params args with
    | error e => simp [hbp] at hev
    | ok penv =>
      simp only [hbp] at hev htr
      cases hin : evalStmts (withIdent interp) defs defs.length d.body penv with
      | error e => simp [hin] at hev
      | ok env =>
        cases hb : traceStmts defs defs.length (initState penv) none d.body with
        | error e => simp [hb] at htr
        | ok st3 =>
          simp only [hb] at htr
          have hpair : traceArgs st3 d.ret.comps = (st, refs) := by injection htr
          obtain ⟨hg3, _⟩ := traceStmts_good interp defs hnf defs.length d.body (initState penv) penv env st3
            (hnf d (List.mem_of_getElem? hd)) (good_init _ penv) hin hb
          have hg4 := good_of_ext hg3 (traceArgs_ext d.ret.comps st3)
          rw [hpair] at hg4
          exact pairwise_lt_nodup hg4.sorted

/-- C13 (values): if no production node refers to a debug node (the build-time rule), leaving the debug
    nodes out changes no production value -/
theorem C13_debug_nodes_never_influence (c : ECfg V) (isDebug : Node → Bool)
    (hrule : isClosedB c (fun n => !isDebug n) = true) (x : Node) (hx : isDebug x = false) :
    den (restrict c (fun n => !isDebug n)) x = den c x :=
  den_restrict c _ hrule x (Or.inr (by simp [hx]))

/-- C18 (`cache_deps_of`): the restart's execution graph is exactly the nodes missing from the file -/
theorem C18_restart_runs_only_uncached (c : ECfg V) (f : Node → Bool) (n : Node) :
    n ∈ (seeded c f).nodes ↔ n ∈ c.nodes ∧ f n = false := by
  simp [seeded]

end VM
