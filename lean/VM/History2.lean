import VM.History
namespace VM
open TM
variable {V : Type} [PyVal V]

theorem bindArgs_notin : ∀ (ps : List Node) (as : List V) (res : Results V) (n : Node), n ∉ ps →
    bindArgs res ps as n = res n := by
  intro ps
  induction ps with
  | nil => intro as res n _; cases as <;> rfl
  | cons p ps ih =>
    intro as res n hn
    cases as with
    | nil => rfl
    | cons a as =>
      simp only [bindArgs]
      rw [ih as _ n (fun h => hn (by simp [h])), set_ne (fun h => hn (by simp [h]))]

/-- the instance is well formed: parameters are not setup nodes, tables are well formed for every selection we run -/
structure InstOK (i : Inst V) : Prop where
  params : ∀ p ∈ i.dag.params, i.dag.isSetup p = false

theorem opCfg_init_setup (i : Inst V) (hok : InstOK i) (op : Op V) (n : Node) (hs : i.dag.isSetup n = true) :
    (opCfg i op).init n = i.res n := by
  cases op with
  | call sel args =>
    show bindArgs i.res i.dag.params args n = i.res n
    apply bindArgs_notin
    intro hp; have := hok.params n hp; rw [hs] at this; cases this
  | setup sel => rfl

theorem mem_nodes_init_none (i : Inst V) (op : Op V) (n : Node) (h : n ∈ (opCfg i op).nodes) :
    (opCfg i op).init n = none := by
  cases op <;> (simp only [opCfg, runCfg, List.mem_filter, Option.isNone_iff_eq_none] at h; exact h.2)

/-- a setup node that is already in the DAG-level results is not entered again -/
theorem not_entered_of_res (i : Inst V) (hok : InstOK i) (op : Op V) (n : Node) (v : V)
    (hs : i.dag.isSetup n = true) (hr : i.res n = some v) : n ∉ entered (opCfg i op) := by
  intro h
  have hn : n ∈ (opCfg i op).nodes := (List.mem_filter.mp h).1
  have := mem_nodes_init_none i op n hn
  rw [opCfg_init_setup i hok op n hs, hr] at this
  cases this

theorem applyOp_ok (i : Inst V) (hok : InstOK i) (op : Op V) : InstOK (applyOp i op) :=
  ⟨by rw [applyOp_dag]; exact hok.params⟩

theorem not_in_later_entries (ops : List (Op V)) : ∀ (i : Inst V), InstOK i → ∀ (n : Node) (v : V),
    i.dag.isSetup n = true → i.res n = some v → n ∉ setupEntries i ops := by
  induction ops with
  | nil => intro i _ n v _ _; simp [setupEntries]
  | cons op rest ih =>
    intro i hok n v hs hr
    simp only [setupEntries, List.mem_append, not_or]
    refine ⟨?_, ?_⟩
    · intro h; exact not_entered_of_res i hok op n v hs hr (List.mem_filter.mp h).1
    · exact ih (applyOp i op) (applyOp_ok i hok op) n v (by rw [applyOp_dag]; exact hs)
        (applyOp_res_keep i op n v hr)

/-- every operation of the history succeeds -/
def AllSucceed : Inst V → List (Op V) → Prop
  | _, [] => True
  | i, op :: rest => succeeded (opCfg i op) = true ∧ AllSucceed (applyOp i op) rest

/-- a node entered in a successful run has a value in that run's results -/
theorem entered_den_some (c : ECfg V) (hwf : WF c) (hinit : ∀ n ∈ c.nodes, c.init n = none)
    (hsucc : succeeded c = true) (n : Node) (hn : n ∈ entered c) : ∃ v, den c n = some v := by
  have hmem : n ∈ c.nodes := (List.mem_filter.mp hn).1
  have : (outcome c (den c) n).isSome = true := by
    unfold succeeded at hsucc
    exact List.all_eq_true.mp hsucc n hmem
  obtain ⟨v, hv⟩ := Option.isSome_iff_exists.mp this
  exact ⟨v, den_of_outcome c hwf hmem hv⟩

/-- **C11** (model level): over any history of successful calls, executor runs and setup()
    invocations on one instance, no setup node is executed twice. -/
theorem C11_setup_at_most_once (ops : List (Op V)) : ∀ (i : Inst V), InstOK i →
    (∀ (j : Inst V) (op : Op V), WF (opCfg j op)) →          -- every configuration we run is well formed
    AllSucceed i ops → (setupEntries i ops).Nodup := by
  induction ops with
  | nil => intro i _ _ _; simp [setupEntries]
  | cons op rest ih =>
    intro i hok hwf hall
    simp only [setupEntries]
    have hc := hwf i op
    rw [List.nodup_append]
    refine ⟨(hc.1.filter _).filter _, ih (applyOp i op) (applyOp_ok i hok op) hwf hall.2, ?_⟩
    intro a ha b hb hab
    subst hab
    have hent := (List.mem_filter.mp ha).1
    have hset : i.dag.isSetup a = true := (List.mem_filter.mp ha).2
    obtain ⟨v, hv⟩ := entered_den_some (opCfg i op) hc (mem_nodes_init_none i op) hall.1 a hent
    -- after the successful run its value has been copied back
    have hres : (applyOp i op).res a = some v := by
      have hnone : i.res a = none := by
        have := mem_nodes_init_none i op a (List.mem_filter.mp hent).1
        rwa [opCfg_init_setup i hok op a hset] at this
      unfold applyOp; simp only [hall.1, if_true, copyBack, hset, hnone, Option.isNone_none, Bool.and_self]
      exact hv
    exact not_in_later_entries rest (applyOp i op) (applyOp_ok i hok op) a v (by rw [applyOp_dag]; exact hset) hres hb

end VM
