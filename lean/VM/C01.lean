import VM.BuildThm
namespace VM
open TM
variable {V : Type} [PyVal V]

/-- tracer state at the start of the describing function: the parameters are bound holders -/
def initState (params : List V) : BState V :=
  { next := params.length, nodes := [], recOf := fun _ => emptyRec,
    init := fun i => params[i]?,
    env := (List.range params.length).map fun i => ⟨i, []⟩ }

theorem good_init (interp : Interp V) (params : List V) : Good interp (initState params) params := by
  refine ⟨?_, by simp [initState], by simp [initState], by simp [initState], by simp [initState],
    by intro n _; rfl, ?_, ?_⟩
  · intro x hx
    show params[x]? = none
    exact List.getElem?_eq_none hx
  · simp [initState]
  · intro i r hi
    simp only [initState, List.getElem?_map, List.getElem?_range] at hi
    by_cases hlt : i < params.length
    · simp [hlt] at hi
      subst hi
      refine ⟨hlt, params[i], params[i], ?_, List.getElem?_eq_getElem hlt, rfl⟩
      show den ((initState params).cfg interp) i = some params[i]
      show denote _ [] (fun i => params[i]?) i = _
      simp [denote]
    · simp [hlt] at hi

/-- **C01 for the flat fragment** (model level). If plain sequential evaluation of the describing
    function's body on `params` succeeds with variable values `valsF`, then in *every* execution of
    the traced DAG that returns — whatever the priorities, sequential flags, resources,
    `max_concurrency` and completion order — every variable (hence every component of any return
    shape) denotes exactly the plain value. -/
theorem C01_flat (interp : Interp V) (params : List V) (body : List (Call V)) (valsF : List V)
    (hev : evalBody interp body params = .ok valsF) (a : Attrs) {tr : List Label} {vs : VSt V}
    (hrun : VRun ((traceBody (initState params) body).cfg interp) a tr vs) (hdone : vs.st.pc = .done) :
    ∀ (i : Nat) (r : Ref), (traceBody (initState params) body).env[i]? = some r →
      ∃ v, valsF[i]? = some v ∧ resolve vs.ρ r = .ok v := by
  intro i r hi
  have hg := traceBody_good interp body (initState params) params valsF (good_init interp params) hev
  have hwf := wf_of_good hg
  have hρ := C01_core _ a hwf hrun hdone
  obtain ⟨_, w, v, hw, hv, hidx⟩ := hg.sees.2 i r hi
  refine ⟨v, hv, ?_⟩
  simp only [resolve, hρ r.src, hw]
  exact hidx

end VM
