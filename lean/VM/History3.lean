import VM.History2
/-! Further clauses of C11 / C15 over the history model. -/
namespace VM
open TM
variable {V : Type} [PyVal V]

/-- C11: an operation enters only nodes of its own selection (a sub-graph execution or
    `setup(target_nodes=…)` runs only the setup nodes its selection needs) … -/
theorem entered_subset_sel (i : Inst V) (op : Op V) : ∀ n ∈ entered (opCfg i op), n ∈ op.sel := by
  intro n hn
  have h1 : n ∈ (opCfg i op).nodes := (List.mem_filter.mp hn).1
  cases op with
  | call sel args => exact (List.mem_filter.mp h1).1
  | setup sel => exact (List.mem_filter.mp h1).1

/-- … and never one whose result the instance already holds (set up before, or supplied) -/
theorem entered_not_precomputed (i : Inst V) (op : Op V) : ∀ n ∈ entered (opCfg i op), (opCfg i op).init n = none := by
  intro n hn
  have h1 : n ∈ (opCfg i op).nodes := (List.mem_filter.mp hn).1
  exact mem_nodes_init_none i op n h1

/-- C11: every later execution sees the value produced the first time: once a setup value is in the
    instance, every later operation of any history starts from it -/
theorem runHistory_res_keep (ops : List (Op V)) : ∀ (i : Inst V) (n : Node) (v : V), i.res n = some v →
    (runHistory i ops).res n = some v := by
  induction ops with
  | nil => intro i n v h; exact h
  | cons op rest ih =>
    intro i n v h
    exact ih (applyOp i op) n v (applyOp_res_keep i op n v h)

/-- C15: a failed operation leaves the instance exactly as it was -/
theorem applyOp_failed_noop (i : Inst V) (op : Op V) (h : succeeded (opCfg i op) = false) : applyOp i op = i := by
  unfold applyOp; simp [h]

theorem runHistory_dag (ops : List (Op V)) : ∀ (i : Inst V), (runHistory i ops).dag = i.dag := by
  induction ops with
  | nil => intro i; rfl
  | cons op rest ih => intro i; show (runHistory (applyOp i op) rest).dag = i.dag; rw [ih, applyOp_dag]

omit [PyVal V] in
theorem opCfg_congr (i j : Inst V) (hd : i.dag = j.dag) (hr : i.res = j.res) : i = j := by
  cases i; cases j; simp only at hd hr; subst hd; subst hr; rfl

/-- C15: the outcome of the next call depends only on its own arguments and on WHICH SETUP RESULTS the
    instance holds — never on anything else the earlier history did: two histories (calls with any
    arguments, executor runs, failing calls) from one instance that end with the same setup results give
    the next operation the very same run configuration. -/
theorem C15_next_call_depends_only_on_setup_state (i : Inst V) (ops1 ops2 : List (Op V))
    (h : ∀ n, i.dag.isSetup n = true → (runHistory i ops1).res n = (runHistory i ops2).res n) (op : Op V) :
    opCfg (runHistory i ops1) op = opCfg (runHistory i ops2) op := by
  have hi : runHistory i ops1 = runHistory i ops2 := by
    apply opCfg_congr
    · rw [runHistory_dag, runHistory_dag]
    · funext n
      cases hs : i.dag.isSetup n with
      | true => exact h n hs
      | false => rw [runHistory_res_nonsetup ops1 i n hs, runHistory_res_nonsetup ops2 i n hs]
  rw [hi]

end VM
