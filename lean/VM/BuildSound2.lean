import VM.BuildSound
namespace VM
open TM
variable {V : Type} [PyVal V]

theorem traceKwargs_sound {ρ0 ρ' : Results V} {st0 : BState V} {vals : List V} (hsees : Sees st0 ρ0 vals) :
    ∀ (l : List (String × Arg V)) (st stF : BState V) (vs : List (String × V)), Ext st0 st →
      Ext (traceKwargs st l).1 stF → Shows ρ0 ρ' st0 stF →
      l.mapM (kwMap (evalArg vals)) = .ok vs →
      (traceKwargs st l).2.mapM (kwMap (resolve ρ')) = .ok vs ∧
      ∀ p ∈ (traceKwargs st l).2, p.2.src < (traceKwargs st l).1.next := by
  intro l
  induction l with
  | nil =>
    intro st stF vs _ _ _ hev
    simp only [List.mapM_nil] at hev
    have : vs = [] := by injection hev with h; exact h.symm
    subst this
    exact ⟨rfl, by intro r hr; simp [traceKwargs] at hr⟩
  | cons p rest ih =>
    intro st stF vs h0 hF hshow hev
    obtain ⟨k, a⟩ := p
    rw [List.mapM_cons] at hev
    cases ha : evalArg vals a with
    | error e => simp [kwMap, ha] at hev; cases hev
    | ok v =>
      cases hr : rest.mapM (kwMap (evalArg vals)) with
      | error e => simp [kwMap, ha, hr] at hev; cases hev
      | ok vs' =>
        have hvs : vs = (k, v) :: vs' := by
          simp [kwMap, ha, hr] at hev
          injection hev with h; exact h.symm
        subst hvs
        simp only [traceKwargs]
        have hext1 := traceArg_ext st a
        have hext2 := traceKwargs_ext rest (traceArg st a).1
        have hFa : Ext (traceArg st a).1 stF := hext2.trans hF
        have h1 := traceArg_sound a hsees h0 hFa hshow ha
        have h2 := ih (traceArg st a).1 stF vs' (h0.trans hext1) hF hshow hr
        refine ⟨?_, ?_⟩
        · rw [List.mapM_cons, h2.1]
          simp [kwMap, h1.1]; rfl
        · intro q hq
          rcases List.mem_cons.mp hq with rfl | hq
          · exact Nat.lt_of_lt_of_le h1.2 hext2.next
          · exact h2.2 q hq

/-- the invariant of the tracer: what has been recorded so far denotes what plain evaluation computed -/
structure Good (interp : Interp V) (st : BState V) (vals : List V) : Prop where
  fresh  : ∀ x, st.next ≤ x → st.init x = none
  nlt    : ∀ n ∈ st.nodes, n < st.next
  rlt    : ∀ n ∈ st.nodes, ∀ r ∈ (st.recOf n).refs, r.src < n
  sorted : st.nodes.Pairwise (· < ·)
  ninit  : ∀ n ∈ st.nodes, st.init n = none
  norec  : ∀ n, n ∉ st.nodes → (st.recOf n).refs = []      -- only recorded nodes have a record
  sees   : Sees st (den (st.cfg interp)) vals

end VM
