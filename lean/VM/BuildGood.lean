import VM.BuildCall
namespace VM
open TM
variable {V : Type} [PyVal V]

/-- outcome of a record under `ρ` (the record-level view of `outcome`) -/
def outcomeRec (interp : Interp V) (ρ : Results V) (r : NodeRec) : Option V :=
  match activeOf ρ r with
  | .error _ => none
  | .ok false => some PyVal.none
  | .ok true => match callOf interp ρ r with | .ok v => some v | .error _ => none

theorem outcome_eq (c : ECfg V) (ρ : Results V) (n : Node) :
    outcome c ρ n = outcomeRec c.interp ρ (c.recOf n) := rfl

/-- **abstract extension step**: recording a node whose record evaluates to `v` under every results
    map that shows the state, and binding a new variable to it, preserves the tracer invariant. -/
theorem good_extend (interp : Interp V) {st st3 : BState V} {vals : List V} (hg : Good interp st vals)
    (hext : Ext st st3) (r : NodeRec) (v : V)
    (hreflt : ∀ x ∈ r.refs, x.src < st3.next)
    (hout : ∀ ρ1, Shows (den (st.cfg interp)) ρ1 st st3 → outcomeRec interp ρ1 r = some v) :
    Good interp (extend st3 r) (vals ++ [v]) := by
  let n := st3.next
  let c0 := st.cfg interp
  let c4 := (extend st3 r).cfg interp
  have hn_ge : st.next ≤ n := hext.next
  have hrec_old : ∀ m ∈ st.nodes, c4.recOf m = c0.recOf m := by
    intro m hm
    have : m ≠ n := Nat.ne_of_lt (Nat.lt_of_lt_of_le (hg.nlt m hm) hn_ge)
    show (if m = n then r else st3.recOf m) = st.recOf m
    rw [if_neg this, hext.recOf]
  have hrec_n : c4.recOf n = r := by show (if n = n then r else st3.recOf n) = r; simp
  let ρ0 := den c0
  let ρ1 := denote c4 st.nodes st3.init
  have hA : ∀ x, x < st.next → ρ1 x = ρ0 x := by
    intro x hx
    apply denote_congr c4 c0 st.next rfl st.nodes st3.init st.init hrec_old hg.nlt
    · intro m hm y hy
      rw [hrec_old m hm] at hy
      exact Nat.lt_trans (hg.rlt m hm y hy) (hg.nlt m hm)
    · intro y hy; exact hext.below y hy
    · exact hx
  have hB : ∀ x, st.next ≤ x → ρ1 x = st3.init x := by
    intro x hx
    apply denote_notin
    intro hmem; exact absurd (hg.nlt x hmem) (Nat.not_lt.mpr hx)
  have hshow : Shows ρ0 ρ1 st st3 := ⟨hA, fun x hx _ => hB x hx⟩
  have houtn : outcome c4 ρ1 n = some v := by rw [outcome_eq, hrec_n]; exact hout ρ1 hshow
  have hden4 : den c4 = ρ1.set n v := by
    show denote c4 (st3.nodes ++ [n]) st3.init = _
    rw [hext.nodes, denote_append]
    exact denote_single c4 ρ1 n v houtn
  have hfresh3 : ∀ x, st3.next ≤ x → st3.init x = none := hext.above hg.fresh
  refine ⟨?_, ?_, ?_, ?_, ?_, ?_, ?_⟩
  · intro x hx
    exact hfresh3 x (Nat.le_of_lt hx)
  · intro m hm
    have hm' : m ∈ st.nodes ++ [n] := by
      have : m ∈ st3.nodes ++ [n] := hm
      rwa [hext.nodes] at this
    rcases List.mem_append.mp hm' with h | h
    · exact Nat.lt_succ_of_lt (Nat.lt_of_lt_of_le (hg.nlt m h) hn_ge)
    · simp at h; subst h; exact Nat.lt_succ_self _
  · intro m hm y hy
    have hm' : m ∈ st.nodes ++ [n] := by
      have : m ∈ st3.nodes ++ [n] := hm
      rwa [hext.nodes] at this
    rcases List.mem_append.mp hm' with h | h
    · have hy' : y ∈ (c4.recOf m).refs := hy
      rw [hrec_old m h] at hy'
      exact hg.rlt m h y hy'
    · simp at h; subst h
      have hy' : y ∈ (c4.recOf n).refs := hy
      rw [hrec_n] at hy'
      exact hreflt y hy'
  · show (st3.nodes ++ [n]).Pairwise (· < ·)
    rw [hext.nodes, List.pairwise_append]
    refine ⟨hg.sorted, List.pairwise_singleton _ _, ?_⟩
    intro a ha b hb
    simp at hb; subst hb
    exact Nat.lt_of_lt_of_le (hg.nlt a ha) hn_ge
  · intro m hm
    have hm' : m ∈ st.nodes ++ [n] := by
      have : m ∈ st3.nodes ++ [n] := hm
      rwa [hext.nodes] at this
    show st3.init m = none
    rcases List.mem_append.mp hm' with h | h
    · rw [hext.below m (hg.nlt m h)]; exact hg.ninit m h
    · simp at h; subst h; exact hfresh3 _ (Nat.le_refl _)
  · -- only recorded nodes have a record
    intro m hm
    have hm' : m ∉ st.nodes ++ [n] := by
      have : m ∉ st3.nodes ++ [n] := hm
      rwa [hext.nodes] at this
    have hmn : m ≠ n := fun h => hm' (by simp [h])
    have hmo : m ∉ st.nodes := fun h => hm' (by simp [h])
    show (if m = n then r else st3.recOf m).refs = []
    rw [if_neg hmn, hext.recOf]
    exact hg.norec m hmo
  · -- sees
    have hs := hg.sees
    refine ⟨?_, ?_⟩
    · show (st3.env ++ [(⟨n, []⟩ : Ref)]).length = (vals ++ [v]).length
      rw [hext.env]; simp [hs.1]
    · intro i ref hi
      have hi' : (st.env ++ [(⟨n, []⟩ : Ref)])[i]? = some ref := by
        have : (st3.env ++ [(⟨n, []⟩ : Ref)])[i]? = some ref := hi
        rwa [hext.env] at this
      show ref.src < n + 1 ∧ ∃ w u, den c4 ref.src = some w ∧ (vals ++ [v])[i]? = some u ∧ index w ref.path = .ok u
      rw [hden4]
      by_cases hlt : i < st.env.length
      · rw [List.getElem?_append_left hlt] at hi'
        obtain ⟨hsrc, w, u, hw, hu, hidx⟩ := hs.2 i ref hi'
        have hne : ref.src ≠ n := Nat.ne_of_lt (Nat.lt_of_lt_of_le hsrc hn_ge)
        refine ⟨Nat.lt_succ_of_lt (Nat.lt_of_lt_of_le hsrc hn_ge), w, u, ?_, ?_, hidx⟩
        · rw [set_ne hne, hA ref.src hsrc]; exact hw
        · rw [List.getElem?_append_left (by rw [← hs.1]; exact hlt)]; exact hu
      · have hge : st.env.length ≤ i := Nat.le_of_not_lt hlt
        rw [List.getElem?_append_right hge] at hi'
        have hi0 : i - st.env.length = 0 := by
          cases hk : i - st.env.length with
          | zero => rfl
          | succ k => rw [hk] at hi'; simp at hi'
        rw [hi0] at hi'
        simp at hi'
        subst hi'
        refine ⟨Nat.lt_succ_self _, v, v, set_eq, ?_, rfl⟩
        rw [List.getElem?_append_right (by rw [← hs.1]; exact hge), ← hs.1, hi0]; rfl

end VM
