import VD.Val
import VD.FlagWitness
