import VD.Val
