/-! Node ids (`LazyExecNode.__call__` / `count_occurrences` / `_lazy_xn_id`, and the prefix a DAG called inside a DAG
    gets in `DAG.__call__`): every call site of a decorated function, and every call site of a DAG inside a DAG, is
    registered under an id derived from a BASE NAME (the function's / DAG's qualname) and the number of earlier
    registrations of that base name:  `f`, `f<<1>>`, `f<<2>>`, …;  `inner.g`, `inner<<1>>.g`, ….

    Abstract ids are pairs (base, k); `alloc` is the allocation rule; `Dense` is the invariant that makes it fresh: for
    every base the suffixes in use are exactly 0 … count-1.  Consequences: a registration never collides with an
    earlier one (C03: one node per call site), and two call sites of DAGs — of the same DAG, or of DIFFERENT DAG objects
    that share a qualname — never get the same prefix, so their spliced nodes never capture each other (C20).  The
    rendering of (base, k) as a string is not modelled (it is injective as long as base names contain no `<<`). -/
namespace GM

abbrev Id := String × Nat

def countOcc (ids : List Id) (base : String) : Nat := (ids.filter (fun i => i.1 == base)).length

/-- the allocation rule: the number of earlier registrations of the base name -/
def alloc (ids : List Id) (base : String) : Id := (base, countOcc ids base)

/-- for every base name the suffixes in use are exactly 0 … count-1 -/
def Dense (ids : List Id) : Prop := ∀ base k, (base, k) ∈ ids ↔ k < countOcc ids base

theorem countOcc_append (ids : List Id) (i : Id) (base : String) :
    countOcc (ids ++ [i]) base = countOcc ids base + (if i.1 == base then 1 else 0) := by
  unfold countOcc
  rw [List.filter_append, List.length_append]
  by_cases h : (i.1 == base) = true <;> simp [List.filter, h]

theorem dense_nil : Dense [] := by
  intro base k; simp [countOcc]

/-- a registration is fresh, and the invariant is kept -/
theorem alloc_fresh (ids : List Id) (h : Dense ids) (base : String) :
    alloc ids base ∉ ids ∧ Dense (ids ++ [alloc ids base]) := by
  constructor
  · intro hmem
    have := (h base (countOcc ids base)).mp hmem
    exact Nat.lt_irrefl _ this
  · intro b k
    rw [List.mem_append, countOcc_append]
    simp only [alloc, List.mem_singleton]
    by_cases hb : (base == b) = true
    · have hbe : base = b := by simpa using hb
      subst hbe
      simp only [beq_self_eq_true, if_true]
      constructor
      · rintro (hm | he)
        · have := (h base k).mp hm; omega
        · injection he with _ hk; omega
      · intro hk
        by_cases hlt : k < countOcc ids base
        · exact Or.inl ((h base k).mpr hlt)
        · right
          have : k = countOcc ids base := by omega
          rw [this]
    · have hne : base ≠ b := by intro e; subst e; simp at hb
      simp only [hb, Bool.false_eq_true, if_false, Nat.add_zero]
      constructor
      · rintro (hm | he)
        · exact (h b k).mp hm
        · injection he with h1 _; exact absurd h1.symm hne
      · intro hk; exact Or.inl ((h b k).mpr hk)

/-- registering a sequence of base names one after the other -/
def allocAll (ids : List Id) : List String → List Id
  | [] => ids
  | b :: rest => allocAll (ids ++ [alloc ids b]) rest

theorem allocAll_dense_nodup (bases : List String) : ∀ (ids : List Id), Dense ids → ids.Nodup →
    Dense (allocAll ids bases) ∧ (allocAll ids bases).Nodup := by
  induction bases with
  | nil => intro ids h1 h2; exact ⟨h1, h2⟩
  | cons b rest ih =>
    intro ids h1 h2
    obtain ⟨hf, hd⟩ := alloc_fresh ids h1 b
    apply ih (ids ++ [alloc ids b]) hd
    rw [List.nodup_append]
    refine ⟨h2, by simp, ?_⟩
    intro a ha c hc
    simp only [List.mem_singleton] at hc
    subst hc
    intro e; subst e; exact hf ha

/-- **C03 (ids)**: whatever sequence of call sites a description registers — the same function any number of times,
    different functions that share a name — all the ids are distinct. -/
theorem C03_call_site_ids_distinct (bases : List String) : (allocAll [] bases).Nodup :=
  (allocAll_dense_nodup bases [] dense_nil List.nodup_nil).2

/-- a spliced node: the prefix of its call site and the id it has in the inner DAG -/
abbrev Spliced := Id × Id

/-- **C20 (ids)**: the nodes of two sub-DAG call sites never coincide when the two prefixes were allocated one after the
    other — also when the two DAG objects share a qualname — and a spliced node never coincides with another node
    spliced at the same site unless it is the same inner node. -/
theorem C20_spliced_ids_distinct (ids : List Id) (h : Dense ids) (q1 q2 : String) (a b : Id) :
    let p1 := alloc ids q1
    let p2 := alloc (ids ++ [p1]) q2
    ((p1, a) : Spliced) ≠ (p2, b) := by
  intro p1 p2 e
  have hp : p1 = p2 := congrArg Prod.fst e
  obtain ⟨_, hd⟩ := alloc_fresh ids h q1
  have hfresh := (alloc_fresh (ids ++ [p1]) hd q2).1
  apply hfresh
  show p2 ∈ ids ++ [p1]
  rw [← hp]; simp

end GM
