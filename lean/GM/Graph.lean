/-! Prototype: graph layer. Nodes are listed in recording (topological) order; descendants by one forward pass. -/
namespace GM

abbrev Node := Nat

structure G where
  nodes : List Node              -- recording order
  preds : Node → List Node

/-- edge p → m inside the node list -/
def G.edge (g : G) (p m : Node) : Prop := p ∈ g.nodes ∧ m ∈ g.nodes ∧ p ∈ g.preds m

/-- topological listing: every predecessor that belongs to the graph occurs earlier -/
def Topo (preds : Node → List Node) : List Node → Prop
  | [] => True
  | m :: rest => Topo preds rest ∧ ∀ x ∈ rest, m ∉ preds m ∧ x ∉ preds m   -- nothing later (nor itself) is a pred of m

/-- one forward pass: `acc` = descendants found so far (of source `n`) among the nodes already visited -/
def descPass (preds : Node → List Node) (n : Node) : List Node → List Node → List Node
  | [], acc => acc
  | m :: rest, acc =>
    if (preds m).any (fun p => p == n || acc.contains p) then descPass preds n rest (acc ++ [m])
    else descPass preds n rest acc

/-- strict descendants of `n`: nodes listed after `n` that are reachable from it -/
def desc (g : G) (n : Node) : List Node :=
  match g.nodes.dropWhile (· != n) with
  | [] => []
  | _ :: after => descPass g.preds n after []

inductive Reach (g : G) : Node → Node → Prop
  | single {a b} : g.edge a b → Reach g a b
  | tail {a b c} : Reach g a b → g.edge b c → Reach g a c

/-- compound priority as documented: own + each distinct descendant once -/
def compoundPriority (g : G) (prio : Node → Int) (n : Node) : Int :=
  prio n + ((desc g n).map prio).sum

-- sanity: diamond 0→1,0→2,1→3,2→3 with priorities 1,10,100,1000
def diamond : G := { nodes := [0,1,2,3], preds := fun m => match m with | 1 => [0] | 2 => [0] | 3 => [1,2] | _ => [] }
example : compoundPriority diamond (fun n => match n with | 0 => 1 | 1 => 10 | 2 => 100 | _ => 1000) 0 = 1111 := by decide
example : desc diamond 0 = [1,2,3] := by decide

/-! ### the epoch algorithm of the pinned code, with the iteration order of each epoch's set explicit -/

/-- one epoch: for every leaf in the given order add its *current* value to each predecessor -/
def epoch (g : G) (order : List Node) (cp : Node → Int) : (Node → Int) × List Node :=
  order.foldl (fun (acc : (Node → Int) × List Node) leaf =>
    let (cp, next) := acc
    let v := cp leaf
    let ps := (g.preds leaf).filter (g.nodes.contains ·)
    (ps.foldl (fun cp p => fun x => if x = p then cp x + v else cp x) cp,
     ps.foldl (fun nx p => if nx.contains p then nx else nx ++ [p]) next)) (cp, [])

/-- run epochs; `perm k s` is the order in which the k-th epoch's set `s` is iterated -/
def epochs (g : G) (perm : Nat → List Node → List Node) : Nat → Nat → List Node → (Node → Int) → (Node → Int)
  | 0, _, _, cp => cp
  | fuel+1, k, leaves, cp =>
    if leaves.isEmpty then cp else
    let (cp', next) := epoch g (perm k leaves) cp
    epochs g perm fuel (k+1) next cp'

def leaves (g : G) : List Node := g.nodes.filter fun n => !(g.nodes.any fun m => (g.preds m).contains n)

def pinnedCP (g : G) (perm : Nat → List Node → List Node) (prio : Node → Int) : Node → Int :=
  epochs g perm (g.nodes.length + 1) 0 (leaves g) prio

-- witness 1: path multiplicity on the diamond (documented value 1111)
example : pinnedCP diamond (fun _ s => s) (fun n => match n with | 0 => 1 | 1 => 10 | 2 => 100 | _ => 1000) 0 = 2111 := by decide

-- witness 2: order dependence. R=0 → A=1 → B=2 → L1=3, A → L2=4 ; priorities 1,10,100,1000,10000
def w2 : G := { nodes := [0,1,2,3,4], preds := fun m => match m with | 1 => [0] | 2 => [1] | 3 => [2] | 4 => [1] | _ => [] }
def pr2 : Node → Int := fun n => match n with | 0 => 1 | 1 => 10 | 2 => 100 | 3 => 1000 | _ => 10000
example : pinnedCP w2 (fun _ s => s) pr2 0 = 22221 := by decide
example : pinnedCP w2 (fun k s => if k = 1 then s.reverse else s) pr2 0 = 21121 := by decide
example : compoundPriority w2 pr2 0 = 11111 := by decide

end GM
