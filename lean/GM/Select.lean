import GM.Desc
/-! Prototype: sub-graph selection as the code performs it (roots, then exclusion, then targets, each
    step on the graph produced by the previous one) equals the documented closure (C12). -/
namespace GM

def induced (g : G) (S : Node → Bool) : G := { nodes := g.nodes.filter S, preds := g.preds }

theorem mem_induced {g : G} {S : Node → Bool} {x : Node} : x ∈ (induced g S).nodes ↔ x ∈ g.nodes ∧ S x = true := by
  simp [induced]

theorem edge_induced {g : G} {S : Node → Bool} {a b : Node} :
    (induced g S).edge a b ↔ g.edge a b ∧ S a = true ∧ S b = true := by
  unfold G.edge
  simp only [induced, List.mem_filter]
  constructor
  · intro h; exact ⟨⟨h.1.1, h.2.1.1, h.2.2⟩, h.1.2, h.2.1.2⟩
  · intro h; exact ⟨⟨h.1.1, h.2.1⟩, ⟨h.1.2.1, h.2.2⟩, h.1.2.2⟩

theorem reach_induced_sub {g : G} {S : Node → Bool} {a b : Node} (h : Reach (induced g S) a b) :
    Reach g a b ∧ S a = true ∧ S b = true := by
  induction h with
  | single e => have := edge_induced.1 e; exact ⟨Reach.single this.1, this.2.1, this.2.2⟩
  | tail _ e ih => have := edge_induced.1 e; exact ⟨Reach.tail ih.1 this.1, ih.2.1, this.2.2⟩

/-- `S` is closed under descendants in `g` -/
def DescClosed (g : G) (S : Node → Bool) : Prop := ∀ a b, g.edge a b → S a = true → S b = true

theorem reach_closed {g : G} {S : Node → Bool} (hc : DescClosed g S) {a b : Node} (h : Reach g a b) (ha : S a = true) :
    S b = true := by
  induction h with
  | single e => exact hc _ _ e ha
  | tail _ e ih => exact hc _ _ e ih

/-- inside a descendant-closed set, reachability is the same as in the whole graph -/
theorem reach_induced_of_closed {g : G} {S : Node → Bool} (hc : DescClosed g S) {a b : Node}
    (h : Reach g a b) (ha : S a = true) : Reach (induced g S) a b := by
  induction h with
  | single e => exact Reach.single (edge_induced.2 ⟨e, ha, hc _ _ e ha⟩)
  | tail hab e ih =>
    have hb := reach_closed hc hab ha
    exact Reach.tail ih (edge_induced.2 ⟨e, hb, hc _ _ e hb⟩)

/-- `S1 \ D` with both descendant-closed: a path that *ends* inside stays inside -/
theorem reach_induced_diff {g : G} {S1 D : Node → Bool} (h1 : DescClosed g S1) (hD : DescClosed g D)
    {a c : Node} (h : Reach g a c) (ha : S1 a = true ∧ D a = false) :
    D c = false → Reach (induced g (fun x => S1 x && !D x)) a c := by
  induction h with
  | single e =>
    intro hc
    exact Reach.single (edge_induced.2 ⟨e, by simp [ha.1, ha.2], by simp [h1 _ _ e ha.1, hc]⟩)
  | tail hab e ih =>
    rename_i b c
    intro hc
    have hbD : D b = false := by
      cases hb : D b with
      | false => rfl
      | true => have := hD _ _ e hb; rw [hc] at this; cases this
    have hb1 : S1 b = true := reach_closed h1 hab ha.1
    exact Reach.tail (ih hbD) (edge_induced.2 ⟨e, by simp [hb1, hbD], by simp [h1 _ _ e hb1, hc]⟩)

/-! ### the three steps, as membership predicates over reachability -/

/-- step 1: `R` and everything depending on `R` -/
def inR (g : G) (R : List Node) (x : Node) : Prop := x ∈ g.nodes ∧ (x ∈ R ∨ ∃ r ∈ R, Reach g r x)
/-- step 2 (on graph g1): minus `X` and everything depending on `X` in g1 -/
def inX (g1 : G) (X : List Node) (x : Node) : Prop := x ∈ X ∨ ∃ q ∈ X, Reach g1 q x
/-- step 3 (on graph g2): `T` and the ancestors of `T` in g2 -/
def inT (g2 : G) (T : List Node) (x : Node) : Prop := x ∈ g2.nodes ∧ (x ∈ T ∨ ∃ t ∈ T, Reach g2 x t)

/-- **C12** (model level): performing the three steps one after the other, each on the graph left by
    the previous one, selects exactly
    `(R ∪ desc R) \ (X ∪ desc X) ∩ (T ∪ anc T)` with descendants and ancestors taken in the full graph. -/
theorem C12_closure (g : G) (R X T : List Node) (S1 D : Node → Bool)
    (hS1 : ∀ x, S1 x = true ↔ inR g R x)                                   -- S1 decides step 1
    (hD : ∀ x, D x = true ↔ inX (induced g S1) X x)                        -- D decides step 2, computed in g1
    (hXin : ∀ q ∈ X, S1 q = true)                                          -- excluded nodes lie in the R-part
    (hTin : ∀ t ∈ T, S1 t = true ∧ D t = false)                            -- targets survive the exclusion
    (x : Node) :
    inT (induced g (fun y => S1 y && !D y)) T x ↔
      (inR g R x ∧ ¬ (x ∈ X ∨ ∃ q ∈ X, Reach g q x) ∧ (x ∈ T ∨ ∃ t ∈ T, Reach g x t)) := by
  -- S1 is descendant-closed in g
  have c1 : DescClosed g S1 := by
    intro a b e ha
    rw [hS1] at ha ⊢
    refine ⟨e.2.1, Or.inr ?_⟩
    rcases ha.2 with h | ⟨r, hr, hra⟩
    · exact ⟨a, h, Reach.single e⟩
    · exact ⟨r, hr, Reach.tail hra e⟩
  -- reachability from an excluded node is the same in g1 and in g
  have hDg : ∀ y, D y = true ↔ (y ∈ X ∨ ∃ q ∈ X, Reach g q y) := by
    intro y
    rw [hD]
    constructor
    · rintro (h | ⟨q, hq, hr⟩)
      · exact Or.inl h
      · exact Or.inr ⟨q, hq, (reach_induced_sub hr).1⟩
    · rintro (h | ⟨q, hq, hr⟩)
      · exact Or.inl h
      · exact Or.inr ⟨q, hq, reach_induced_of_closed c1 hr (hXin q hq)⟩
  -- D is descendant-closed in g
  have cD : DescClosed g D := by
    intro a b e ha
    rw [hDg] at ha ⊢
    rcases ha with h | ⟨q, hq, hr⟩
    · exact Or.inr ⟨a, h, Reach.single e⟩
    · exact Or.inr ⟨q, hq, Reach.tail hr e⟩
  have hDfalse : ∀ y, D y = false ↔ ¬ (y ∈ X ∨ ∃ q ∈ X, Reach g q y) := by
    intro y; rw [← hDg]; cases D y <;> simp
  constructor
  · rintro ⟨hx, ht⟩
    have hx' := mem_induced.1 hx
    have hs : S1 x = true ∧ D x = false := by
      have := hx'.2; simp at this; exact this
    refine ⟨(hS1 x).1 hs.1, (hDfalse x).1 hs.2, ?_⟩
    rcases ht with h | ⟨t, ht, hr⟩
    · exact Or.inl h
    · exact Or.inr ⟨t, ht, (reach_induced_sub hr).1⟩
  · rintro ⟨hR, hnX, hT⟩
    have hs1 : S1 x = true := (hS1 x).2 hR
    have hd : D x = false := (hDfalse x).2 hnX
    refine ⟨mem_induced.2 ⟨hR.1, by simp [hs1, hd]⟩, ?_⟩
    rcases hT with h | ⟨t, ht, hr⟩
    · exact Or.inl h
    · exact Or.inr ⟨t, ht, reach_induced_diff c1 cD hr ⟨hs1, hd⟩ (hTin t ht).2⟩

end GM
