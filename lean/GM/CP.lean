import GM.SelectExec
/-! Compound priority (C07): own priority plus each distinct descendant once, independent of the
    order in which the descendant set is enumerated. -/
namespace GM

theorem perm_sum_int {l1 l2 : List Int} (p : l1.Perm l2) : l1.sum = l2.sum := by
  induction p with
  | nil => rfl
  | cons x _ ih => simp [ih]
  | swap x y l => simp; omega
  | trans _ _ ih1 ih2 => rw [ih1, ih2]

/-- the executable definition the driver runs -/
def cpAll (g : G) (prio : Node → Int) (n : Node) : Int :=
  prio n + ((descAll g n).map prio).sum

/-- **C07** (model level): the computed value is the node's own priority plus the priorities of the
    *set* of its distinct descendants, for every duplicate-free enumeration `L` of that set — i.e.
    each descendant is counted once however many paths lead to it, and the result does not depend
    on the enumeration (hash) order. -/
theorem C07_cp_is_own_plus_distinct_descendants (g : G) (hnd : g.nodes.Nodup)
    (ht : TopoL g.preds g.nodes) (prio : Node → Int) (n : Node) (hn : n ∈ g.nodes)
    (L : List Node) (hL : L.Nodup) (hmem : ∀ x, x ∈ L ↔ Reach g n x) :
    cpAll g prio n = prio n + (L.map prio).sum := by
  unfold cpAll
  have hp : (descAll g n).Perm L := by
    rw [List.perm_ext_iff_of_nodup (descAll_nodup g n hnd) hL]
    intro a; rw [mem_descAll_iff g n hn ht a, hmem a]
  rw [perm_sum_int (hp.map prio)]

/-- order independence stated directly: two enumerations of the same set give the same value -/
theorem C07_cp_order_independent (prio : Node → Int) (L1 L2 : List Node) (h1 : L1.Nodup) (h2 : L2.Nodup)
    (h : ∀ x, x ∈ L1 ↔ x ∈ L2) : (L1.map prio).sum = (L2.map prio).sum :=
  perm_sum_int (((List.perm_ext_iff_of_nodup h1 h2).2 h).map prio)

/-- sub-graph selection keeps the table: the priority used for a selected node is the full DAG's -/
def cpSelected (g : G) (prio : Node → Int) (_sel : List Node) (n : Node) : Int := cpAll g prio n

-- regression values (the pinned algorithm gave 2111 / 22221 / 21121 on these)
example : cpAll diamond (fun n => match n with | 0 => 1 | 1 => 10 | 2 => 100 | _ => 1000) 0 = 1111 := by decide
example : cpAll w2 pr2 0 = 11111 := by decide

/-- the pinned epoch algorithm is *not* the documented function … -/
theorem C07_pinned_counts_paths :
    pinnedCP diamond (fun _ s => s) (fun n => match n with | 0 => 1 | 1 => 10 | 2 => 100 | _ => 1000) 0 ≠
    cpAll diamond (fun n => match n with | 0 => 1 | 1 => 10 | 2 => 100 | _ => 1000) 0 := by decide

/-- … and depends on the iteration order of its sets -/
theorem C07_pinned_order_dependent :
    pinnedCP w2 (fun _ s => s) pr2 0 ≠ pinnedCP w2 (fun k s => if k = 1 then s.reverse else s) pr2 0 := by decide

end GM
