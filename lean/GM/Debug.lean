import GM.Select
/-! Prototype: the debug extension of a selection (C13, model level). -/
namespace GM

/-- predecessors that belong to the (original) graph -/
def G.predsIn (g : G) (m : Node) : List Node := (g.preds m).filter (g.nodes.contains ·)

def qualifies (g : G) (isDebug : Node → Bool) (L : List Node) (m : Node) : Bool :=
  !L.contains m && isDebug m && !(g.predsIn m).isEmpty && (g.predsIn m).all (L.contains ·)

/-- one pass over the recording order, adding the debug nodes all of whose inputs are already there -/
def debugPass (g : G) (isDebug : Node → Bool) : List Node → List Node → List Node
  | [], L => L
  | m :: rest, L => if qualifies g isDebug L m then debugPass g isDebug rest (L ++ [m]) else debugPass g isDebug rest L

def extendDebug (g : G) (isDebug : Node → Bool) (sel leaves : List Node) (flag : Bool) : List Node :=
  if flag then sel ++ (debugPass g isDebug g.nodes leaves).filter (fun x => !sel.contains x)
  else sel.filter (fun x => !isDebug x)

theorem debugPass_mono (g : G) (isDebug : Node → Bool) : ∀ (l L : List Node) (x : Node), x ∈ L → x ∈ debugPass g isDebug l L := by
  intro l
  induction l with
  | nil => intro L x h; exact h
  | cons m rest ih =>
    intro L x h
    simp only [debugPass]
    split
    · exact ih _ x (by simp [h])
    · exact ih _ x h

/-- everything the pass adds is a debug node whose predecessors are all in the result -/
theorem debugPass_sound (g : G) (isDebug : Node → Bool) : ∀ (l L : List Node) (x : Node),
    x ∈ debugPass g isDebug l L → x ∈ L ∨ (isDebug x = true ∧ ∀ p ∈ g.predsIn x, p ∈ debugPass g isDebug l L) := by
  intro l
  induction l with
  | nil => intro L x h; exact Or.inl h
  | cons m rest ih =>
    intro L x h
    simp only [debugPass] at h ⊢
    split at h
    · rename_i hq
      rw [if_pos hq]
      rcases ih _ x h with h' | h'
      · rcases List.mem_append.mp h' with h'' | h''
        · exact Or.inl h''
        · simp at h''; subst h''
          right
          simp only [qualifies, Bool.and_eq_true, Bool.not_eq_true', List.all_eq_true, List.contains_eq_mem,
            decide_eq_true_eq] at hq
          refine ⟨hq.1.1.2, ?_⟩
          intro p hp
          exact debugPass_mono g isDebug rest _ p (by simp [hq.2 p hp])
      · exact Or.inr h'
    · rename_i hq
      rw [if_neg hq]
      exact ih _ x h

/-- **C13** (model level, flag on): a debug node pulled into a sub-graph run has all its inputs in the run -/
theorem C13_pulled_debug_has_inputs (g : G) (isDebug : Node → Bool) (sel leaves : List Node)
    (hl : ∀ x ∈ leaves, x ∈ sel) (x : Node) (hx : x ∈ extendDebug g isDebug sel leaves true) (hns : x ∉ sel) :
    isDebug x = true ∧ ∀ p ∈ g.predsIn x, p ∈ extendDebug g isDebug sel leaves true := by
  simp only [extendDebug, if_true, List.mem_append, List.mem_filter] at hx ⊢
  rcases hx with hx | ⟨hx, _⟩
  · exact absurd hx hns
  · rcases debugPass_sound g isDebug g.nodes leaves x hx with h | h
    · exact absurd (hl x h) hns
    · refine ⟨h.1, ?_⟩
      intro p hp
      by_cases hps : p ∈ sel
      · exact Or.inl hps
      · exact Or.inr ⟨h.2 p hp, by simpa using hps⟩

/-- **C13** (model level, flag off): no debug node is ever selected, whatever the selection -/
theorem C13_flag_off_no_debug (g : G) (isDebug : Node → Bool) (sel leaves : List Node) (x : Node)
    (hx : x ∈ extendDebug g isDebug sel leaves false) : isDebug x = false := by
  simp only [extendDebug, Bool.false_eq_true, if_false, List.mem_filter, Bool.not_eq_true'] at hx
  exact hx.2

/-- **C13** (flag on): the selection itself is kept — in particular a whole-DAG call (selection = every node) runs EVERY
    debug node, also one that has no input at all (which no "pull in what hangs below the selection" rule could find). -/
theorem C13_flag_on_keeps_selection (g : G) (isDebug : Node → Bool) (sel leaves : List Node) (x : Node) (hx : x ∈ sel) :
    x ∈ extendDebug g isDebug sel leaves true := by
  simp only [extendDebug, if_true, List.mem_append]
  exact Or.inl hx

/-- the pass is complete for direct hangers-on: a debug node of the graph all of whose (at least one) inputs are among the
    starting nodes is in the result -/
theorem debugPass_complete (g : G) (isDebug : Node → Bool) (m : Node) (hd : isDebug m = true)
    (hne : (g.predsIn m).isEmpty = false) : ∀ (l L : List Node), m ∈ l → (∀ p ∈ g.predsIn m, p ∈ L) →
    m ∈ debugPass g isDebug l L := by
  intro l
  induction l with
  | nil => intro L h; cases h
  | cons a rest ih =>
    intro L hm hp
    simp only [debugPass]
    by_cases hmL : m ∈ L
    · split
      · exact debugPass_mono g isDebug rest _ m (by simp [hmL])
      · exact debugPass_mono g isDebug rest _ m hmL
    · rcases List.mem_cons.mp hm with h | h
      · subst h
        have hq : qualifies g isDebug L m = true := by
          simp only [qualifies, Bool.and_eq_true, Bool.not_eq_true', List.all_eq_true, List.contains_eq_mem, decide_eq_true_eq]
          refine ⟨⟨⟨by simpa using hmL, hd⟩, hne⟩, hp⟩
        rw [if_pos hq]
        exact debugPass_mono g isDebug rest _ m (by simp)
      · split
        · exact ih _ h (fun p hp' => by simp [hp p hp'])
        · exact ih _ h hp

/-- **C13** (flag on, sub-graph runs): a debug node whose inputs are all LEAVES of the selection is pulled into the run -/
theorem C13_debug_below_leaves_is_pulled (g : G) (isDebug : Node → Bool) (sel leaves : List Node) (m : Node)
    (hm : m ∈ g.nodes) (hd : isDebug m = true) (hne : (g.predsIn m).isEmpty = false)
    (hp : ∀ p ∈ g.predsIn m, p ∈ leaves) : m ∈ extendDebug g isDebug sel leaves true := by
  simp only [extendDebug, if_true, List.mem_append, List.mem_filter]
  by_cases hs : m ∈ sel
  · exact Or.inl hs
  · exact Or.inr ⟨debugPass_complete g isDebug m hd hne g.nodes leaves hm hp, by simpa using hs⟩

/-! ### the pass is a fixpoint: debug nodes below pulled debug nodes are pulled too -/

theorem debugPass_append (g : G) (isDebug : Node → Bool) : ∀ (l1 l2 L : List Node),
    debugPass g isDebug (l1 ++ l2) L = debugPass g isDebug l2 (debugPass g isDebug l1 L) := by
  intro l1
  induction l1 with
  | nil => intro l2 L; rfl
  | cons a rest ih =>
    intro l2 L
    simp only [List.cons_append, debugPass]
    split
    · exact ih l2 _
    · exact ih l2 _

/-- whatever the pass adds comes from the list it walks -/
theorem debugPass_mem (g : G) (isDebug : Node → Bool) : ∀ (l L : List Node) (x : Node),
    x ∈ debugPass g isDebug l L → x ∈ L ∨ x ∈ l := by
  intro l
  induction l with
  | nil => intro L x h; exact Or.inl h
  | cons a rest ih =>
    intro L x h
    simp only [debugPass] at h
    split at h
    · rcases ih _ x h with h' | h'
      · rcases List.mem_append.mp h' with h'' | h''
        · exact Or.inl h''
        · simp at h''; subst h''; exact Or.inr (by simp)
      · exact Or.inr (by simp [h'])
    · rcases ih _ x h with h' | h'
      · exact Or.inl h'
      · exact Or.inr (by simp [h'])

/-- **the pass reaches its fixpoint in ONE walk over the recording order**: a debug node of the graph all of whose (at
    least one) inputs are in the RESULT — starting nodes or debug nodes pulled before it — is in the result too.  (The
    recording order is topological and duplicate-free; this is why a single pass is enough, and what a pass that examines a
    node once BEFORE its debug input was pulled gets wrong.) -/
theorem debugPass_fixpoint (g : G) (isDebug : Node → Bool) (hnd : g.nodes.Nodup) (ht : TopoL g.preds g.nodes)
    (L : List Node) (m : Node) (hm : m ∈ g.nodes) (hd : isDebug m = true) (hne : (g.predsIn m).isEmpty = false)
    (hp : ∀ p ∈ g.predsIn m, p ∈ debugPass g isDebug g.nodes L) :
    m ∈ debugPass g isDebug g.nodes L := by
  obtain ⟨pre, post, hsplit⟩ := List.append_of_mem hm
  -- the inputs of m stand before m
  have hbefore : ∀ p ∈ g.predsIn m, p ∈ pre := by
    intro p hpp
    have hpm : p ∈ g.preds m ∧ p ∈ g.nodes := by
      simp only [G.predsIn, List.mem_filter, List.contains_eq_mem, decide_eq_true_eq] at hpp; exact hpp
    exact ht pre m post hsplit p hpm.1 hpm.2
  -- so they are not in (m :: post)
  have hnotlater : ∀ p ∈ g.predsIn m, p ∉ m :: post := by
    intro p hpp hin
    have hpre := hbefore p hpp
    rw [hsplit] at hnd
    have := (List.nodup_append.mp hnd).2.2 p hpre p hin
    exact this rfl
  -- split the pass at m
  have hpass : debugPass g isDebug g.nodes L = debugPass g isDebug (m :: post) (debugPass g isDebug pre L) := by
    rw [hsplit]; exact debugPass_append g isDebug pre (m :: post) L
  have hin : ∀ p ∈ g.predsIn m, p ∈ debugPass g isDebug pre L := by
    intro p hpp
    have h1 := hp p hpp
    rw [hpass] at h1
    rcases debugPass_mem g isDebug (m :: post) _ p h1 with h | h
    · exact h
    · exact absurd h (hnotlater p hpp)
  rw [hpass]
  exact debugPass_complete g isDebug m hd hne (m :: post) _ (by simp) hin

end GM
