import GM.Debug
/-! Executable sub-graph selection (what the driver runs) and its specification: the function the
    correspondence check compares with `DiGraphEx.make_subgraph` *is* the documented closure (C12). -/
namespace GM

/-- `b` is a strict descendant of `a` (decided by the one-pass closure) -/
def reachB (g : G) (a b : Node) : Bool := (descAll g a).contains b

/-- step 1: the roots and everything depending on them (`none` = no restriction) -/
def s1 (g : G) (R : Option (List Node)) (x : Node) : Bool :=
  g.nodes.contains x && (match R with
    | none => true
    | some R => R.contains x || R.any (fun r => reachB g r x))

/-- step 2, computed in the graph left by step 1 -/
def dX (g1 : G) (X : Option (List Node)) (x : Node) : Bool :=
  match X with
  | none => false
  | some X => X.contains x || X.any (fun q => reachB g1 q x)

/-- step 3, computed in the graph left by step 2 -/
def s3 (g2 : G) (T : Option (List Node)) (x : Node) : Bool :=
  match T with
  | none => true
  | some T => T.contains x || T.any (fun t => reachB g2 x t)

def g1Of (g : G) (R : Option (List Node)) : G := induced g (s1 g R)
def g2Of (g : G) (R X : Option (List Node)) : G :=
  induced g (fun y => s1 g R y && !dX (g1Of g R) X y)

/-- the node set `make_subgraph(target_nodes=T, exclude_nodes=X, root_nodes=R)` is left with -/
def selectNodes (g : G) (R X T : Option (List Node)) : List Node :=
  (g2Of g R X).nodes.filter (s3 (g2Of g R X) T)

/-- roots of a graph: nodes none of whose predecessors is in the graph -/
def isRootB (g : G) (x : Node) : Bool := g.nodes.contains x && (g.preds x).all (fun p => !g.nodes.contains p)

inductive SelErr where | notRoot | targetMissing | excludeMissing deriving DecidableEq, Repr

/-- selection with the code's validation: a non-root in `R` and a target that is not in the graph
    after the exclusion are `ValueError`s; an excluded node outside the `R`-part is a caller error
    (networkx raises) which the property leaves out of scope. -/
def selectChecked (g : G) (R X T : Option (List Node)) : Except SelErr (List Node) :=
  if (match R with | none => false | some R => !R.all (isRootB g)) then .error .notRoot
  else if (match X with | none => false | some X => !X.all ((g1Of g R).nodes.contains ·)) then .error .excludeMissing
  else if (match T with | none => false | some T => !T.all ((g2Of g R X).nodes.contains ·)) then .error .targetMissing
  else .ok (selectNodes g R X T)

/-! ### specification -/

theorem split_unique {m : Node} : ∀ (l1 l2 l1' l2' : List Node), (l1 ++ m :: l2).Nodup →
    l1 ++ m :: l2 = l1' ++ m :: l2' → l1 = l1' ∧ l2 = l2' := by
  intro l1
  induction l1 with
  | nil =>
    intro l2 l1' l2' hnd h
    cases l1' with
    | nil => simp at h; exact ⟨rfl, h⟩
    | cons c cs =>
      simp at h
      obtain ⟨rfl, h2⟩ := h
      have : m ∈ l2 := by rw [h2]; simp
      simp at hnd; exact absurd this hnd.1
  | cons a l1t ih =>
    intro l2 l1' l2' hnd h
    cases l1' with
    | nil =>
      simp at h
      obtain ⟨rfl, _⟩ := h
      simp at hnd
    | cons c cs =>
      simp at h
      obtain ⟨rfl, h2⟩ := h
      have hnd' : (l1t ++ m :: l2).Nodup := (List.nodup_cons.mp hnd).2
      obtain ⟨e1, e2⟩ := ih l2 cs l2' hnd' h2
      exact ⟨by rw [e1], e2⟩

theorem topoL_induced {g : G} {S : Node → Bool} (hnd : g.nodes.Nodup) (ht : TopoL g.preds g.nodes) :
    TopoL (induced g S).preds (induced g S).nodes := by
  intro done m rest hs p hp hpn
  simp only [induced] at hs hp hpn
  have hm : m ∈ g.nodes.filter S := by rw [hs]; simp
  have hmS := (List.mem_filter.mp hm)
  obtain ⟨a, b, hab⟩ := List.append_of_mem hmS.1
  have hpa : p ∈ a := ht a m b hab p hp (List.mem_filter.mp hpn).1
  have hpf : p ∈ a.filter S := List.mem_filter.mpr ⟨hpa, (List.mem_filter.mp hpn).2⟩
  have hf : g.nodes.filter S = a.filter S ++ m :: b.filter S := by
    rw [hab, List.filter_append, List.filter_cons]; simp [hmS.2]
  have hndf : (a.filter S ++ m :: b.filter S).Nodup := by rw [← hf]; exact hnd.filter _
  have := split_unique _ _ _ _ hndf (hf.symm.trans hs)
  rw [← this.1]; exact hpf

theorem nodup_induced {g : G} {S : Node → Bool} (hnd : g.nodes.Nodup) : (induced g S).nodes.Nodup :=
  hnd.filter _

theorem reachB_iff {g : G} (hnd : g.nodes.Nodup) (ht : TopoL g.preds g.nodes) {a b : Node} (ha : a ∈ g.nodes) :
    reachB g a b = true ↔ Reach g a b := by
  have _ := hnd
  simp only [reachB, List.contains_eq_mem, decide_eq_true_eq]
  exact mem_descAll_iff g a ha ht b

/-- **the executable selection is the documented closure** (all three arguments given; an absent
    argument is the same statement with that conjunct dropped, see `selectNodes_none`). -/
theorem selectNodes_spec (g : G) (hnd : g.nodes.Nodup) (ht : TopoL g.preds g.nodes) (R X T : List Node)
    (hR : ∀ r ∈ R, r ∈ g.nodes)
    (hX : ∀ q ∈ X, q ∈ (g1Of g (some R)).nodes)
    (hT : ∀ t ∈ T, t ∈ (g2Of g (some R) (some X)).nodes) (x : Node) :
    x ∈ selectNodes g (some R) (some X) (some T) ↔
      (inR g R x ∧ ¬ (x ∈ X ∨ ∃ q ∈ X, Reach g q x) ∧ (x ∈ T ∨ ∃ t ∈ T, Reach g x t)) := by
  have hS1 : ∀ y, s1 g (some R) y = true ↔ inR g R y := by
    intro y
    simp only [s1, inR, Bool.and_eq_true, List.contains_eq_mem, decide_eq_true_eq, Bool.or_eq_true,
      List.any_eq_true]
    constructor
    · rintro ⟨hy, h | ⟨r, hr, hry⟩⟩
      · exact ⟨hy, Or.inl h⟩
      · exact ⟨hy, Or.inr ⟨r, hr, (reachB_iff hnd ht (hR r hr)).1 hry⟩⟩
    · rintro ⟨hy, h | ⟨r, hr, hry⟩⟩
      · exact ⟨hy, Or.inl h⟩
      · exact ⟨hy, Or.inr ⟨r, hr, (reachB_iff hnd ht (hR r hr)).2 hry⟩⟩
  have hnd1 : (g1Of g (some R)).nodes.Nodup := nodup_induced hnd
  have ht1 : TopoL (g1Of g (some R)).preds (g1Of g (some R)).nodes := topoL_induced hnd ht
  have hD : ∀ y, dX (g1Of g (some R)) (some X) y = true ↔ inX (induced g (s1 g (some R))) X y := by
    intro y
    simp only [dX, inX, Bool.or_eq_true, List.contains_eq_mem, decide_eq_true_eq, List.any_eq_true]
    constructor
    · rintro (h | ⟨q, hq, hqy⟩)
      · exact Or.inl h
      · exact Or.inr ⟨q, hq, (reachB_iff hnd1 ht1 (hX q hq)).1 hqy⟩
    · rintro (h | ⟨q, hq, hqy⟩)
      · exact Or.inl h
      · exact Or.inr ⟨q, hq, (reachB_iff hnd1 ht1 (hX q hq)).2 hqy⟩
  have hXin : ∀ q ∈ X, s1 g (some R) q = true := fun q hq => (mem_induced.1 (hX q hq)).2
  have hTin : ∀ t ∈ T, s1 g (some R) t = true ∧ dX (g1Of g (some R)) (some X) t = false := by
    intro t htT
    have := (mem_induced.1 (hT t htT)).2
    simpa using this
  rw [← C12_closure g R X T (s1 g (some R)) (dX (g1Of g (some R)) (some X)) hS1 hD hXin hTin x]
  have hnd2 : (g2Of g (some R) (some X)).nodes.Nodup := nodup_induced hnd
  have ht2 : TopoL (g2Of g (some R) (some X)).preds (g2Of g (some R) (some X)).nodes := topoL_induced hnd ht
  simp only [selectNodes, List.mem_filter, inT]
  show x ∈ (g2Of g (some R) (some X)).nodes ∧ s3 (g2Of g (some R) (some X)) (some T) x = true ↔
    x ∈ (g2Of g (some R) (some X)).nodes ∧ (x ∈ T ∨ ∃ t ∈ T, Reach (g2Of g (some R) (some X)) x t)
  constructor
  · rintro ⟨hx, h⟩
    refine ⟨hx, ?_⟩
    simp only [s3, Bool.or_eq_true, List.contains_eq_mem, decide_eq_true_eq, List.any_eq_true] at h
    rcases h with h | ⟨t, htT, hxt⟩
    · exact Or.inl h
    · exact Or.inr ⟨t, htT, (reachB_iff hnd2 ht2 hx).1 hxt⟩
  · rintro ⟨hx, h⟩
    refine ⟨hx, ?_⟩
    simp only [s3, Bool.or_eq_true, List.contains_eq_mem, decide_eq_true_eq, List.any_eq_true]
    rcases h with h | ⟨t, htT, hxt⟩
    · exact Or.inl h
    · exact Or.inr ⟨t, htT, (reachB_iff hnd2 ht2 hx).2 hxt⟩

/-- absent arguments impose no restriction -/
theorem selectNodes_none (g : G) (x : Node) : x ∈ selectNodes g none none none ↔ x ∈ g.nodes := by
  simp [selectNodes, g2Of, g1Of, s1, dX, s3, induced]

theorem g2Of_none (g : G) : g2Of g none none = g := by
  have h : g.nodes.filter (fun y => s1 g none y && !dX (g1Of g none) none y) = g.nodes := by
    apply List.filter_eq_self.mpr
    intro a ha
    simp [s1, dX, ha]
  cases g with
  | mk nodes preds =>
    simp only [g2Of, induced] at h ⊢
    rw [h]

/-- targets only (`executor(target_nodes=T)`, `setup(target_nodes=T)`): the targets and their ancestors -/
theorem selectNodes_targets (g : G) (hnd : g.nodes.Nodup) (ht : TopoL g.preds g.nodes) (T : List Node) (x : Node) :
    x ∈ selectNodes g none none (some T) ↔ x ∈ g.nodes ∧ (x ∈ T ∨ ∃ t ∈ T, Reach g x t) := by
  simp only [selectNodes, g2Of_none, List.mem_filter]
  constructor
  · rintro ⟨hx, h⟩
    refine ⟨hx, ?_⟩
    simp only [s3, Bool.or_eq_true, List.contains_eq_mem, decide_eq_true_eq, List.any_eq_true] at h
    rcases h with h | ⟨t, htT, hxt⟩
    · exact Or.inl h
    · exact Or.inr ⟨t, htT, (reachB_iff hnd ht hx).1 hxt⟩
  · rintro ⟨hx, h⟩
    refine ⟨hx, ?_⟩
    simp only [s3, Bool.or_eq_true, List.contains_eq_mem, decide_eq_true_eq, List.any_eq_true]
    rcases h with h | ⟨t, htT, hxt⟩
    · exact Or.inl h
    · exact Or.inr ⟨t, htT, (reachB_iff hnd ht hx).2 hxt⟩

/-! ### empty lists are selections too (of nothing), not "no restriction" -/

/-- `root_nodes=[]`: no root at all — nothing is selected, whatever the exclusions and targets -/
theorem selectNodes_empty_roots (g : G) (X T : Option (List Node)) : selectNodes g (some []) X T = [] := by
  have h1 : ∀ y, s1 g (some []) y = false := by intro y; simp [s1]
  have hg2 : (g2Of g (some []) X).nodes = [] := by
    simp only [g2Of, induced]
    apply List.filter_eq_nil_iff.mpr
    intro a _
    simp [h1 a]
  simp [selectNodes, hg2]

/-- ... and a target next to an empty root list is outside the selection: refused, as any target that is not selected -/
theorem selectChecked_empty_roots_target (g : G) (X : Option (List Node)) (t : Node) (T : List Node)
    (hX : match X with | none => True | some X => X = []) :
    selectChecked g (some []) X (some (t :: T)) = .error .targetMissing := by
  have h1 : ∀ y, s1 g (some []) y = false := by intro y; simp [s1]
  have hg2 : (g2Of g (some []) X).nodes = [] := by
    simp only [g2Of, induced]
    apply List.filter_eq_nil_iff.mpr
    intro a _
    simp [h1 a]
  unfold selectChecked
  cases X with
  | none => simp [isRootB, hg2]
  | some X => simp only at hX; subst hX; simp [isRootB, hg2]

/-- `target_nodes=[]`: nothing is selected -/
theorem selectNodes_empty_targets (g : G) (R X : Option (List Node)) : selectNodes g R X (some []) = [] := by
  simp [selectNodes, s3]

/-- `exclude_nodes=[]` excludes nothing: the same selection as without the argument -/
theorem selectNodes_empty_exclusions (g : G) (R T : Option (List Node)) :
    selectNodes g R (some []) T = selectNodes g R none T := by
  have h : g2Of g R (some []) = g2Of g R none := by
    simp [g2Of, dX]
  simp [selectNodes, h]

/-! ### naming a node several times names it once -/

theorem contains_or_any_dup {α : Type} [BEq α] [LawfulBEq α] (r : α) (R : List α) (hr : r ∈ R) (f : α → Bool) (x : α) :
    ((r :: R).contains x || (r :: R).any f) = (R.contains x || R.any f) := by
  have h1 : (r :: R).contains x = R.contains x := by
    simp only [List.contains_cons]
    by_cases hx : x = r
    · subst hx; simp [hr]
    · have : (x == r) = false := by simpa using hx
      simp [this]
  have h2 : (r :: R).any f = R.any f := by
    simp only [List.any_cons]
    cases hf : f r with
    | false => simp
    | true =>
      have : R.any f = true := List.any_eq_true.mpr ⟨r, hr, hf⟩
      simp [this]
  rw [h1, h2]

/-- a root / an excluded node / a target named twice (or through two aliases that resolve to the same node) changes nothing -/
theorem selectNodes_repeated_names (g : G) (r : Node) (R X T : List Node) (hR : r ∈ R) :
    selectNodes g (some (r :: R)) none none = selectNodes g (some R) none none ∧
    (∀ x, x ∈ X → selectNodes g none (some (x :: X)) none = selectNodes g none (some X) none) ∧
    (∀ t, t ∈ T → selectNodes g none none (some (t :: T)) = selectNodes g none none (some T)) := by
  refine ⟨?_, ?_, ?_⟩
  · have hs1 : s1 g (some (r :: R)) = s1 g (some R) := by
      funext y
      simp only [s1]
      rw [contains_or_any_dup r R hR (fun q => reachB g q y) y]
    simp only [selectNodes, g2Of, g1Of, hs1]
  · intro x hx
    have hd : ∀ g1, dX g1 (some (x :: X)) = dX g1 (some X) := by
      intro g1; funext y
      simp only [dX]
      rw [contains_or_any_dup x X hx (fun q => reachB g1 q y) y]
    simp only [selectNodes, g2Of, hd]
  · intro t ht
    have h3 : ∀ g2, s3 g2 (some (t :: T)) = s3 g2 (some T) := by
      intro g2; funext y
      simp only [s3]
      rw [contains_or_any_dup t T ht (fun q => reachB g2 y q) y]
    simp only [selectNodes, h3]

end GM
