import GM.Alias
import GM.CP
/-! `config_from_dict / _yaml / _json` (`BaseDAG._expand_config`, `detect_duplicates`, `ExecNode._conf_to_values`):
    reconfiguration of node attributes after a DAG was built.

    A configuration is a list of entries `alias ↦ {priority?, is_sequential?}`.  Every alias is expanded to the
    nodes it denotes (tag first, then id — `GM.resolveAlias`); a node addressed twice makes the whole
    configuration ambiguous (refused, nothing changes); otherwise every addressed node gets the attributes its
    entry STATES and keeps the others, every other node keeps everything, and the compound priorities are those
    of the new priorities.  Decision logic stated outright, and its laws. -/
namespace GM

structure Entry where
  alias : Alias
  prio  : Option Int
  seq   : Option Bool

structure Attr where
  prio : Node → Int
  seq  : Node → Bool

inductive CfgErr where
  | unknownAlias
  | ambiguous
deriving DecidableEq, Repr

/-- `_expand_config`: (node, entry) pairs in the order of the entries -/
def expand (nm : Naming) : List Entry → Option (List (Node × Entry))
  | [] => some []
  | e :: rest => do
    let ns ← resolveAlias nm e.alias
    let xs ← expand nm rest
    pure (ns.map (fun n => (n, e)) ++ xs)

/-- `detect_duplicates` -/
def hasDup : List Node → Bool
  | [] => false
  | x :: xs => xs.contains x || hasDup xs

/-- `_conf_to_values`: stated attributes replace, unstated ones are kept -/
def setNode (a : Attr) (n : Node) (e : Entry) : Attr :=
  { prio := fun x => if x = n then e.prio.getD (a.prio x) else a.prio x,
    seq  := fun x => if x = n then e.seq.getD (a.seq x) else a.seq x }

def applyPairs (a : Attr) : List (Node × Entry) → Attr
  | [] => a
  | (n, e) :: rest => applyPairs (setNode a n e) rest

def applyConfig (nm : Naming) (a : Attr) (es : List Entry) : Except CfgErr Attr :=
  match expand nm es with
  | none => .error .unknownAlias
  | some ps => if hasDup (ps.map (·.1)) then .error .ambiguous else .ok (applyPairs a ps)

/-! ### laws -/

theorem hasDup_false_iff (l : List Node) : hasDup l = false ↔ l.Nodup := by
  induction l with
  | nil => simp [hasDup]
  | cons x xs ih => simp [hasDup, ih, List.nodup_cons]

/-- a node that no pair addresses keeps everything -/
theorem applyPairs_untouched (ps : List (Node × Entry)) : ∀ (a : Attr) (x : Node), (∀ p ∈ ps, p.1 ≠ x) →
    (applyPairs a ps).prio x = a.prio x ∧ (applyPairs a ps).seq x = a.seq x := by
  induction ps with
  | nil => intro a x _; exact ⟨rfl, rfl⟩
  | cons p rest ih =>
    intro a x h
    obtain ⟨n, e⟩ := p
    have hn : n ≠ x := h (n, e) (by simp)
    have := ih (setNode a n e) x (fun q hq => h q (by simp [hq]))
    simp only [applyPairs]
    rw [this.1, this.2]
    simp [setNode, Ne.symm hn]

/-- a node addressed by exactly one pair gets what that entry states and keeps what it does not state -/
theorem applyPairs_addressed (ps : List (Node × Entry)) : ∀ (a : Attr) (n : Node) (e : Entry),
    (n, e) ∈ ps → (ps.map (·.1)).Nodup →
    (applyPairs a ps).prio n = e.prio.getD (a.prio n) ∧ (applyPairs a ps).seq n = e.seq.getD (a.seq n) := by
  induction ps with
  | nil => intro a n e h; simp at h
  | cons p rest ih =>
    intro a n e hmem hnd
    obtain ⟨m, f⟩ := p
    simp only [List.map_cons, List.nodup_cons] at hnd
    simp only [List.mem_cons] at hmem
    rcases hmem with h | h
    · -- this pair: nothing later touches n
      injection h with h1 h2
      subst h1; subst h2
      have hun := applyPairs_untouched rest (setNode a n e) n (by
        intro q hq hqe
        exact hnd.1 (by rw [← hqe]; exact List.mem_map_of_mem (f := (·.1)) hq))
      simp only [applyPairs]
      rw [hun.1, hun.2]
      simp [setNode]
    · -- a later pair: this one addresses another node
      have hmn : m ≠ n := by
        intro hmn; subst hmn
        exact hnd.1 (List.mem_map_of_mem (f := (·.1)) h)
      have := ih (setNode a m f) n e h hnd.2
      simp only [applyPairs]
      rw [this.1, this.2]
      simp [setNode, Ne.symm hmn]

theorem mem_expand (nm : Naming) : ∀ (es : List Entry) (ps : List (Node × Entry)), expand nm es = some ps →
    ∀ n e, (n, e) ∈ ps ↔ (e ∈ es ∧ ∃ ns, resolveAlias nm e.alias = some ns ∧ n ∈ ns) := by
  intro es
  induction es with
  | nil => intro ps h n e; simp [expand] at h; subst h; simp
  | cons e0 rest ih =>
    intro ps h n e
    simp only [expand] at h
    cases hr : resolveAlias nm e0.alias with
    | none => simp [hr] at h
    | some ns =>
      cases hx : expand nm rest with
      | none => simp [hr, hx] at h
      | some xs =>
        simp [hr, hx] at h
        subst h
        simp only [List.mem_append, List.mem_map, List.mem_cons]
        constructor
        · rintro (⟨m, hm, hme⟩ | h2)
          · injection hme with h1 h2; subst h1; subst h2
            exact ⟨Or.inl rfl, ns, hr, hm⟩
          · have := (ih xs hx n e).mp h2
            exact ⟨Or.inr this.1, this.2⟩
        · rintro ⟨he | he, ns', hns', hn⟩
          · subst he; rw [hr] at hns'; injection hns' with hns'; subst hns'
            exact Or.inl ⟨n, hn, rfl⟩
          · exact Or.inr ((ih xs hx n e).mpr ⟨he, ns', hns', hn⟩)

/-- **configuration law**: an accepted configuration gives every node addressed by an entry exactly the attributes
    the entry states (keeping the unstated ones) and leaves every other node as it was. -/
theorem applyConfig_spec (nm : Naming) (a a' : Attr) (es : List Entry) (h : applyConfig nm a es = .ok a') :
    (∀ n e, e ∈ es → (∃ ns, resolveAlias nm e.alias = some ns ∧ n ∈ ns) →
        a'.prio n = e.prio.getD (a.prio n) ∧ a'.seq n = e.seq.getD (a.seq n)) ∧
    (∀ x, (∀ e ∈ es, ∀ ns, resolveAlias nm e.alias = some ns → x ∉ ns) → a'.prio x = a.prio x ∧ a'.seq x = a.seq x) := by
  unfold applyConfig at h
  cases hx : expand nm es with
  | none => simp [hx] at h
  | some ps =>
    simp only [hx] at h
    by_cases hd : hasDup (ps.map (·.1)) = true
    · simp [hd] at h
    · simp only [hd, Bool.false_eq_true, if_false] at h
      injection h with h; subst h
      have hnd : (ps.map (·.1)).Nodup := (hasDup_false_iff _).mp (by simpa using hd)
      refine ⟨?_, ?_⟩
      · intro n e he hres
        exact applyPairs_addressed ps a n e ((mem_expand nm es ps hx n e).mpr ⟨he, hres⟩) hnd
      · intro x hxn
        apply applyPairs_untouched
        intro p hp hpx
        obtain ⟨m, f⟩ := p
        have := (mem_expand nm es ps hx m f).mp hp
        obtain ⟨hf, ns, hns, hm⟩ := this
        exact hxn f hf ns hns (by rw [← hpx]; exact hm)

/-- an ambiguous configuration (some node addressed twice — by two entries, or by a tag and an id) and one with an
    unknown alias are refused -/
theorem applyConfig_refused_iff (nm : Naming) (a : Attr) (es : List Entry) :
    (∃ err, applyConfig nm a es = .error err) ↔
      (expand nm es = none ∨ ∃ ps, expand nm es = some ps ∧ ¬ (ps.map (·.1)).Nodup) := by
  unfold applyConfig
  cases hx : expand nm es with
  | none => simp
  | some ps =>
    by_cases hd : hasDup (ps.map (·.1)) = true
    · have : ¬ (ps.map (·.1)).Nodup := fun h => by
        have := (hasDup_false_iff _).mpr h; rw [this] at hd; cases hd
      simp [hd, this]
    · have : (ps.map (·.1)).Nodup := (hasDup_false_iff _).mp (by simpa using hd)
      simp [hd, this]

/-- applying an accepted configuration a second time changes nothing more (the same dict given again) -/
theorem applyConfig_idempotent (nm : Naming) (a a' : Attr) (es : List Entry) (h : applyConfig nm a es = .ok a') :
    ∃ a'', applyConfig nm a' es = .ok a'' ∧ (∀ x, a''.prio x = a'.prio x ∧ a''.seq x = a'.seq x) := by
  have h0 := h
  unfold applyConfig at h ⊢
  cases hx : expand nm es with
  | none => simp [hx] at h
  | some ps =>
    simp only [hx] at h ⊢
    by_cases hd : hasDup (ps.map (·.1)) = true
    · simp [hd] at h
    · simp only [hd, Bool.false_eq_true, if_false] at h ⊢
      injection h with h; subst h
      have hnd : (ps.map (·.1)).Nodup := (hasDup_false_iff _).mp (by simpa using hd)
      refine ⟨_, rfl, ?_⟩
      intro x
      by_cases hax : ∃ e, (x, e) ∈ ps
      · obtain ⟨e, he⟩ := hax
        have h1 := applyPairs_addressed ps a x e he hnd
        have h2 := applyPairs_addressed ps (applyPairs a ps) x e he hnd
        rw [h2.1, h2.2, h1.1, h1.2]
        constructor
        · cases e.prio <;> simp
        · cases e.seq <;> simp
      · have hun : ∀ p ∈ ps, p.1 ≠ x := by
          intro p hp hpx
          exact hax ⟨p.2, by rw [← hpx]; exact hp⟩
        exact applyPairs_untouched ps (applyPairs a ps) x hun

/-- a configuration none of whose entries states a priority (only sequential flags, say) leaves every priority — hence
    every compound priority — as it was -/
theorem applyConfig_no_priority_stated (nm : Naming) (a a' : Attr) (es : List Entry) (h : applyConfig nm a es = .ok a')
    (hnone : ∀ e ∈ es, e.prio = none) : ∀ x, a'.prio x = a.prio x := by
  obtain ⟨haddr, hother⟩ := applyConfig_spec nm a a' es h
  intro x
  by_cases hx : ∃ e ∈ es, ∃ ns, resolveAlias nm e.alias = some ns ∧ x ∈ ns
  · obtain ⟨e, he, ns, hns, hxn⟩ := hx
    have := (haddr x e he ⟨ns, hns, hxn⟩).1
    rw [this, hnone e he]; rfl
  · apply (hother x ?_).1
    intro e he ns hns hxn
    exact hx ⟨e, he, ns, hns, hxn⟩

theorem applyConfig_no_priority_stated_cp (g : G) (nm : Naming) (a a' : Attr) (es : List Entry)
    (h : applyConfig nm a es = .ok a') (hnone : ∀ e ∈ es, e.prio = none) (x : Node) :
    cpAll g a'.prio x = cpAll g a.prio x := by
  have : a'.prio = a.prio := funext (applyConfig_no_priority_stated nm a a' es h hnone)
  rw [this]

/-! ### malformed entries, and what a refusal leaves behind

    A configuration as the user WRITES it may hold entries that are not well formed (a priority that is not an int, an
    entry that is not a mapping — an empty YAML entry).  Aliases and ambiguity are checked first (`_expand_config`,
    `detect_duplicates`), then every entry is validated, and only then is anything applied: `reconfigure` is the DAG's
    attribute state after `config_from_dict` RETURNED OR RAISED.  A refused configuration — whatever the reason, wherever
    the offending entry stands — leaves the attributes, hence the compound priorities, exactly as they were. -/

structure RawEntry where
  entry : Entry
  wellFormed : Bool

inductive RawErr where
  | cfg (e : CfgErr)
  | malformed
deriving DecidableEq, Repr

def applyRaw (nm : Naming) (a : Attr) (res : List RawEntry) : Except RawErr Attr :=
  match applyConfig nm a (res.map (·.entry)) with
  | .error e => .error (.cfg e)
  | .ok a' => if res.all (·.wellFormed) then .ok a' else .error .malformed

/-- the attribute state after the call, accepted or refused -/
def reconfigure (nm : Naming) (a : Attr) (res : List RawEntry) : Attr :=
  match applyRaw nm a res with
  | .ok a' => a'
  | .error _ => a

theorem applyRaw_ok_iff (nm : Naming) (a a' : Attr) (res : List RawEntry) :
    applyRaw nm a res = .ok a' ↔ (applyConfig nm a (res.map (·.entry)) = .ok a' ∧ ∀ r ∈ res, r.wellFormed = true) := by
  unfold applyRaw
  cases h : applyConfig nm a (res.map (·.entry)) with
  | error e => simp
  | ok b =>
    by_cases hw : res.all (·.wellFormed) = true
    · simp only [hw, if_true]
      constructor
      · intro e; injection e with e; subst e; exact ⟨rfl, fun r hr => List.all_eq_true.mp hw r hr⟩
      · intro ⟨e, _⟩; injection e with e; subst e; rfl
    · simp only [hw, if_false, Bool.false_eq_true]
      constructor
      · intro e; cases e
      · intro ⟨_, hall⟩; exact absurd (List.all_eq_true.mpr hall) hw

/-- one malformed entry anywhere refuses the whole configuration -/
theorem applyRaw_malformed_refused (nm : Naming) (a : Attr) (res : List RawEntry) (r : RawEntry) (hr : r ∈ res)
    (hbad : r.wellFormed = false) : ∃ e, applyRaw nm a res = .error e := by
  cases h : applyRaw nm a res with
  | error e => exact ⟨e, rfl⟩
  | ok a' =>
    have := ((applyRaw_ok_iff nm a a' res).mp h).2 r hr
    rw [hbad] at this; cases this

/-- **a refused configuration changes nothing**: neither an attribute of any node nor — the compound priorities being a
    function of the priorities — any compound priority. -/
theorem reconfigure_refused (nm : Naming) (a : Attr) (res : List RawEntry) (e : RawErr) (h : applyRaw nm a res = .error e) :
    reconfigure nm a res = a := by
  unfold reconfigure; rw [h]

theorem reconfigure_refused_cp (g : G) (nm : Naming) (a : Attr) (res : List RawEntry) (e : RawErr)
    (h : applyRaw nm a res = .error e) (x : Node) :
    cpAll g (reconfigure nm a res).prio x = cpAll g a.prio x := by
  rw [reconfigure_refused nm a res e h]

/-- an accepted configuration is the well-formed law of `applyConfig_spec` -/
theorem reconfigure_accepted (nm : Naming) (a a' : Attr) (res : List RawEntry) (h : applyRaw nm a res = .ok a') :
    reconfigure nm a res = a' ∧ applyConfig nm a (res.map (·.entry)) = .ok a' := by
  refine ⟨by unfold reconfigure; rw [h], ((applyRaw_ok_iff nm a a' res).mp h).1⟩

/-- giving the configuration again after dropping its malformed entries: it is decided from the UNTOUCHED state, exactly
    as if the refused attempt had never been made -/
theorem retry_after_refusal (nm : Naming) (a : Attr) (res : List RawEntry) (e : RawErr) (h : applyRaw nm a res = .error e)
    (res' : List RawEntry) :
    applyRaw nm (reconfigure nm a res) res' = applyRaw nm a res' := by
  rw [reconfigure_refused nm a res e h]

end GM
