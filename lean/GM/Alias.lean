import GM.SelectExec
/-! Alias resolution (`BaseDAG.alias_to_ids`, `get_multiple_nodes_aliases`): how the node subsets R, X, T of
    a selection (and the inputs / outputs of `compose`) are named.  An alias is a node object, or a
    string / tuple that is looked up first as a TAG (every node carrying it) and only then as a node id.
    Decision logic stated outright; the driver resolves the aliases of every generated selection with
    `resolveAll` and the result is compared with what the real executor selected. -/
namespace GM

inductive Alias where
  | ref (n : Node)            -- an ExecNode object of this DAG (by index)
  | foreign                   -- an ExecNode object that does not belong to this DAG
  | name (s : String)         -- a string: tag first, then id
deriving Repr, DecidableEq

structure Naming where
  n      : Nat                       -- nodes are 0 … n-1 (recording order)
  idOf   : Node → String
  tagsOf : Node → List String        -- a tuple tag contributes each of its elements

def Naming.tagged (nm : Naming) (a : String) : List Node :=
  (List.range nm.n).filter fun i => (nm.tagsOf i).contains a

def Naming.byId (nm : Naming) (a : String) : Option Node :=
  (List.range nm.n).find? fun i => nm.idOf i == a

/-- `alias_to_ids`; `none` = ValueError -/
def resolveAlias (nm : Naming) : Alias → Option (List Node)
  | .ref i => if i < nm.n then some [i] else none
  | .foreign => none
  | .name a =>
    if nm.tagged a ≠ [] then some (nm.tagged a)
    else match nm.byId a with
      | some i => some [i]
      | none => none

/-- `get_multiple_nodes_aliases`: concatenation, any unknown alias fails the whole selection -/
def resolveAll (nm : Naming) : List Alias → Option (List Node)
  | [] => some []
  | a :: rest => do
    let x ← resolveAlias nm a
    let xs ← resolveAll nm rest
    pure (x ++ xs)

/-! ### the documented behaviour -/

/-- a string that is some node's tag denotes EXACTLY the nodes carrying that tag — even when it is also
    the id of another node (tags win) -/
theorem resolve_tag_wins (nm : Naming) (a : String) (i : Node) (hi : i < nm.n) (ht : a ∈ nm.tagsOf i) :
    resolveAlias nm (.name a) = some (nm.tagged a) ∧
    ∀ x, x ∈ nm.tagged a ↔ (x < nm.n ∧ a ∈ nm.tagsOf x) := by
  have hmem : ∀ x, x ∈ nm.tagged a ↔ (x < nm.n ∧ a ∈ nm.tagsOf x) := by
    intro x
    simp [Naming.tagged, List.mem_filter, List.mem_range]
  have hne : nm.tagged a ≠ [] := by
    intro h
    have : i ∈ nm.tagged a := (hmem i).mpr ⟨hi, ht⟩
    rw [h] at this; simp at this
  exact ⟨by simp [resolveAlias, hne], hmem⟩

/-- a string that is nobody's tag and is the id of node `i` (ids are unique) denotes exactly `[i]` -/
theorem resolve_id (nm : Naming) (a : String) (i : Node) (hi : i < nm.n) (hid : nm.idOf i = a)
    (huniq : ∀ j, j < nm.n → nm.idOf j = a → j = i) (hnotag : ∀ j, j < nm.n → a ∉ nm.tagsOf j) :
    resolveAlias nm (.name a) = some [i] := by
  have hnil : nm.tagged a = [] := by
    simp only [Naming.tagged, List.filter_eq_nil_iff, List.mem_range]
    intro j hj
    have := hnotag j hj
    simpa using this
  have hfind : nm.byId a = some i := by
    have hsome : (nm.byId a).isSome := by
      unfold Naming.byId
      rw [List.find?_isSome]
      exact ⟨i, by simp [List.mem_range, hi], by simp [hid]⟩
    obtain ⟨j, hj⟩ := Option.isSome_iff_exists.mp hsome
    have hj0 : (List.range nm.n).find? (fun i => nm.idOf i == a) = some j := hj
    have hjm : j < nm.n := by simpa [List.mem_range] using List.mem_of_find?_eq_some hj0
    have hjp : nm.idOf j = a := by simpa using List.find?_some hj0
    rw [hj, huniq j hjm hjp]
  simp [resolveAlias, hnil, hfind]

/-- an unknown string, a foreign node object: the selection is refused (ValueError) -/
theorem resolve_unknown (nm : Naming) (a : String) (hnotag : ∀ j, j < nm.n → a ∉ nm.tagsOf j)
    (hnoid : ∀ j, j < nm.n → nm.idOf j ≠ a) : resolveAlias nm (.name a) = none := by
  have hnil : nm.tagged a = [] := by
    simp only [Naming.tagged, List.filter_eq_nil_iff, List.mem_range]
    intro j hj
    simpa using hnotag j hj
  have hfind : nm.byId a = none := by
    unfold Naming.byId
    rw [List.find?_eq_none]
    intro j hj
    have hj' : j < nm.n := by simpa [List.mem_range] using hj
    simpa using hnoid j hj'
  simp [resolveAlias, hnil, hfind]

/-- everything a resolved alias denotes is a node of the DAG -/
theorem resolveAlias_in_range (nm : Naming) (al : Alias) (l : List Node) (h : resolveAlias nm al = some l) :
    ∀ x ∈ l, x < nm.n := by
  cases al with
  | ref i =>
    simp only [resolveAlias] at h
    split at h
    · injection h with h; subst h; intro x hx; simp at hx; subst hx; assumption
    · cases h
  | foreign => simp [resolveAlias] at h
  | name a =>
    simp only [resolveAlias] at h
    split at h
    · injection h with h; subst h
      intro x hx
      have := (List.mem_filter.mp hx).1
      simpa [List.mem_range] using this
    · split at h
      · rename_i i hfi
        injection h with h; subst h
        intro x hx; simp at hx; subst hx
        have := List.mem_of_find?_eq_some hfi
        simpa [List.mem_range] using this
      · cases h

/-- a list of aliases denotes the union of what its members denote; it fails iff one member fails -/
theorem resolveAll_spec (nm : Naming) : ∀ (as : List Alias) (l : List Node), resolveAll nm as = some l →
    ∀ x, x ∈ l ↔ ∃ a ∈ as, ∃ la, resolveAlias nm a = some la ∧ x ∈ la := by
  intro as
  induction as with
  | nil =>
    intro l h x
    simp only [resolveAll] at h
    injection h with h; subst h
    simp
  | cons a rest ih =>
    intro l h x
    simp only [resolveAll] at h
    cases ha : resolveAlias nm a with
    | none => simp [ha] at h
    | some la =>
      cases hr : resolveAll nm rest with
      | none => simp [ha, hr] at h
      | some lr =>
        simp [ha, hr] at h
        subst h
        constructor
        · intro hx
          rcases List.mem_append.mp hx with h1 | h2
          · exact ⟨a, by simp, la, ha, h1⟩
          · obtain ⟨b, hb, lb, hlb, hxb⟩ := (ih lr hr x).mp h2
            exact ⟨b, by simp [hb], lb, hlb, hxb⟩
        · rintro ⟨b, hb, lb, hlb, hxb⟩
          rcases List.mem_cons.mp hb with rfl | hb'
          · rw [ha] at hlb; injection hlb with hlb; subst hlb
            exact List.mem_append.mpr (Or.inl hxb)
          · exact List.mem_append.mpr (Or.inr ((ih lr hr x).mpr ⟨b, hb', lb, hlb, hxb⟩))

theorem resolveAll_none_iff (nm : Naming) : ∀ (as : List Alias),
    resolveAll nm as = none ↔ ∃ a ∈ as, resolveAlias nm a = none := by
  intro as
  induction as with
  | nil => simp [resolveAll]
  | cons a rest ih =>
    simp only [resolveAll]
    cases ha : resolveAlias nm a with
    | none => simp [ha]
    | some la =>
      cases hr : resolveAll nm rest with
      | none =>
        have := ih.mp hr
        obtain ⟨b, hb, hbn⟩ := this
        simp only [Option.bind_eq_bind, Option.bind_some, Option.bind_none, true_iff]
        exact ⟨b, by simp [hb], hbn⟩
      | some lr =>
        simp only [Option.bind_eq_bind, Option.bind_some]
        constructor
        · intro h; cases h
        · rintro ⟨b, hb, hbn⟩
          rcases List.mem_cons.mp hb with rfl | hb'
          · rw [ha] at hbn; cases hbn
          · have := ih.mpr ⟨b, hb', hbn⟩
            rw [hr] at this; cases this

end GM
