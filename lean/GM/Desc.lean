import GM.Graph
/-! Prototype: the one-pass closure computes exactly the reachable nodes (under a topological listing). -/
namespace GM

/-- topological listing, split form: every in-graph predecessor of `m` occurs before `m` -/
def TopoL (preds : Node → List Node) (nodes : List Node) : Prop :=
  ∀ done m rest, nodes = done ++ m :: rest → ∀ p ∈ preds m, p ∈ nodes → p ∈ done

def hits (preds : Node → List Node) (n : Node) (acc : List Node) (m : Node) : Bool :=
  (preds m).any (fun p => p == n || acc.contains p)

theorem descPass_eq (preds : Node → List Node) (n m : Node) (rest acc : List Node) :
    descPass preds n (m :: rest) acc =
      if hits preds n acc m then descPass preds n rest (acc ++ [m]) else descPass preds n rest acc := rfl

/-- all-nodes variant of `desc`: scan the whole list (nodes before `n` can never be hit) -/
def descAll (g : G) (n : Node) : List Node := descPass g.preds n g.nodes []

theorem reach_mem_right {g : G} {a b : Node} (h : Reach g a b) : b ∈ g.nodes := by
  cases h with
  | single e => exact e.2.1
  | tail _ e => exact e.2.1

theorem hits_iff_reach (g : G) (n : Node) (hn : n ∈ g.nodes) (ht : TopoL g.preds g.nodes)
    (done : List Node) (m : Node) (rest acc : List Node) (hsplit : g.nodes = done ++ m :: rest)
    (hacc : ∀ x, x ∈ acc ↔ x ∈ done ∧ Reach g n x) :
    hits g.preds n acc m = true ↔ Reach g n m := by
  have hm : m ∈ g.nodes := by rw [hsplit]; simp
  constructor
  · intro h
    simp only [hits, List.any_eq_true, Bool.or_eq_true, beq_iff_eq, List.contains_eq_mem,
      decide_eq_true_eq] at h
    obtain ⟨p, hp, hpn | hpa⟩ := h
    · subst hpn; exact Reach.single ⟨hn, hm, hp⟩
    · have := (hacc p).1 hpa
      exact Reach.tail this.2 ⟨reach_mem_right this.2, hm, hp⟩
  · intro h
    simp only [hits, List.any_eq_true, Bool.or_eq_true, beq_iff_eq, List.contains_eq_mem,
      decide_eq_true_eq]
    rcases h with e | ⟨hb, e⟩
    · exact ⟨n, e.2.2, Or.inl rfl⟩
    · rename_i b
      refine ⟨b, e.2.2, Or.inr ?_⟩
      exact (hacc b).2 ⟨ht done m rest hsplit b e.2.2 e.1, hb⟩

theorem descPass_spec (g : G) (n : Node) (hn : n ∈ g.nodes) (ht : TopoL g.preds g.nodes) :
    ∀ (rest done acc : List Node), g.nodes = done ++ rest →
      (∀ x, x ∈ acc ↔ x ∈ done ∧ Reach g n x) →
      ∀ x, x ∈ descPass g.preds n rest acc ↔ x ∈ g.nodes ∧ Reach g n x := by
  intro rest
  induction rest with
  | nil =>
    intro done acc hsplit hacc x
    simp only [descPass]
    rw [hacc x]; simp at hsplit; rw [hsplit]
  | cons m rest ih =>
    intro done acc hsplit hacc x
    rw [descPass_eq]
    have hh := hits_iff_reach g n hn ht done m rest acc hsplit hacc
    have hsplit' : g.nodes = (done ++ [m]) ++ rest := by rw [hsplit]; simp
    by_cases hit : hits g.preds n acc m = true
    · rw [if_pos hit]
      apply ih (done ++ [m]) (acc ++ [m]) hsplit'
      intro y
      simp only [List.mem_append, List.mem_singleton]
      constructor
      · rintro (hy | rfl)
        · have := (hacc y).1 hy; exact ⟨Or.inl this.1, this.2⟩
        · exact ⟨Or.inr rfl, hh.1 hit⟩
      · rintro ⟨hy | rfl, hr⟩
        · exact Or.inl ((hacc y).2 ⟨hy, hr⟩)
        · exact Or.inr rfl
    · rw [if_neg hit]
      apply ih (done ++ [m]) acc hsplit'
      intro y
      simp only [List.mem_append, List.mem_singleton]
      constructor
      · intro hy; have := (hacc y).1 hy; exact ⟨Or.inl this.1, this.2⟩
      · rintro ⟨hy | rfl, hr⟩
        · exact (hacc y).2 ⟨hy, hr⟩
        · exact absurd (hh.2 hr) hit

/-- **descendants are exactly the reachable nodes** -/
theorem mem_descAll_iff (g : G) (n : Node) (hn : n ∈ g.nodes) (ht : TopoL g.preds g.nodes) (x : Node) :
    x ∈ descAll g n ↔ Reach g n x := by
  have := descPass_spec g n hn ht g.nodes [] [] (by simp) (by simp) x
  unfold descAll
  rw [this]
  exact ⟨fun h => h.2, fun h => ⟨reach_mem_right h, h⟩⟩

theorem descPass_nodup (preds : Node → List Node) (n : Node) : ∀ (rest acc : List Node),
    (acc ++ rest).Nodup → (descPass preds n rest acc).Nodup := by
  intro rest
  induction rest with
  | nil => intro acc h; simpa [descPass] using h
  | cons m rest ih =>
    intro acc h
    rw [descPass_eq]
    split
    · apply ih; simpa [List.append_assoc] using h
    · apply ih
      have : (acc ++ m :: rest).Nodup := h
      rw [List.nodup_append] at this ⊢
      refine ⟨this.1, (List.nodup_cons.mp this.2.1).2, ?_⟩
      intro a ha b hb; exact this.2.2 a ha b (List.mem_cons_of_mem _ hb)

/-- each descendant is counted once -/
theorem descAll_nodup (g : G) (n : Node) (hnd : g.nodes.Nodup) : (descAll g n).Nodup :=
  descPass_nodup g.preds n g.nodes [] (by simpa using hnd)

end GM
