"""Slice S: the real scheduler under scripted completion orders.

* generates scenarios (graph + attributes + selection + script),
* runs the real tawazi code from /repo under `control`,
* renders scenario + observed trace in the line protocol of lean/Drivers/Sched.lean (trace acceptance),
* evaluates the property monitors (C02-C06, C08, C09, C14 and result values) directly on the trace.
"""
import asyncio
import random

import control  # noqa: F401  (must precede tawazi)
import networkx as nx
from tawazi import Resource, xn
from tawazi._dag.constructor import threadsafe_make_dag

RES = {"t": Resource.thread, "a": Resource.async_thread, "m": Resource.main_thread}


class Boom(Exception):
    pass


# ---------------------------------------------------------------------------------------------
# generation
# ---------------------------------------------------------------------------------------------
def gen_graph(rng, n, shape=None):
    shape = shape or rng.choice(["rand", "rand", "rand", "chain", "fanout", "fanin", "diamond", "layers", "iso"])
    preds = [[] for _ in range(n)]
    if shape == "rand":
        dens = rng.choice([0.15, 0.3, 0.6])
        for i in range(n):
            preds[i] = [j for j in range(i) if rng.random() < dens]
    elif shape == "chain":
        for i in range(1, n):
            preds[i] = [i - 1]
    elif shape == "fanout":
        for i in range(1, n):
            preds[i] = [0]
    elif shape == "fanin":
        if n > 1:
            preds[n - 1] = list(range(n - 1))
    elif shape == "diamond":
        for i in range(1, n - 1):
            preds[i] = [0]
        if n > 2:
            preds[n - 1] = list(range(1, n - 1))
    elif shape == "layers":
        w = rng.randint(1, 3)
        for i in range(n):
            layer = i // w
            if layer > 0:
                prev = list(range((layer - 1) * w, min(layer * w, n)))
                preds[i] = [p for p in prev if rng.random() < 0.7] or [rng.choice(prev)]
                if layer > 1 and rng.random() < 0.3:  # shared descendant at another depth
                    preds[i].append(rng.randrange(0, (layer - 1) * w))
    return [sorted(set(p)) for p in preds]


def gen(rng, max_n=8, p_sel=0.3, p_fail=0.06, mixed=True, indexed_flags=True):
    n = rng.randint(1, max_n)
    preds = gen_graph(rng, n)
    kinds = ["t", "t", "t", "a", "a", "m"] if mixed else rng.choice([["t", "t", "m"], ["a", "a", "m"]])
    specs = []
    for i in range(n):
        flag = None
        r = rng.random()
        if r < 0.12:
            # a CONSTANT flag: any object, judged by its truthiness (None, 0 and "" deactivate like False does)
            flag = ["c", rng.choice([True, False, True, False, None, 0, "", 1, "on"])]
        elif r < 0.24 and i > 0:
            flag = ["n", rng.randrange(i)]
        specs.append(dict(preds=preds[i], prio=rng.choice([0, 0, 1, 2, 3, -1, 5, -3]), seq=rng.random() < 0.25,
                          res=rng.choice(kinds), fail=rng.random() < p_fail, flag=flag,
                          ret="z" if rng.random() < 0.15 else "t"))
    if rng.random() < 0.35:
        # tags (shared by several nodes): a configuration may address nodes through them
        for s_ in specs:
            s_["tag"] = rng.choice([None, "g0", "g0", "g1"])
    sc = dict(n=n, specs=specs, maxc=rng.randint(1, 4), is_async=rng.random() < 0.3, sel=None,
              script=dict(seed=rng.randrange(1 << 30)))
    if rng.random() < p_sel:
        sc["sel"] = gen_sel(rng, sc)
    if indexed_flags and (sc["sel"] is None or sc["sel"].get("R") is None) and rng.random() < 0.3:
        # activation flags that are ELEMENTS of a node's result: a producer returning (payload, 0, "on") gates nodes through
        # [1] (falsy) and [2] / [0] (truthy) — several nodes gated by different elements of ONE producer included
        for i, s_ in enumerate(specs):
            cands = [j for j in range(i) if specs[j]["flag"] is None and not specs[j]["fail"]]
            if cands and (s_["flag"] is None or s_["flag"][0] == "n") and rng.random() < 0.5:
                j = rng.choice([c_ for c_ in cands if specs[c_]["ret"] == "p"] or cands)
                specs[j]["ret"] = "p"
                s_["flag"] = ["n", j, rng.choice([0, 1, 1, 2])]
    # the whole graph described in an INNER DAG that the executed DAG calls: the spliced nodes ("inner.n3") must keep
    # every attribute they were declared with (priority, is_sequential, resource, tag, activation flag)
    sc["nested"] = rng.random() < 0.2
    if sc["sel"] is None and not sc["nested"] and not sc.get("handbuilt") and rng.random() < 0.1:
        # an explicit setup() run: only the setup nodes execute, ranked by their compound priority in the WHOLE DAG
        for i_, s_ in enumerate(specs):
            s_["setup"] = s_["flag"] is None and all(specs[p_].get("setup") for p_ in s_["preds"]) and rng.random() < 0.7
        if sum(1 for s_ in specs if s_.get("setup")) >= 1:
            sc["op"] = "setup"
            sc["setup_via_executor"] = rng.random() < 0.4
            if not sc["setup_via_executor"] and rng.random() < 0.5:
                # setup() restricted by a selection of its own: roots (setup nodes without predecessors) or targets
                su_ = [i_ for i_, s_ in enumerate(specs) if s_.get("setup")]
                ro_ = [i_ for i_ in su_ if not specs[i_]["preds"]]
                if ro_ and rng.random() < 0.6:
                    # (setup() aims at EVERY setup node unless told otherwise: the roots given must reach them all)
                    sc["setup_sel"] = dict(R=sorted(ro_), X=None, T=None)
                else:
                    sc["setup_sel"] = dict(R=None, X=None, T=sorted(rng.sample(su_, rng.randint(1, min(2, len(su_))))))
        else:
            for s_ in specs:
                s_.pop("setup", None)
    if sc.get("op") != "setup" and rng.random() < 0.25:
        # debug nodes (anything depending on a debug node is a debug node: the build rule), the RUN_DEBUG_NODES flag at
        # call time, and — independently — the flag while the DAG is DESCRIBED (what a description leaves in the instance
        # must not depend on it)
        mark_debug(rng, sc)
    sc["tiny_loop_executor"] = sc["is_async"] and rng.random() < 0.3
    pooled_ = [i_ for i_, s_ in enumerate(specs) if s_["res"] != "m" and s_["flag"] is None and not s_.get("dbg")]
    if pooled_ and sc.get("op") != "setup" and sc["sel"] is None and n >= 2 and rng.random() < 0.1:
        sc["after_failed_call"] = dict(fail0=rng.choice(pooled_))
    # the instance may have a past: one plain call before the executor is created / the call that is observed
    sc["warm"] = sc.get("op") != "setup" and rng.random() < 0.2
    sc["profile"] = rng.random() < 0.2      # TAWAZI_PROFILE_ALL_NODES: a documented option that must not change anything observed here
    if (not sc["nested"]) and all(not (s_["flag"] and s_["flag"][0] == "c") for s_ in specs) and rng.random() < 0.12:
        # the DAG is NOT traced: its node table is handed to the constructor (hand-built ExecNodes), listed in a random
        # order — the scheduler only knows the dependency graph, never the listing order
        order = list(range(n))
        rng.shuffle(order)
        sc["handbuilt"] = order
    elif sc["sel"] is None and rng.random() < 0.4:
        # how a node receives each predecessor's result: positional / by keyword, whole / the indexed element v[0]
        # (what arrives must be exactly the value after the indexing the description wrote)
        for s_ in specs:
            s_["use"] = {}
            for j in s_["preds"]:
                r_ = rng.random()
                how = "p" if r_ < 0.45 else "k" if r_ < 0.65 else "pi" if r_ < 0.82 else "ki"
                if how.endswith("i") and not (specs[j]["ret"] == "t" and specs[j]["flag"] is None and not specs[j]["fail"]):
                    how = how[0]
                if how != "p":
                    s_["use"][str(j)] = how
    if rng.random() < 0.25 and sc.get("op") != "setup":
        # reconfigure between build and run (dict / json / yaml file / plain attribute assignment)
        rc = dict(how=rng.choice(["dict", "dict", "json", "yaml", "attr"]), maxc=None, nodes={})
        if rng.random() < 0.7:
            rc["maxc"] = rng.randint(1, 4)
        if rc["how"] != "attr":
            def entry():
                # a configuration entry may state the priority, the sequential flag, both, or nothing at all:
                # what it does not state keeps the node's declared value
                full = dict(priority=rng.choice([0, 4, -2, 7]), is_sequential=rng.random() < 0.3)
                r_ = rng.random()
                keep = ["priority", "is_sequential"] if r_ < 0.5 else ["priority"] if r_ < 0.75 else \
                    ["is_sequential"] if r_ < 0.95 else []
                return {k_: full[k_] for k_ in keep}
            taken = set()
            tags = sorted({s_.get("tag") for s_ in specs if s_.get("tag")})
            if tags and rng.random() < 0.6:
                t_ = rng.choice(tags)
                rc["nodes"]["tag:" + t_] = entry()
                taken |= {i for i, s_ in enumerate(specs) if s_.get("tag") == t_}
            free = [i for i in range(n) if i not in taken]      # a node configured twice is refused (ambiguous)
            for i in rng.sample(free, min(len(free), rng.randint(0, 2))):
                rc["nodes"][str(i)] = entry()
        if rc["maxc"] is not None or rc["nodes"]:
            sc["reconf"] = rc
            # the DAG may have been CALLED before it is reconfigured (anything derived from the old
            # configuration and kept by the instance must not survive the reconfiguration)
            rc["warmup"] = rng.random() < 0.4
            # the executor object may exist BEFORE the reconfiguration and be called after it: it runs the DAG's nodes as
            # they are declared when it is called (sequential flags, max_concurrency).  Priorities are left alone in that
            # case: which table an older executor ranks by is not specified.
            if rng.random() < 0.3:
                rc["exec_before"] = True
                for e_ in rc["nodes"].values():
                    e_.pop("priority", None)
    return sc


def directed(rng):
    """Hand-shaped families the random generator reaches too rarely; attributes and completion orders stay random."""
    def node(preds=(), prio=0, seq=False, res="t", **kw):
        return dict(preds=list(preds), prio=prio, seq=seq, res=res, fail=False, flag=None, ret="t", **kw)
    out = []
    for _ in range(6):
        kind = rng.choice(["t", "a"])
        k2 = rng.choice(["t", "a"]) if rng.random() < 0.3 else kind
        # two workers a, b running, the sequential s the only (hence best) candidate; the first finisher releases a
        # child that outranks s: the scheduler must start it next to the other worker, not keep draining for s
        hi = rng.choice([4, 5, 9])
        specs = [node(prio=3, res=kind), node(prio=3, res=k2), node(prio=rng.choice([0, 1, 2]), seq=True, res=rng.choice(["t", "a", "m"])),
                 node(preds=[rng.choice([0, 1])], prio=hi, res=rng.choice(["t", "a"]))]
        if rng.random() < 0.5:
            specs.append(node(preds=[3], prio=0, res="t"))
        out.append(dict(n=len(specs), specs=specs, maxc=rng.choice([3, 3, 4]), is_async=rng.random() < 0.3, sel=None, nested=False,
                        script=dict(seed=rng.randrange(1 << 30))))
    for _ in range(8):
        # a pooled node that FAILS while the scheduler thread is busy running a main-thread node inline (its completion is a
        # fact before the scheduler next looks); a dependant of the failing node must never start
        kind = rng.choice(["t", "t", "a"])
        specs = [dict(node(prio=5, res=kind), fail=True), node(prio=rng.choice([1, 3]), res="m"),
                 node(preds=[0], prio=rng.choice([0, 2]), res=rng.choice(["t", "m"]))]
        if rng.random() < 0.5:
            specs.append(node(preds=[1], prio=1, res="t"))
        out.append(dict(n=len(specs), specs=specs, maxc=rng.choice([2, 3]), is_async=rng.random() < 0.3, sel=None, nested=False,
                        script=dict(seed=rng.randrange(1 << 30))))
    for _ in range(5):
        # a debug node that FAILS (flag on) and a debug node depending on it — through an argument or through its activation
        # flag: the failure ends the run like any other, the dependant never starts
        kind = rng.choice(["t", "a", "m"])
        specs = [node(prio=rng.choice([0, 2]), res=rng.choice(["t", "a"])),
                 dict(node(preds=[0], prio=rng.choice([0, 3]), res=kind), fail=True, dbg=True)]
        if rng.random() < 0.5:
            specs.append(dict(node(preds=[0, 1], prio=1, res=rng.choice(["t", "m"])), dbg=True))
        else:
            specs.append(dict(node(preds=[0], prio=1, res=rng.choice(["t", "m"])), dbg=True, flag=["n", 1]))
        if rng.random() < 0.5:
            specs.append(node(preds=[0], prio=rng.choice([0, 5]), res="t"))
        out.append(dict(n=len(specs), specs=specs, maxc=rng.choice([1, 2, 3]), is_async=rng.random() < 0.3, sel=None, nested=rng.random() < 0.3,
                        run_debug=True, debug_at_build=rng.random() < 0.5, script=dict(seed=rng.randrange(1 << 30))))
    for _ in range(6):
        # the observed call follows, on the same thread, a call that FAILED while sibling nodes were still running: the
        # first root fails (first call only), the others stay in flight; the next call must get its full parallelism
        kind = rng.choice(["t", "t", "a"])
        k_ = rng.choice([3, 4])
        specs = [node(prio=9, res=kind)] + [node(prio=rng.choice([1, 2, 3]), res=rng.choice([kind, kind, "t", "a"])) for _i in range(k_)]
        if rng.random() < 0.5:
            specs.append(node(preds=[1], prio=0, res="t"))
        out.append(dict(n=len(specs), specs=specs, maxc=rng.choice([2, 3]), is_async=rng.random() < 0.3, sel=None, nested=False,
                        after_failed_call=dict(fail0=0), script=dict(seed=rng.randrange(1 << 30))))
    for _ in range(6):
        # SEVERAL pooled nodes observed finished by ONE wake-up of the scheduler, one of them with a successor whose other
        # predecessor is still running: the successor must stay where it is
        kind = rng.choice(["t", "t", "a"])
        i_, j_ = rng.choice([(0, 1), (0, 2), (1, 2)])
        k_ = ({0, 1, 2} - {i_, j_}).pop()
        specs = [node(prio=5, res=kind), node(prio=4, res=kind), node(prio=3, res=kind),
                 node(preds=sorted([rng.choice([i_, j_]), k_]), prio=9, res=rng.choice([kind, "m"]))]
        if rng.random() < 0.5:
            specs.append(node(preds=[3], prio=0, res=kind))
        out.append(dict(n=len(specs), specs=specs, maxc=rng.choice([3, 4]), is_async=rng.random() < 0.3, sel=None, nested=False,
                        script=dict(decisions=[{(0, 1): 3, (0, 2): 4, (1, 2): 5}[(i_, j_)]])))
    for _ in range(5):
        # an explicit setup() restricted to roots, over setup nodes that form a DIAMOND below the root: the join waits for both arms
        kind = rng.choice(["t", "t", "a"])
        specs = [dict(node(prio=1, res=kind), setup=True), dict(node(preds=[0], prio=rng.choice([0, 3]), res=kind), setup=True),
                 dict(node(preds=[0], prio=rng.choice([0, 3]), res=kind), setup=True),
                 dict(node(preds=[1, 2], prio=5, res=rng.choice([kind, "m"])), setup=True), node(preds=[3], prio=0, res="t")]
        out.append(dict(n=len(specs), specs=specs, maxc=rng.choice([2, 3]), is_async=rng.random() < 0.3, sel=None, nested=False, op="setup",
                        setup_sel=dict(R=[0], X=None, T=None) if rng.random() < 0.7 else dict(R=None, X=None, T=[3]),
                        script=dict(seed=rng.randrange(1 << 30))))
    for _ in range(6):
        # a DEACTIVATED node X (picked first) with a dependant D that is gated by ANOTHER node F which has not run yet when X
        # is pruned: D waits for F and runs (F is truthy) — a flag is judged when its producer has finished, never before
        kind = rng.choice(["t", "t", "a", "m"])
        specs = [node(prio=0, res=rng.choice(["t", "a"])),
                 dict(node(prio=9, res=kind), flag=["c", rng.choice([False, 0, None])]),
                 dict(node(preds=[1], prio=rng.choice([0, 5]), res=rng.choice(["t", "m"])), flag=["n", 0])]
        if rng.random() < 0.5:
            specs.append(node(preds=[2], prio=1, res="t"))
        out.append(dict(n=len(specs), specs=specs, maxc=rng.choice([1, 2, 3]), is_async=rng.random() < 0.3, sel=None, nested=rng.random() < 0.2,
                        script=dict(seed=rng.randrange(1 << 30))))
    for _ in range(4):
        # a tag carried by a non-sequential node and (later in the description) a sequential one, reconfigured through the tag
        # by an entry that states the priority only: both keep their own sequential flag
        kind = rng.choice(["t", "a"])
        specs = [dict(node(prio=2, res=kind), tag="g0"), dict(node(prio=rng.choice([1, 2, 3]), seq=True, res=rng.choice(["t", "a"])), tag="g0"),
                 node(prio=1, res=kind), node(prio=0, res=rng.choice(["t", "a"]))]
        rng.shuffle(specs[2:])
        sc_ = dict(n=len(specs), specs=specs, maxc=rng.choice([2, 3, 4]), is_async=rng.random() < 0.3, sel=None, nested=False,
                   script=dict(seed=rng.randrange(1 << 30)),
                   reconf=dict(how=rng.choice(["dict", "json", "yaml"]), maxc=None, nodes={"tag:g0": dict(priority=rng.choice([4, 7]))},
                               warmup=rng.random() < 0.3))
        out.append(sc_)
    return out


def mark_debug(rng, sc, p=0.25):
    specs = sc["specs"]
    for i, s_ in enumerate(specs):
        s_["dbg"] = any(specs[p_].get("dbg") for p_ in all_preds(s_)) or rng.random() < p
    if not any(s_.get("dbg") for s_ in specs):
        specs[-1]["dbg"] = True
    sc["run_debug"] = rng.random() < 0.65
    sc["debug_at_build"] = rng.random() < 0.5


def effective(sc):
    """The scenario as it is executed: build-time attributes overridden by the reconfiguration, if any."""
    rc = sc.get("reconf")
    if not rc:
        return sc
    eff = dict(sc)
    eff["specs"] = [dict(s) for s in sc["specs"]]
    for key, conf in rc["nodes"].items():
        idxs = [j for j, s_ in enumerate(sc["specs"]) if s_.get("tag") == key[4:]] if key.startswith("tag:") else [int(key)]
        for j in idxs:
            if "priority" in conf:
                eff["specs"][j]["prio"] = conf["priority"]
            if "is_sequential" in conf:
                eff["specs"][j]["seq"] = conf["is_sequential"]
    if rc["maxc"] is not None:
        eff["maxc"] = rc["maxc"]
    return eff


def apply_reconf(d, rc):
    import json as _json
    import os as _os
    import tempfile as _tmp
    conf = {}
    if rc["nodes"]:
        conf["nodes"] = {(i[4:] if i.startswith("tag:") else PREFIX[0] + "n%s" % i): dict(c) for i, c in rc["nodes"].items()}
    if rc["maxc"] is not None:
        conf["max_concurrency"] = rc["maxc"]
    how = rc["how"]
    if how == "attr":
        d.max_concurrency = rc["maxc"]
    elif how == "dict":
        d.config_from_dict(conf)
    else:
        fd, path = _tmp.mkstemp(suffix="." + how, prefix="twzconf")
        _os.close(fd)
        try:
            with open(path, "w") as f:
                if how == "json":
                    _json.dump(conf, f)
                else:
                    import yaml
                    yaml.safe_dump(conf, f)
            (d.config_from_json if how == "json" else d.config_from_yaml)(path)
        finally:
            _os.remove(path)


def all_preds(s):
    ps = list(s["preds"])
    if s["flag"] and s["flag"][0] == "n" and s["flag"][1] not in ps:
        ps.append(s["flag"][1])
    return ps


def nxgraph(sc):
    g = nx.DiGraph()
    g.add_nodes_from(range(sc["n"]))
    for i, s in enumerate(sc["specs"]):
        for p in all_preds(s):
            g.add_edge(p, i)
    return g


def closure(sc, sel):
    """The documented selection: (R + desc R) minus (X + desc X), restricted to T + anc T."""
    g = nxgraph(sc)
    out = set(range(sc["n"]))
    if sel is None:
        return out
    R, X, T = sel.get("R"), sel.get("X"), sel.get("T")
    if R is not None:
        out = set(R)
        for r in R:
            out |= nx.descendants(g, r)
    if X is not None:
        for x in X:
            out -= {x} | nx.descendants(g, x)
    if T is not None:
        anc = set(T)
        for t in T:
            anc |= nx.ancestors(g, t)
        out &= anc
    return out


def gen_sel(rng, sc):
    g = nxgraph(sc)
    # a node taking a constant (here: a constant flag) has its holder as predecessor: not a root
    roots = [i for i in range(sc["n"]) if g.in_degree(i) == 0 and sc["specs"][i]["flag"] is None]
    sel = dict(R=None, X=None, T=None)
    if roots and rng.random() < 0.4:
        sel["R"] = sorted(rng.sample(roots, rng.randint(1, len(roots))))
    base = closure(sc, sel)
    if base and rng.random() < 0.5:
        sel["X"] = sorted(rng.sample(sorted(base), rng.randint(0, min(2, len(base)))))
    base = closure(sc, sel)
    if base and rng.random() < 0.6:
        sel["T"] = sorted(rng.sample(sorted(base), rng.randint(1, min(2, len(base)))))
    return sel


def cp_spec(sc):
    g = nxgraph(sc)
    return [sc["specs"][i]["prio"] + sum(sc["specs"][d]["prio"] for d in nx.descendants(g, i)) for i in range(sc["n"])]


# ---------------------------------------------------------------------------------------------
# building and running the real thing
# ---------------------------------------------------------------------------------------------
def value(i, s, args):
    if s["ret"] == "p":
        return (("n%d" % i,) + tuple(args), 0, "on")
    return 0 if s["ret"] == "z" else ("n%d" % i,) + tuple(args)


def flag_value(flag, get):
    v = get(flag[1])
    return v[flag[2]] if len(flag) > 2 and v is not None else v


def received(s, get):
    """What the node's function receives, in a canonical order: positional arguments (order of `preds`), then the
    keyword arguments sorted by name; `get(j)` is predecessor j's result."""
    use = s.get("use") or {}
    pos, kw = [], []
    for j in s["preds"]:
        how = use.get(str(j), "p")
        v = get(j)
        if how.endswith("i"):
            v = v[0]
        (pos if how[0] == "p" else kw).append(v)
    return tuple(pos) + tuple(kw)


def make_node(i, s):
    def body(*args, **kw):
        args = tuple(args) + tuple(kw[k_] for k_ in sorted(kw))
        control.node_enter(i, args)
        if s["fail"] or FAIL0[0] == i:
            raise Boom(i)
        return value(i, s, args)

    body.__name__ = body.__qualname__ = "n%d" % i
    node = xn(body, priority=s["prio"], is_sequential=s["seq"], resource=RES[s["res"]], tag=s.get("tag"), setup=bool(s.get("setup")),
              debug=bool(s.get("dbg")))
    # from here on the node id ("n<i>") and the wrapped function's name differ, as they do for a function
    # used at several call sites ("f<<1>>") or inside a nested DAG ("inner.f"): messages must name the NODE
    body.__qualname__ = "impl_of_node_%d" % i
    return node


FAIL0 = [None]    # the node that fails in the EARLIER call of an "after_failed_call" scenario (None otherwise)
PREFIX = [""]     # id prefix of the scenario's nodes in the DAG that is run ("inner." when the scenario is nested)


def norm_id(x):
    return x[6:] if isinstance(x, str) and x.startswith("inner.") else x


def build_handbuilt(sc):
    from tawazi import DAG, AsyncDAG
    from tawazi._helpers import StrictDict
    from tawazi.node import ExecNode, UsageExecNode
    table = {}
    for i in sc["handbuilt"]:
        s = sc["specs"][i]

        def body(*args, i=i, s=s):
            control.node_enter(i, args)
            if s["fail"] or FAIL0[0] == i:
                raise Boom(i)
            return value(i, s, args)
        body.__name__ = body.__qualname__ = "impl_of_node_%d" % i
        active = UsageExecNode("n%d" % s["flag"][1], key=list(s["flag"][2:])) if s["flag"] else None
        kw = dict(tag=s["tag"]) if s.get("tag") else {}
        if s.get("dbg"):
            kw["debug"] = True
        table["n%d" % i] = ExecNode(id_="n%d" % i, exec_function=body, args=[UsageExecNode("n%d" % p) for p in s["preds"]],
                                    priority=s["prio"], is_sequential=s["seq"], resource=RES[s["res"]], active=active, **kw)
    cls = AsyncDAG if sc["is_async"] else DAG
    return cls(qualname="describe", results=StrictDict({}), exec_nodes=StrictDict(table), input_uxns=[],
               return_uxns=tuple(UsageExecNode("n%d" % i) for i in range(sc["n"])), max_concurrency=sc["maxc"])


def build(sc):
    if sc.get("handbuilt"):
        PREFIX[0] = ""
        return build_handbuilt(sc)
    nodes = [make_node(i, s) for i, s in enumerate(sc["specs"])]
    PREFIX[0] = "inner." if sc.get("nested") else ""

    def describe():
        vals = []
        for i, s in enumerate(sc["specs"]):
            kw = {}
            if s["flag"] is not None:
                kw["twz_active"] = s["flag"][1] if s["flag"][0] == "c" else flag_value(s["flag"], lambda j: vals[j])
            use = s.get("use") or {}
            pos = []
            for j in s["preds"]:
                how = use.get(str(j), "p")
                v = vals[j][0] if how.endswith("i") else vals[j]
                if how[0] == "p":
                    pos.append(v)
                else:
                    kw["k%02d" % j] = v
            vals.append(nodes[i](*pos, **kw))
        return tuple(vals)

    if sc.get("nested"):
        describe.__qualname__ = describe.__name__ = "inner"
        inner = threadsafe_make_dag(describe, 1, False)

        def outer():
            return inner()
        outer.__qualname__ = outer.__name__ = "describe"
        return threadsafe_make_dag(outer, sc["maxc"], sc["is_async"])
    describe.__qualname__ = describe.__name__ = "describe"
    return threadsafe_make_dag(describe, sc["maxc"], sc["is_async"])


def oracle(sc, selected):
    """Sequential semantics: value, activity and failure of each node (None for unselected nodes)."""
    vals, active, failed = [], [], []
    ABSENT = object()
    for i, s in enumerate(sc["specs"]):
        if i not in selected:
            vals.append(ABSENT); active.append(False); failed.append(False)
            continue
        get = lambda j: None if vals[j] is ABSENT else vals[j]  # noqa: E731
        dep_failed = any(failed[p] for p in all_preds(s) if p in selected)
        act = True
        if s["flag"] is not None:
            act = bool(s["flag"][1]) if s["flag"][0] == "c" else bool(flag_value(s["flag"], get))
        active.append(act)
        if dep_failed:
            vals.append(None); failed.append(True)      # never runs: the run raises before
        elif not act:
            vals.append(None); failed.append(False)
        elif s["fail"]:
            vals.append(None); failed.append(True)
        else:
            vals.append(value(i, s, received(s, get))); failed.append(False)
    vals = [None if v is ABSENT else v for v in vals]
    return vals, active, failed


def whole_call_selection(sc):
    """A plain call runs every node; the debug nodes only when RUN_DEBUG_NODES is on at the time of the call."""
    return {i for i, s_ in enumerate(sc["specs"]) if sc.get("run_debug") or not s_.get("dbg")}


def ids(l):
    return None if l is None else [PREFIX[0] + "n%d" % i for i in l]


def run_scenario(sc, timeout=40):
    """Build and run one scenario on the real code.  Returns a dict with everything observed."""
    from tawazi import cfg as _cfg
    old_profile, old_debug = _cfg.TAWAZI_PROFILE_ALL_NODES, _cfg.RUN_DEBUG_NODES
    _cfg.TAWAZI_PROFILE_ALL_NODES = bool(sc.get("profile"))
    _cfg.RUN_DEBUG_NODES = bool(sc.get("debug_at_build"))
    try:
        return _run_scenario(sc, timeout)
    finally:
        _cfg.TAWAZI_PROFILE_ALL_NODES = old_profile
        _cfg.RUN_DEBUG_NODES = old_debug


class CreationHung(BaseException):
    """building an executor object did not return (a spinning graph preparation cannot be killed: a thread stays behind)"""


def make_executor(d, **kw):
    """d.executor(**kw) under a watchdog: building an executor must return or raise."""
    import threading as _th
    box = {}

    def _mk():
        try:
            box["ex"] = d.executor(**kw)
        except BaseException as e_:  # noqa: BLE001
            box["exc"] = e_
    th_ = _th.Thread(target=_mk, daemon=True)
    th_.start()
    th_.join(10)
    if th_.is_alive():
        raise CreationHung()
    if "exc" in box:
        raise box["exc"]
    return box["ex"]


def arun(sc, mk):
    """Await mk() in a fresh event loop — the application's loop, whose DEFAULT executor may be tiny (one worker): the DAG's
    nodes run in the DAG's own pool, whatever the application does with its loop."""
    if not sc.get("tiny_loop_executor"):
        return asyncio.run(mk())
    import concurrent.futures as _cf

    async def main():
        asyncio.get_running_loop().set_default_executor(_cf.ThreadPoolExecutor(max_workers=1))
        return await mk()
    return asyncio.run(main())


def _run_scenario(sc, timeout):
    from tawazi import cfg as _cfg
    d = build(sc)
    _cfg.RUN_DEBUG_NODES = bool(sc.get("run_debug"))
    if sc.get("reconf"):
        if sc["reconf"].get("warmup"):
            # one call under the build-time configuration first (outcome irrelevant; under control so that it ends)
            control.run_controlled(lambda: arun(sc, d) if sc["is_async"] else d(),
                                   control.Script(rng=random.Random(sc["script"].get("seed", 0) + 1)), timeout=timeout)
        early_ex = None
        if sc["reconf"].get("exec_before"):
            sel0 = sc.get("sel") or {}
            try:
                early_ex = make_executor(d, root_nodes=ids(sel0.get("R")), exclude_nodes=ids(sel0.get("X")), target_nodes=ids(sel0.get("T")))
            except CreationHung:
                return dict(skipped="executor-creation-hung", creation_hung=True)
            except BaseException as e:  # noqa: BLE001
                return dict(skipped="executor-creation-raised:" + type(e).__name__)
        try:
            apply_reconf(d, sc["reconf"])
        except Exception as e:  # noqa: BLE001  every entry names a node / tag of the description: nothing to refuse
            return dict(skipped="reconfiguration-raised", config_refused="%s: %s" % (type(e).__name__, str(e)[:160]))
        if early_ex is not None:
            ex = early_ex
            graph_nodes = {int(norm_id(x)[1:]) for x in ex.graph.nodes if norm_id(x).startswith("n") and norm_id(x)[1:].isdigit()}
            real_cp = {norm_id(k): ex.graph.compound_priority[k] for k in list(ex.graph.nodes)}
            script = control.Script(decisions=sc["script"]["decisions"]) if "decisions" in sc["script"] else \
                control.Script(rng=random.Random(sc["script"]["seed"]))
            R, outcome = control.run_controlled(lambda: arun(sc, ex) if sc["is_async"] else ex(), script, timeout=timeout)
            return dict(run=R, outcome=outcome, selected=graph_nodes, real_cp=real_cp, script_trace=script.trace)
    if sc.get("op") == "setup":
        ss_ = sc.get("setup_sel") or {}
        g_ = d._pre_setup(ids(ss_.get("T")), ids(ss_.get("X")), ids(ss_.get("R")))       # the graph an explicit setup() runs
        graph_nodes = {int(norm_id(x)[1:]) for x in g_.nodes if norm_id(x).startswith("n") and norm_id(x)[1:].isdigit()}
        real_cp = {norm_id(k): g_.compound_priority[k] for k in list(g_.nodes)}
        script = control.Script(decisions=sc["script"]["decisions"]) if "decisions" in sc["script"] else \
            control.Script(rng=random.Random(sc["script"]["seed"]))
        # setup() of the DAG itself, or of an executor object of it (the same setup nodes: the executor selects nothing)
        su = d.executor().setup if sc.get("setup_via_executor") else \
            (lambda: d.setup(target_nodes=ids(ss_.get("T")), exclude_nodes=ids(ss_.get("X")), root_nodes=ids(ss_.get("R"))))
        R, outcome = control.run_controlled(lambda: arun(sc, su) if sc["is_async"] else su(), script, timeout=timeout)
        return dict(run=R, outcome=outcome, selected=graph_nodes, real_cp=real_cp, script_trace=script.trace)
    if sc.get("warm") and not sc.get("reconf"):
        control.run_controlled(lambda: arun(sc, d) if sc["is_async"] else d(),
                               control.Script(rng=random.Random(sc["script"].get("seed", 0) + 1)), timeout=timeout)
    sel = sc.get("sel")
    if sel is None:
        graph_nodes = None
        real_cp = {norm_id(k): v for k, v in d.graph_ids.compound_priority.items()}

        def call():
            return arun(sc, d) if sc["is_async"] else d()
    else:
        try:
            ex = make_executor(d, root_nodes=ids(sel.get("R")), exclude_nodes=ids(sel.get("X")), target_nodes=ids(sel.get("T")))
        except CreationHung:
            return dict(skipped="executor-creation-hung", creation_hung=True)
        except BaseException as e:  # noqa: BLE001  the selection itself is C12's business (slice G)
            return dict(skipped="executor-creation-raised:" + type(e).__name__)
        graph_nodes = {int(norm_id(x)[1:]) for x in ex.graph.nodes if norm_id(x).startswith("n") and norm_id(x)[1:].isdigit()}
        real_cp = {norm_id(k): ex.graph.compound_priority[k] for k in list(ex.graph.nodes)}

        def call():
            return arun(sc, ex) if sc["is_async"] else ex()
    if "decisions" in sc["script"]:
        script = control.Script(decisions=sc["script"]["decisions"])
    else:
        script = control.Script(rng=random.Random(sc["script"]["seed"]))
    afc = sc.get("after_failed_call") if sel is None else None
    if afc is not None:
        # the observed call comes AFTER a call of the same object, on the same thread, that FAILED (node `fail0` raised) —
        # possibly with sibling nodes still running: nothing of the failed call (its workers, its bookkeeping) may weigh
        # on the next one
        plain_call = call

        def call():     # noqa: F811
            FAIL0[0] = afc["fail0"]
            try:
                plain_call()
            except BaseException:  # noqa: BLE001
                pass
            finally:
                FAIL0[0] = None
            R_ = control.tls.run
            R_.retired = {t_.id for t_ in R_.tickets}      # what the failed call left in flight stays in flight, untouched
            R_.ev("mark")
            return plain_call()
    try:
        R, outcome = control.run_controlled(call, script, timeout=timeout)
    finally:
        FAIL0[0] = None
    if afc is not None:
        marks = [k_ for k_, e_ in enumerate(R.log) if e_[1] == "mark"]
        if marks:
            R.first_call_log = R.log[:marks[0]]
            # the observed call's events only: whatever a node of the earlier call still reports (it is released when the
            # run is over) is not an event of this call
            R.log = [e_ for e_ in R.log[marks[0] + 1:]
                     if not (e_[1] in ("enter", "exit") and len(e_) > 3 and e_[3] in R.retired) and e_[1] != "TIMEOUT"]
    selected = whole_call_selection(sc) if graph_nodes is None else graph_nodes
    return dict(run=R, outcome=outcome, selected=selected, real_cp=real_cp, script_trace=script.trace)


# ---------------------------------------------------------------------------------------------
# protocol
# ---------------------------------------------------------------------------------------------
def failing_node_of(exc):
    import re
    m = re.search(r"ExecNode (?:inner\.)?n(\d+) ", str(exc))
    return int(m.group(1)) if m else None


def emit(sid, sc, obs, cp_mode="real", strict_exc=False):
    """Scenario + observed trace as a block for Drivers/Sched.lean; returns (text, index map)."""
    sc = effective(sc)
    R, outcome, selected = obs["run"], obs["outcome"], obs["selected"]
    sel_nodes = sorted(selected)
    pos = {n: k for k, n in enumerate(sel_nodes)}
    vals, active, _failed = oracle(sc, selected)
    spec = cp_spec(sc)
    out = ["S %s %d %d" % (sid, len(sel_nodes), sc["maxc"])]
    for n in sel_nodes:
        s = sc["specs"][n]
        cp = spec[n] if cp_mode == "spec" else obs["real_cp"].get("n%d" % n, 0)
        ps = [pos[p] for p in all_preds(s) if p in pos]
        out.append("N %d %d %s %d %d %s" % (cp, int(s["seq"]), s["res"], int(active[n]), int(s["fail"]),
                                            " ".join(map(str, ps))))
    tnode = {t.id: t.node for t in R.tickets}
    for e in R.log:
        k = e[1]
        if k == "dispatch":
            nd = tnode[e[2]]
            out.append("D %s %s" % ("?" if nd is None or nd not in pos else pos[nd], "c" if e[3] == "thread" else "a"))
        elif k == "enter" and e[3] is None:
            out.append("I %s" % (pos[e[2]] if e[2] in pos else 999))
        elif k == "wait":
            if len(e) > 6 and e[6] == "timeout":
                out.append("W %s %s" % ("c" if e[2] == "conc" else "a", "F" if e[3] == "FIRST_COMPLETED" else "A"))
                continue   # a wait that returned with nothing finished: no step of the model matches (empty set)
            if not e[4]:
                continue   # wait on an empty set is a silent step of the model
            rel = [tnode[t] for t in e[5]]
            out.append("W %s %s %s" % ("c" if e[2] == "conc" else "a", "F" if e[3] == "FIRST_COMPLETED" else "A",
                                       " ".join(str(pos.get(x, 999)) for x in rel if x is not None)))
    if outcome[0] == "ok":
        out.append("R")
    elif outcome[0] == "exc":
        f = failing_node_of(outcome[1])
        if f is None and isinstance(outcome[1], Boom):
            f = outcome[1].args[0]
        if f is None or f not in pos:
            # not a node failure: C14's business; other properties judge the prefix only
            out.append("X ?" if strict_exc else "A")
        else:
            out.append("X %d" % pos[f])
    else:
        out.append("X ?")     # a hang is not a run of the model (C09_bound): never accepted
    out.append("E")
    return "\n".join(out) + "\n"


# ---------------------------------------------------------------------------------------------
# monitors: the properties stated directly on the real trace
# ---------------------------------------------------------------------------------------------
def monitors(sc, obs):
    """Returns (violations, facts): violations = list of (property, signature, detail)."""
    sc = effective(sc)
    R, outcome, selected = obs["run"], obs["outcome"], obs["selected"]
    specs, maxc = sc["specs"], sc["maxc"]
    g = nxgraph(sc)
    vals, active, failed = oracle(sc, selected)
    spec = cp_spec(sc)
    V = []
    facts = dict(seq_contended=False, waits_with_ready=0, multi_candidate_starts=0, starts=0, waits=0,
                 max_inflight=0, sites=set(), failures_observed=0, skipped=sum(1 for i in selected if not active[i]))

    def bad(prop, sig, **detail):
        V.append((prop, sig, detail))

    tnode = {t.id: t.node for t in R.tickets}
    started, exited, observed, inflight, running = [], set(), set(), set(), set()
    failure_seen = False
    unknown_inflight = set()   # tickets drawn whose node never reported entry (run failed first)
    prev_wait = None   # (kind, nonempty) of the immediately preceding scheduler event if it was a wait

    def preds_in(n):
        return [p for p in all_preds(specs[n]) if p in selected]

    def certainly_ready(m):
        if m in started or m not in selected or not active[m]:
            return False
        return all(active[p] and p in observed for p in preds_in(m))

    def possibly_ready(m):
        if m in started or m not in selected:
            return False
        return all((p in observed) or not active[p] for p in preds_in(m))

    # the documented selection of an executor (no debug nodes around: root + descendants, minus excluded + descendants,
    # restricted to targets + ancestors); what the executor's graph really holds is `selected`
    documented = None
    if sc.get("sel") is not None and sc.get("op") != "setup" and not any(s_.get("dbg") for s_ in specs):
        documented = closure(sc, sc["sel"])
        if documented != set(selected):
            bad("C12", "executor-graph-differs-from-the-documented-selection", got=sorted(selected), want=sorted(documented))

    def on_start(n, pooled):
        nonlocal failure_seen
        facts["starts"] += 1
        if documented is not None and n in selected and n not in documented:
            bad("C03", "node-outside-the-documented-selection-ran", node=n, selection=sc["sel"], documented=sorted(documented))
        if n in started:
            bad("C03", "started-twice", node=n)
        if n not in selected:
            bad("C03", "unselected-node-ran", node=n)
            if specs[n].get("dbg") and not sc.get("run_debug"):
                bad("C13", "debug-node-ran-with-the-flag-off", node=n)
            return
        if not active[n]:
            bad("C10", "deactivated-node-ran", node=n, flag=specs[n]["flag"])
            bad("C03", "deactivated-node-ran", node=n)
        for p in preds_in(n):
            if active[p] and not failed[p] and p not in exited:
                bad("C02", "dependency-not-finished", node=n, dep=p)
            if failed[p] or (specs[p]["fail"] and active[p]):
                bad("C14", "dependent-of-failed-started", node=n, dep=p)
                bad("C02", "started-although-a-dependency-never-returned", node=n, dep=p)
        if failure_seen:
            bad("C14", "start-after-observed-failure", node=n)
        if pooled and len(inflight) + len(unknown_inflight) >= maxc:
            bad("C04", "over-max-concurrency", node=n, inflight=sorted(inflight), maxc=maxc)
        if any(specs[m]["seq"] for m in inflight):
            bad("C05", "started-while-sequential-in-flight", node=n, inflight=sorted(inflight))
        if specs[n]["seq"] and inflight:
            bad("C05", "sequential-started-with-others-in-flight", node=n, inflight=sorted(inflight))
        ready = [] if unknown_inflight else [m for m in sorted(selected) if m != n and certainly_ready(m)]
        if ready:
            facts["multi_candidate_starts"] += 1
            if specs[n]["seq"] or any(specs[m]["seq"] for m in ready):
                facts["seq_contended"] = True
        better = [m for m in ready if spec[m] > spec[n]]
        if better:
            bad("C06", "lower-priority-started", node=n, cp=spec[n], better=[(m, spec[m]) for m in better])
        started.append(n)

    for e in R.log:
        k = e[1]
        if k == "dispatch":
            n = tnode[e[2]]
            if n is None:
                if outcome[0] == "ok":
                    bad("C03", "dispatched-never-entered", ticket=e[2])
                if len(inflight) + len(unknown_inflight) >= maxc:
                    bad("C04", "over-max-concurrency", node=None, inflight=sorted(inflight), maxc=maxc)
                unknown_inflight.add(e[2])
                prev_wait = None
                continue
            on_start(n, True)
            inflight.add(n)
            facts["max_inflight"] = max(facts["max_inflight"], len(inflight))
            prev_wait = None
        elif k == "enter":
            n, ticket, on_main, args = e[2], e[3], e[4], e[5]
            if ticket is None:
                if not on_main:
                    bad("C04", "inline-node-off-invoking-thread", node=n)
                if specs[n]["res"] != "m":
                    bad("C04", "pooled-resource-ran-inline", node=n, res=specs[n]["res"])
                on_start(n, False)
                prev_wait = None
            else:
                if on_main:
                    bad("C04", "pooled-node-on-invoking-thread", node=n)
                if specs[n]["res"] == "m":
                    bad("C04", "main-thread-resource-ran-in-pool", node=n)
            if running:
                if specs[n]["seq"] or any(specs[m]["seq"] for m in running):
                    bad("C05", "sequential-overlap", node=n, running=sorted(running))
            running.add(n)
            if n in selected and active[n] and not failed[n]:
                want = received(specs[n], lambda j: vals[j])
                if tuple(args) != want:
                    bad("C02", "wrong-argument-values", node=n, got=args, want=want)
        elif k == "exit":
            n = e[2]
            running.discard(n)
            exited.add(n)
            if specs[n]["res"] == "m" or n not in inflight:
                if specs[n]["fail"]:
                    failure_seen = True
                    facts["failures_observed"] += 1
                else:
                    observed.add(n)
        elif k == "stalled":
            # work items handed to the pool that no worker picked up although the scheduler already waits for them: the
            # pool is smaller than the number of nodes the scheduler counts as running (they are queued, not running)
            who = [tnode.get(t) for t in e[2]]
            for p_ in ("C04", "C06", "C08"):
                bad(p_, "dispatched-node-got-no-worker", tickets=list(e[2]), nodes=who, maxc=maxc)
            if outcome[0] == "exc":
                # ... and the call has failed meanwhile: the queued node starts (if ever) after the failure was raised
                bad("C14", "queued-node-starts-after-the-call-raised", tickets=list(e[2]), nodes=who)
        elif k == "wait":
            kind, mode, waited, released = e[2], e[3], e[4], e[5]
            if not waited:
                continue
            facts["waits"] += 1
            facts["sites"].add((kind, mode))
            ready = [] if unknown_inflight else [m for m in sorted(selected) if certainly_ready(m)]
            poss = [m for m in sorted(selected) if possibly_ready(m)]
            if ready:
                facts["waits_with_ready"] += 1
            ok = (len(inflight) + len(unknown_inflight) >= maxc or not ready
                  or any(specs[m]["seq"] for m in inflight))
            if not ok:
                # "a sequential node is the best ready candidate": judged with the documented
                # priorities and with the table the scheduler actually holds (a wrong table is
                # C06/C07's finding, not an idle scheduler)
                rcp = lambda m: obs["real_cp"].get("n%d" % m, 0)  # noqa: E731
                top = max(spec[m] for m in ready)
                rtop = max(rcp(m) for m in ready)
                if any(specs[m]["seq"] and (spec[m] >= top or rcp(m) >= rtop) for m in poss):
                    ok = True
            if ok and mode == "ALL_COMPLETED" and len(waited) >= 2 and not any(specs[m]["seq"] for m in inflight):
                # the scheduler will stay blocked until ALL of them finish: if one completion alone already
                # leaves a free slot next to a ready node, it idles in between (FIRST_COMPLETED is required)
                for t in waited:
                    dn = tnode[t]
                    if dn is None or specs[dn]["fail"]:
                        continue
                    obs2 = observed | {dn}
                    newly = [m for m in sorted(selected) if m not in started and active[m]
                             and all(active[p] and p in obs2 for p in preds_in(m))]
                    if newly and not any(specs[m]["seq"] for m in newly):
                        bad("C08", "blocked-until-all-finish", kind=kind, waited=[tnode[x] for x in waited],
                            first_done=dn, ready_then=newly, maxc=maxc)
                        break
            if not ok:
                sig = "idle-block"
                if kind == "conc" and prev_wait == "async":
                    sig = "mixed-kinds-second-wait"
                bad("C08", sig, kind=kind, mode=mode, inflight=sorted(inflight), ready=ready, maxc=maxc)
            for t in released:
                n = tnode[t]
                if n is None:
                    unknown_inflight.discard(t)
                    continue
                inflight.discard(n)
                if specs[n]["fail"]:
                    failure_seen = True
                    facts["failures_observed"] += 1
                else:
                    observed.add(n)
            prev_wait = kind
        elif k == "TIMEOUT":
            bad("C09", "node-never-released", node=e[2])

    # outcome
    must_fail = [i for i in sorted(selected) if active[i] and specs[i]["fail"] and
                 not any(failed[p] for p in preds_in(i))]
    counts = {}
    for n in started:
        counts[n] = counts.get(n, 0) + 1
    if outcome[0] == "hang":
        bad("C09", "hang", last_events=[x[:4] for x in R.log[-8:]])
    elif outcome[0] == "ok":
        if must_fail:
            bad("C14", "failure-swallowed", failing=must_fail)
        else:
            for i in range(sc["n"]):
                want = 1 if (i in selected and active[i]) else 0
                if counts.get(i, 0) != want:
                    bad("C03", "wrong-execution-count", node=i, got=counts.get(i, 0), want=want)
                    if sc.get("nested"):
                        bad("C20", "nested-dag-runs-other-nodes-than-its-inlined-body", node=i, got=counts.get(i, 0), want=want,
                            debug=bool(specs[i].get("dbg")), run_debug=bool(sc.get("run_debug")), debug_at_build=bool(sc.get("debug_at_build")))
                    if want == 1:
                        bad("C09", "returned-with-node-not-run", node=i)
                        if specs[i]["flag"] is not None:
                            bad("C10", "node-whose-flag-is-truthy-did-not-run", node=i, flag=specs[i]["flag"])
                    if specs[i].get("dbg"):
                        bad("C13", "debug-node-execution-count", node=i, got=counts.get(i, 0), want=want, flag=bool(sc.get("run_debug")))
            if sc.get("op") != "setup" and list(outcome[1]) != vals:
                bad("C01", "wrong-return-value", got=outcome[1], want=vals)
                if sc.get("nested"):
                    bad("C20", "nested-dag-returns-other-values-than-its-inlined-body", got=outcome[1], want=vals)
                if any(s_.get("dbg") for s_ in specs) and \
                        any(g_ != w_ for g_, w_, s_ in zip(outcome[1], vals, specs) if not s_.get("dbg")):
                    bad("C13", "production-value-differs-in-a-dag-with-debug-nodes", got=outcome[1], want=vals)
    else:
        exc = outcome[1]
        f = failing_node_of(exc)
        cause = exc.__cause__
        okexc = (f is not None and f in selected and specs[f]["fail"] and f in started and isinstance(cause, Boom)
                 and cause.args == (f,) and type(exc).__name__ == "TawaziBaseException")
        if okexc:
            import re
            m = re.search(r" at (.+):(\d+)$", str(exc))
            if not m or not m.group(1).endswith("slice_s.py"):
                bad("C14", "missing-call-location", message=str(exc))
        elif isinstance(exc, Boom) and exc.args and exc.args[0] in started:
            # the original exception is what the call raises when NO call location is known (hand-built ExecNodes); every
            # node of a traced scenario is created by a call in build()'s describing function: its location is known
            if not sc.get("handbuilt"):
                bad("C14", "bare-original-exception-although-location-known", node=exc.args[0], message=str(exc)[:100])
            elif not (specs[exc.args[0]]["fail"] and exc.args[0] in selected):
                bad("C14", "unattributable-exception", exc=type(exc).__name__, message=str(exc)[:200], must_fail=must_fail)
        else:
            bad("C14", "unattributable-exception", exc=type(exc).__name__, message=str(exc)[:200],
                must_fail=must_fail)
    return V, facts


def structural_hash(sc):
    import hashlib
    import json
    key = dict(sc)
    key = {k: v for k, v in key.items() if k != "script"}
    return hashlib.sha1(json.dumps(key, sort_keys=True).encode()).hexdigest()[:12]


# ---------------------------------------------------------------------------------------------
# C02 across a sub-DAG call: the value a parameter is SUPPLIED with is a dependency of the inner nodes that use it
# ---------------------------------------------------------------------------------------------
def nested_supply(rng):
    """An inner DAG `inner(p=<default>, q=<default>)` whose nodes use its parameters, called inside an outer DAG that supplies
    p from a (slow) producer node, a constant different from the default, or not at all.  The producer stays inside its
    function until a consumer has been entered or a short time has passed: a consumer entered before the producer returned
    is caught in the act.  Returns (description of the case, problems)."""
    import threading as _th
    from tawazi import dag as _dag
    how_p = rng.choice(["node", "node", "const", "omitted"])
    how_q = rng.choice(["node", "const", "omitted", "omitted"])
    maxc = rng.choice([1, 2, 3])
    is_async = rng.random() < 0.3
    kinds = {k_: rng.choice(list(RES)) for k_ in ("prod", "prod2", "c1", "c2")}
    prios = {k_: rng.choice([0, 1, 5]) for k_ in ("prod", "prod2", "c1", "c2")}
    consumer_entered = _th.Event()
    log, lock = [], _th.Lock()
    returned = set()

    def ev(*a):
        with lock:
            log.append(a)

    def prod():
        ev("enter", "prod")
        consumer_entered.wait(0.08)
        ev("exit", "prod")
        returned.add("prod")
        return ("produced", 1)

    def prod2():
        ev("enter", "prod2")
        consumer_entered.wait(0.04)
        ev("exit", "prod2")
        returned.add("prod2")
        return ("produced", 2)

    def c1(p):
        ev("enter", "c1", p, frozenset(returned))
        consumer_entered.set()
        return ("c1", p)

    def c2(p, q):
        ev("enter", "c2", (p, q), frozenset(returned))
        consumer_entered.set()
        return ("c2", p, q)
    for f_ in (prod, prod2, c1, c2):
        f_.__qualname__ = f_.__name__
    xprod, xprod2 = (xn(f_, resource=RES[kinds[f_.__name__]], priority=prios[f_.__name__]) for f_ in (prod, prod2))
    xc1, xc2 = (xn(f_, resource=RES[kinds[f_.__name__]], priority=prios[f_.__name__]) for f_ in (c1, c2))

    def inner(p=("default", "p"), q=("default", "q")):
        return xc1(p), xc2(p, q)
    inner_d = _dag(inner)

    def outer():
        args = []
        if how_p == "node":
            args.append(xprod())
        elif how_p == "const":
            args.append(("const", "p"))
        if how_q != "omitted" and how_p != "omitted":
            args.append(xprod2() if how_q == "node" else ("const", "q"))
        return inner_d(*args)
    outer.__qualname__ = outer.__name__ = "outer"
    d = threadsafe_make_dag(outer, maxc, is_async)
    want_p = dict(node=("produced", 1), const=("const", "p"), omitted=("default", "p"))[how_p]
    want_q = ("default", "q") if (how_q == "omitted" or how_p == "omitted") else dict(node=("produced", 2), const=("const", "q"))[how_q]
    case = dict(p=how_p, q=how_q, maxc=maxc, is_async=is_async, resources=kinds, priorities=prios)
    box = {}

    def target():
        try:
            box["r"] = asyncio.run(d()) if is_async else d()
        except BaseException as e:  # noqa: BLE001
            box["e"] = e
    th = _th.Thread(target=target, daemon=True)
    th.start()
    th.join(20)
    problems = []
    if th.is_alive():
        return case, ["the call did not return"]
    if "e" in box:
        return case, ["the call raised %s: %s" % (type(box["e"]).__name__, str(box["e"])[:120])]
    for e in log:
        if e[0] == "enter" and e[1] in ("c1", "c2"):
            got, done = e[2], e[3]
            want = want_p if e[1] == "c1" else (want_p, want_q)
            needs = ({"prod"} if how_p == "node" else set()) | ({"prod2"} if e[1] == "c2" and want_q == ("produced", 2) else set())
            if not needs <= done:
                problems.append("%s entered before %s returned" % (e[1], sorted(needs - done)))
            if got != want:
                problems.append("%s received %r, the call supplies %r" % (e[1], got, want))
    if box.get("r") != (("c1", want_p), ("c2", want_p, want_q)):
        problems.append("returned %r" % (box.get("r"),))
    return case, problems
