"""Slice for C17: concurrent awaits of one AsyncDAG in one loop, and event-loop liveness."""
import asyncio
import random
import threading
import time

import control  # noqa: F401
from tawazi import Resource, xn
from tawazi._dag.constructor import threadsafe_make_dag

import slice_s as S


def gen_gather(rng):
    sc = S.gen(rng, max_n=6, p_sel=0.0, p_fail=0.0, indexed_flags=False)
    sc["is_async"] = True
    for s in sc["specs"]:
        s["flag"] = None if (s["flag"] and s["flag"][0] == "c") else s["flag"]
    sc["k"] = rng.randint(2, 8)
    sc["gather_setup"] = rng.random() < 0.3
    r = rng.random()
    if r < 0.35:
        # async-thread pipelines of several STAGES: the awaits really interleave (each await point of one run lets the
        # others advance), and a run started later can finish while an earlier one still has nodes to submit
        for s in sc["specs"]:
            s["res"] = "a"
    elif r < 0.5:
        for s in sc["specs"]:
            s["res"] = rng.choice(["a", "a", "m"])
    # cold setup nodes (roots only: a setup node must not depend on a DAG argument)
    for s in sc["specs"]:
        s["setup"] = (not s["preds"]) and s["flag"] is None and rng.random() < 0.35
        if s["setup"]:
            s["ret"] = "t"
    return sc


def build_with_arg(sc):
    """Like slice_s.build, with one DAG argument that every root node receives."""
    def mk(i, s):
        def body(*args):
            control.node_enter(i, args)
            return S.value(i, s, args)
        body.__name__ = body.__qualname__ = "n%d" % i
        return xn(body, priority=s["prio"], is_sequential=s["seq"], resource=S.RES[s["res"]], setup=bool(s.get("setup")))
    nodes = [mk(i, s) for i, s in enumerate(sc["specs"])]

    def describe(a):
        vals = []
        for i, s in enumerate(sc["specs"]):
            kw = {}
            if s["flag"] is not None:
                kw["twz_active"] = vals[s["flag"][1]]
            args = [vals[j] for j in s["preds"]] or ([] if s.get("setup") else [a])
            vals.append(nodes[i](*args, **kw))
        return tuple(vals)
    describe.__qualname__ = describe.__name__ = "describe"
    return threadsafe_make_dag(describe, sc["maxc"], True)


def expected(sc, a):
    vals = []
    for i, s in enumerate(sc["specs"]):
        act = True if s["flag"] is None else bool(vals[s["flag"][1]])
        if not act:
            vals.append(None)
            continue
        args = [vals[j] for j in s["preds"]] or ([] if s.get("setup") else [a])
        vals.append(S.value(i, s, args))
    return tuple(vals)


def run_gather(sc, seed):
    d = build_with_arg(sc)
    k = sc["k"]

    async def main():
        aws = [d(1000 + j) for j in range(k)]
        if sc.get("gather_setup"):
            # explicit setup() awaits next to the calls (one first, one in the middle): whoever gets there first computes
            # the setup values, nobody fails, every call gets its own result
            aws = [d.setup()] + aws[:k // 2] + [d.setup()] + aws[k // 2:]
        res = await asyncio.gather(*aws)
        if sc.get("gather_setup"):
            res = [r for i_, r in enumerate(res) if i_ not in (0, 1 + k // 2)]     # drop the two setup() slots
        return res

    R, outcome = control.run_controlled(lambda: asyncio.run(main()), control.Script(rng=random.Random(seed)), timeout=25)
    LAST_RUN[0] = R
    return outcome


LAST_RUN = [None]


def run_of(args):
    """Which of the concurrent runs a node entry belongs to: the run's own argument (1000 + j) is inside what it received."""
    if isinstance(args, int) and not isinstance(args, bool) and args >= 1000:
        return args
    if isinstance(args, (tuple, list)):
        for a in args:
            r = run_of(a)
            if r is not None:
                return r
    return None


def sequential_overlaps(sc, R):
    """C05 inside each of several CONCURRENT executions of one DAG: while a sequential node of run r is running (entry to
    release), no other node OF RUN r is running; nodes of the other runs may.  Returns a list of problems."""
    open_, out = {}, []      # key (ticket or ('inline', node)) -> (run, node)
    for e in R.log:
        if e[1] == "enter":
            node, ticket, args = e[2], e[3], e[5]
            r = run_of(args)
            key = ticket if ticket is not None else ("inline", node)
            if r is not None:
                for (r2, n2) in open_.values():
                    if r2 == r and (sc["specs"][node]["seq"] or sc["specs"][n2]["seq"]):
                        out.append(dict(run=r, entered=node, running=n2,
                                        sequential=[x for x in (node, n2) if sc["specs"][x]["seq"]]))
            open_[key] = (r, node)
        elif e[1] == "exit":
            key = e[3] if len(e) > 3 and e[3] is not None else ("inline", e[2])
            open_.pop(key, None)
    return out


def liveness(kinds, maxc, timeout=1.5, reconfigure=False, sequential=False):
    """An async-thread node that only returns once a heartbeat coroutine has made progress while it runs.
    kinds: resources of the sibling nodes.  Returns (ok, detail)."""
    ticks = [0]
    started = threading.Event()
    progressed = threading.Event()
    done_a = threading.Event()
    verdict = {}

    def a_node():
        started.set()
        ok = progressed.wait(timeout)
        verdict["served"] = ok
        done_a.set()
        return "a"

    def quick():
        return "q"

    def t_node():
        # a thread node that is still running while the async-thread node waits for the loop
        done_a.wait(timeout * 2)
        return "t"

    a_node.__qualname__ = a_node.__name__ = "a_node"
    quick.__qualname__ = quick.__name__ = "quick"
    t_node.__qualname__ = t_node.__name__ = "t_node"
    # (sequential=True: the async-thread node that needs the loop is also a SEQUENTIAL node — it runs alone, and the loop
    # still serves other coroutines while it does)
    xa = xn(a_node, resource=Resource.async_thread, priority=1, is_sequential=sequential)
    xq = xn(quick, resource=Resource.async_thread, priority=2)
    xt = xn(t_node, resource=Resource.thread, priority=0)

    def describe():
        outs = [xq(), xa()]
        if "t" in kinds:
            outs.append(xt())
        return tuple(outs)
    describe.__qualname__ = describe.__name__ = "live"
    d = threadsafe_make_dag(describe, maxc, True)
    if reconfigure:
        # a reconfiguration that only restates priorities: every node keeps its resource
        d.config_from_dict({"nodes": {"a_node": {"priority": 1}, "quick": {"priority": 2, "is_sequential": False}}})

    async def heartbeat():
        while not done_a.is_set():
            await asyncio.sleep(0.002)
            if started.is_set():
                ticks[0] += 1
                if ticks[0] >= 5:
                    progressed.set()

    async def main():
        hb = asyncio.ensure_future(heartbeat())
        r = await d()
        done_a.set()
        await hb
        return r
    t0 = time.time()
    r = asyncio.run(main())
    return bool(verdict.get("served")), dict(result=r, ticks=ticks[0], wall=round(time.time() - t0, 2))


def liveness_on_failure(maxc, timeout=1.5):
    """Two async-thread nodes in flight; one raises while the other is still running and only returns once a
    heartbeat coroutine has made progress.  The failing call must not take the loop hostage either: the loop
    keeps serving other coroutines while the surviving node is still running.  Returns (ok, detail)."""
    ticks = [0]
    started = threading.Event()
    failed_seen = threading.Event()
    progressed = threading.Event()
    done_a = threading.Event()
    verdict = {}

    def a_node():
        started.set()
        failed_seen.wait(timeout)            # stay in flight until the sibling has failed ...
        ok = progressed.wait(timeout)        # ... and the loop has served the heartbeat since
        verdict["served"] = ok
        done_a.set()
        return "a"

    def f_node():
        started.wait(timeout)
        raise RuntimeError("boom")

    a_node.__qualname__ = a_node.__name__ = "a_node"
    f_node.__qualname__ = f_node.__name__ = "f_node"
    xa = xn(a_node, resource=Resource.async_thread, priority=2)
    xf = xn(f_node, resource=Resource.async_thread, priority=1)

    def describe():
        return xa(), xf()
    describe.__qualname__ = describe.__name__ = "live_fail"
    d = threadsafe_make_dag(describe, maxc, True)
    raised = {}

    async def heartbeat():
        n_after = 0
        while not done_a.is_set():
            await asyncio.sleep(0.002)
            if failed_seen.is_set():
                n_after += 1
                ticks[0] = n_after
                if n_after >= 5:
                    progressed.set()

    async def main():
        hb = asyncio.ensure_future(heartbeat())
        try:
            await d()
        except BaseException as e:  # noqa: BLE001
            raised["exc"] = type(e).__name__
        failed_seen.set()
        await hb
    t0 = time.time()
    asyncio.run(main())
    return bool(verdict.get("served")) and "exc" in raised, dict(raised=raised.get("exc"), ticks=ticks[0],
                                                                 wall=round(time.time() - t0, 2))


def liveness_sequential_drain(timeout=3.0):
    """A sequential node becomes the best candidate while an async-thread node AND a thread node are running.  The drain
    gives the hand to the event loop first (the async wait of the wait pair), so a heartbeat coroutine advances while both
    nodes are in flight; each of them returns only once it has seen the heartbeat advance.  Returns (ok, detail)."""
    ticks = [0]
    progressed = threading.Event()
    finished = threading.Event()
    verdict = {}

    def a_node():
        verdict["a_served"] = progressed.wait(timeout)
        return "a"

    def t_node():
        verdict["t_served"] = progressed.wait(timeout)
        return "t"

    def s_node():
        return "s"
    for f, nm in ((a_node, "a_node"), (t_node, "t_node"), (s_node, "s_node")):
        f.__qualname__ = f.__name__ = nm
    xa = xn(a_node, resource=Resource.async_thread, priority=3)
    xt = xn(t_node, resource=Resource.thread, priority=2)
    xs = xn(s_node, resource=Resource.thread, priority=1, is_sequential=True)

    def describe():
        return xa(), xt(), xs()
    describe.__qualname__ = describe.__name__ = "live_seq"
    d = threadsafe_make_dag(describe, 3, True)

    async def heartbeat():
        while not finished.is_set():
            await asyncio.sleep(0.002)
            ticks[0] += 1
            if ticks[0] >= 5:
                progressed.set()

    async def main():
        hb = asyncio.ensure_future(heartbeat())
        r = await d()
        finished.set()
        await hb
        return r
    t0 = time.time()
    r = asyncio.run(main())
    ok = bool(verdict.get("a_served")) and bool(verdict.get("t_served"))
    return ok, dict(result=r, ticks=ticks[0], served=dict(verdict), wall=round(time.time() - t0, 2))
