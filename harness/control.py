"""Schedule control and observation of the real tawazi scheduler.

Only the *standard library* is patched (ThreadPoolExecutor.submit, concurrent.futures.wait,
asyncio.wait, asyncio.ensure_future); nothing in /repo is touched.  Import this module BEFORE tawazi.
When no run is active (RUN is None) every patched function is the original one.

A run produces an event log:
  (seq, "dispatch", ticket, kind)          ticket drawn on the scheduler thread (kind thread|async)
  (seq, "enter", node, ticket|None, on_invoking_thread, args)
  (seq, "exit", node)
  (seq, "wait", kind, return_when, waited tickets, released tickets)
"""
import asyncio
import concurrent.futures as cf
import concurrent.futures._base as cfb
import concurrent.futures.thread as cft
import itertools
import threading

tls = threading.local()
RUN = None
WAIT_LIMIT = 4000      # a scheduler that calls the wait primitives this often in one run is spinning


class Kill(BaseException):
    """Raised inside the threads of a run that was declared hung, at their next call of a patched primitive:
    a scheduler that spins THROUGH the wait primitives can be stopped, so that the stream of scenarios may go on
    (one that spins without ever calling them cannot; the caller then stops exploring)."""


def _zombie_check():
    Rt = getattr(tls, "run", None)
    if Rt is not None and Rt.dead:
        raise Kill()


def _count_wait(R):
    R.nwaits += 1
    if R.nwaits > WAIT_LIMIT:
        R.dead = True
        R.spin = True
        raise Kill()


class Ticket:
    def __init__(self, kind, seq):
        self.id = seq
        self.kind = kind
        self.gate = threading.Event()
        self.node = None
        self.handle = None
        self.entered = False      # a worker thread has picked the work item up
        self.stalled = False      # ... or has not, although the scheduler already waits for it


class Script:
    """Source of the environment's choices (which in-flight nodes have finished when a wait returns).

    mode "random": drawn from rng.  mode "explicit": follows `decisions` (list of option indices),
    falling back to option 0; `trace` records (chosen index, number of options) for enumeration."""

    def __init__(self, rng=None, decisions=None):
        self.rng = rng
        self.decisions = list(decisions) if decisions is not None else None
        self.pos = 0
        self.trace = []

    def early(self, live):
        """Pooled nodes that finish WHILE the scheduler thread is busy running a main-thread node inline (their
        completion is a fact before the scheduler next looks).  Random mode only: enumeration keeps its own space."""
        if self.decisions is not None or self.rng is None or not live or self.rng.random() >= 0.3:
            return []
        live = sorted(live, key=lambda t: t.id)
        return self.rng.sample(live, self.rng.randint(1, len(live)))

    def choose(self, live, all_mode):
        live = sorted(live, key=lambda t: t.id)
        if not live:
            return []
        if all_mode:
            return live
        # options: all non-empty subsets, singletons first
        n = len(live)
        if self.decisions is None:
            k = 1 if self.rng.random() < 0.6 else self.rng.randint(1, n)
            return self.rng.sample(live, k)
        opts = []
        for size in range(1, n + 1):
            opts.extend(itertools.combinations(range(n), size))
        idx = self.decisions[self.pos] if self.pos < len(self.decisions) else 0
        self.pos += 1
        idx = min(idx, len(opts) - 1)
        self.trace.append((idx, len(opts)))
        return [live[i] for i in opts[idx]]


class Run:
    def __init__(self, script):
        self.script = script
        self.log = []
        self.tickets = []
        self.task_ticket = {}
        self.seq = itertools.count()
        self.lock = threading.Lock()
        self.main = threading.get_ident()
        self.abort = None  # set by on-line monitors
        self.dead = False
        self.spin = False
        self.nwaits = 0
        self.zombie_alive = False
        self.expired_in_a_row = 0
        self.executors = []
        self.retired = set()     # tickets of an EARLIER call made inside this run (they stay gated, nothing releases them early)

    def ev(self, *a):
        with self.lock:
            self.log.append((next(self.seq),) + a)

    def open_all(self):
        for t in self.tickets:
            t.gate.set()


_real_wait = cf.wait
_real_submit = cft.ThreadPoolExecutor.submit
_real_ef = asyncio.ensure_future
_real_await = asyncio.wait


def _submit(self, fn, *a, **k):
    _zombie_check()
    R = RUN
    if R is None:
        return _real_submit(self, fn, *a, **k)
    task = None
    try:
        task = asyncio.current_task()
    except RuntimeError:
        pass
    if task is not None and task in R.task_ticket:
        t = R.task_ticket[task]
    else:
        t = Ticket("thread", len(R.tickets))
        R.tickets.append(t)
        R.ev("dispatch", t.id, "thread")

    def wrapped(*aa, **kk):
        t.entered = True
        tls.ticket = t
        tls.run = R
        try:
            return fn(*aa, **kk)
        finally:
            tls.ticket = None

    fut = _real_submit(self, wrapped, *a, **k)
    if t.kind == "thread":
        t.handle = fut
    return fut


def _ensure_future(coro, *, loop=None):
    _zombie_check()
    R = RUN
    if R is None:
        return _real_ef(coro, loop=loop)
    t = Ticket("async", len(R.tickets))
    R.tickets.append(t)
    R.ev("dispatch", t.id, "async")
    task = _real_ef(coro, loop=loop)
    R.task_ticket[task] = t
    t.handle = task
    return task


EXPIRY_LIMIT = 3


def _expire(R):
    """Does this timed wait expire with nothing finished?  Yes, up to EXPIRY_LIMIT times in a row (fairness)."""
    R.expired_in_a_row += 1
    return R.expired_in_a_row <= EXPIRY_LIMIT


STALL_S = 2.0


def _pending(R, fs):
    return [t for t in R.tickets if t.handle in fs and not t.entered and not t.stalled and not t.handle.done()]


def _mark_stalled(R, pend):
    """Work items the scheduler handed to its pool that no worker has picked up although the scheduler already waits:
    the pool is smaller than the number of nodes the scheduler believes to be running."""
    if pend:
        R.ev("stalled", tuple(sorted(t.id for t in pend)))
        for t in pend:
            t.stalled = True
            t.gate.set()        # whenever it finally runs, it must not block the rest of the run


def _settle(R, fs):
    import time as _time
    t0 = _time.time()
    while True:
        pend = _pending(R, fs)
        if not pend or _time.time() - t0 > STALL_S:
            return _mark_stalled(R, pend)
        _time.sleep(0.001)


async def _asettle(R, fs):
    import time as _time
    t0 = _time.time()
    while True:
        await asyncio.sleep(0 if _time.time() - t0 < 0.01 else 0.001)      # let the submitted coroutines reach the pool
        pend = _pending(R, fs)
        if not pend or _time.time() - t0 > STALL_S:
            return _mark_stalled(R, pend)


def _choose(R, fs, mode):
    live = [t for t in R.tickets if t.handle in fs and not t.gate.is_set()]
    return R.script.choose(live, mode == cf.ALL_COMPLETED)


def _wait(fs, timeout=None, return_when=cf.ALL_COMPLETED):
    _zombie_check()
    R = RUN
    if R is None:
        return _real_wait(fs, timeout, return_when)
    if getattr(tls, "run", None) is R:
        _count_wait(R)
    fs = set(fs)
    if timeout is not None and _expire(R):
        # tawazi passes no timeout; if a wait can time out, the adversarial environment lets it expire
        # with nothing finished (the in-flight nodes simply keep running) -- a bounded number of times in a row:
        # every node finishes eventually, so a scheduler that polls is not starved for ever
        R.ev("wait", "conc", return_when, tuple(sorted(t.id for t in R.tickets if t.handle in fs)), (), "timeout")
        return _real_wait(fs, 0, return_when)
    R.expired_in_a_row = 0
    timeout = None
    _settle(R, fs)
    # tickets released early (while an inline node ran) are done already: this wait reports them whatever else it does
    already = [t for t in R.tickets if t.handle in fs and t.gate.is_set() and not t.stalled]
    chosen = [] if (already and return_when != cf.ALL_COMPLETED) else _choose(R, fs, return_when)
    R.ev("wait", "conc", return_when,
         tuple(sorted(t.id for t in R.tickets if t.handle in fs)), tuple(sorted(t.id for t in chosen + already)))
    for t in chosen:
        t.gate.set()
    if chosen or already:
        _real_wait([t.handle for t in chosen + already])
    return _real_wait(fs, timeout, return_when)


async def _await(fs, *, timeout=None, return_when=asyncio.ALL_COMPLETED):
    _zombie_check()
    R = RUN
    if R is None:
        return await _real_await(fs, timeout=timeout, return_when=return_when)
    if getattr(tls, "run", None) is R:
        _count_wait(R)
    fs = set(fs)
    if timeout is not None and _expire(R):
        R.ev("wait", "async", return_when, tuple(sorted(t.id for t in R.tickets if t.handle in fs)), (), "timeout")
        await asyncio.sleep(0)
        return await _real_await(fs, timeout=0, return_when=return_when)
    R.expired_in_a_row = 0
    timeout = None
    await _asettle(R, fs)
    chosen = _choose(R, fs, return_when)
    R.ev("wait", "async", return_when,
         tuple(sorted(t.id for t in R.tickets if t.handle in fs)), tuple(sorted(t.id for t in chosen)))
    for t in chosen:
        t.gate.set()
    if chosen:
        await _real_await([t.handle for t in chosen], return_when=asyncio.ALL_COMPLETED)
    return await _real_await(fs, timeout=timeout, return_when=return_when)


_real_tpe_init = cft.ThreadPoolExecutor.__init__


def _tpe_init(self, *a, **k):
    _real_tpe_init(self, *a, **k)
    R = RUN
    if R is not None:
        R.executors.append(self)      # a failing call leaves its pool open (idle workers would pile up run after run)


cft.ThreadPoolExecutor.__init__ = _tpe_init
cft.ThreadPoolExecutor.submit = _submit
asyncio.ensure_future = _ensure_future
cf.wait = _wait
cfb.wait = _wait
asyncio.wait = _await


def node_enter(i, args=None):
    """Called first thing by every generated node function."""
    R = getattr(tls, "run", None)
    t = getattr(tls, "ticket", None)
    if R is None:
        return None
    R.ev("enter", i, None if t is None else t.id, threading.get_ident() == R.main, args)
    if t is None and threading.get_ident() == R.main:
        # an inline (main-thread) node: some pooled thread nodes may finish while the scheduler is busy here
        live = [x for x in R.tickets if x.kind == "thread" and x.handle is not None and not x.gate.is_set()
                and x.node is not None and x.id not in R.retired]
        early = R.script.early(live)
        if early:
            R.ev("early", tuple(sorted(x.id for x in early)))
            for x in early:
                x.gate.set()
            _real_wait([x.handle for x in early], timeout=10)
    if t is not None:
        t.node = i
        if not t.gate.wait(30):
            R.ev("TIMEOUT", i)
    R.ev("exit", i, None if t is None else t.id)
    return t


def run_controlled(fn, script, timeout=40):
    """Run fn() (which invokes a DAG) on a fresh thread under `script`.
    Returns (run, outcome) with outcome = ("ok", value) | ("exc", exception) | ("hang",)."""
    global RUN
    R = Run(script)
    res = {}

    def target():
        R.main = threading.get_ident()
        tls.run = R
        tls.ticket = None
        try:
            res["o"] = ("ok", fn())
        except BaseException as e:  # noqa: BLE001
            res["o"] = ("exc", e)

    RUN = R
    try:
        th = threading.Thread(target=target, daemon=True)
        th.start()
        th.join(timeout)
        hung = th.is_alive()
        if hung:
            R.dead = True       # its threads are killed at their next call of a patched primitive
        else:
            # the call is over: every work item it handed to a pool must have been picked up by a worker by now
            _settle(R, {t.handle for t in R.tickets if t.handle is not None})
        R.open_all()
        if hung:
            th.join(5)
            R.zombie_alive = th.is_alive()
            return R, ("hang",)
        if R.spin or isinstance(res["o"][1], Kill):
            return R, ("hang",)
        return R, res["o"]
    finally:
        R.open_all()
        RUN = None
        for ex in R.executors:
            try:
                ex.shutdown(wait=False, cancel_futures=True)     # idle workers of a pool left open by a failed call exit
            except BaseException:  # noqa: BLE001
                pass
