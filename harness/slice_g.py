"""Slices G-cp and G-sel: compound priorities and sub-graph selection of the real code vs the Lean
graph layer (lean/Drivers/Graph.lean), plus direct monitors for C06/C07/C12/C13."""
import asyncio
import random

import control  # noqa: F401
import networkx as nx
from tawazi import cfg as twz_cfg
from tawazi import xn
from tawazi._dag.constructor import threadsafe_make_dag

COUNTS = {}


def gen(rng, max_n=7, with_debug=True, with_setup=True, with_tags=True):
    n = rng.randint(1, max_n)
    dens = rng.choice([0.2, 0.4, 0.6])
    specs = []
    for i in range(n):
        preds = [j for j in range(i) if rng.random() < dens]
        specs.append(dict(preds=preds, prio=rng.choice([0, 1, 2, 3, -1, 5, -4, 10, 100]),
                          debug=with_debug and rng.random() < 0.25,
                          setup=False, const=rng.random() < 0.25, tag=None,
                          idx=[p for p in preds if rng.random() < 0.3],     # predecessors used as result[0]
                          ret_idx=rng.random() < 0.25))                    # returned as result[0]
    if rng.random() < 0.3 and n >= 4:   # diamond / shared descendants on purpose
        specs[n - 1]["preds"] = sorted(set(specs[n - 1]["preds"]) | {n - 2, n - 3})
        specs[n - 2]["preds"] = sorted(set(specs[n - 2]["preds"]) | {0})
        specs[n - 3]["preds"] = sorted(set(specs[n - 3]["preds"]) | {0})
    if with_debug and rng.random() < 0.35:
        # motif: x -> A, x -> B, D*(B), E*(A, D*): E must not be pulled into a run of A alone, nor D without B
        b0 = len(specs)
        mk_ = lambda preds, debug: dict(preds=preds, prio=rng.choice([0, 1, 2]), debug=debug, setup=False,   # noqa: E731
                                        const=False, tag=None, idx=[], ret_idx=False)
        specs.extend([mk_([], False), mk_([b0], False), mk_([b0], False), mk_([b0 + 2], True), mk_([b0 + 1, b0 + 3], True)])
        n = len(specs)
    if with_debug and rng.random() < 0.3:
        # motif: two independent sources L, R -> join J -> {report, probe*}: a run rooted at L only and targeted at J
        # must not bring R along when probe* is pulled in
        b0 = len(specs)
        mk_ = lambda preds, debug: dict(preds=preds, prio=rng.choice([0, 1, 2]), debug=debug, setup=False,   # noqa: E731
                                        const=False, tag=None, idx=[], ret_idx=False)
        specs.extend([mk_([], False), mk_([], False), mk_([b0, b0 + 1], False), mk_([b0 + 2], True)])
        if rng.random() < 0.5:
            specs.append(mk_([b0 + 2], False))
        n = len(specs)
    for i, s in enumerate(specs):
        if with_setup and not s["debug"] and rng.random() < 0.2 and all(specs[p]["setup"] for p in s["preds"]):
            s["setup"] = True
    for i, s in enumerate(specs):       # a non-debug node must not depend on a debug node
        if not s["debug"]:
            s["preds"] = [p for p in s["preds"] if not specs[p]["debug"]]
        if s["setup"]:
            s["preds"] = [p for p in s["preds"] if specs[p]["setup"]]
    if with_tags:
        # a tag may equal another node's id; a tag may CONTAIN another tag or a node id as a substring ("tA" in "tAB",
        # "n1" in "n10"): an alias denotes the nodes carrying exactly that tag, never a tag it is part of
        pool = ["tA", "tB", "n0", "n1", "tAB", "n10"]
        for s in specs:
            r = rng.random()
            if r < 0.2:
                s["tag"] = rng.choice(pool)
            elif r < 0.3:
                s["tag"] = tuple(rng.sample(pool, 2))
            s["tag_at_call"] = s["tag"] is not None and rng.random() < 0.4
    return dict(n=len(specs), specs=specs, is_async=rng.random() < 0.2)


def make_node(i, s, inst):
    def body(*args):
        COUNTS[(inst, i)] = COUNTS.get((inst, i), 0) + 1
        return ("n%d" % i,) + tuple(args)

    body.__name__ = body.__qualname__ = "n%d" % i
    kw = dict(priority=s["prio"], debug=s["debug"], setup=s["setup"])
    if s.get("res"):
        from tawazi import Resource as _R
        kw["resource"] = dict(t=_R.thread, a=_R.async_thread, m=_R.main_thread)[s["res"]]
    if s["tag"] is not None and not s.get("tag_at_call"):
        kw["tag"] = s["tag"]
    return xn(body, **kw)


def build(sc, inst=0, maxc=2):
    nodes = [make_node(i, s, inst) for i, s in enumerate(sc["specs"])]

    def describe():
        vals = []
        for i, s in enumerate(sc["specs"]):
            args = [(vals[j][0] if j in s.get("idx", []) else vals[j]) for j in s["preds"]]
            if s["const"]:
                args.append(7)
            ckw = {}
            if s["tag"] is not None and s.get("tag_at_call"):
                ckw["twz_tag"] = s["tag"]          # the tag given at the call site instead of the decorator
            vals.append(nodes[i](*args, **ckw))
        return tuple((v[0] if sc["specs"][i].get("ret_idx") else v) for i, v in enumerate(vals))

    describe.__qualname__ = describe.__name__ = "describe"
    return threadsafe_make_dag(describe, maxc, sc["is_async"]), nodes


def extract(d, toposort=False):
    """The real id-graph in recording order: (ids, preds as index lists, priorities, debug flags).
    toposort=True: list the ids in a topological order instead (composed DAGs keep no recording order)."""
    ids_ = list(d.exec_nodes.keys())
    if toposort:
        import networkx as _nx
        ids_ = list(_nx.lexicographical_topological_sort(d.graph_ids, key=lambda x: ids_.index(x)))
    pos = {x: k for k, x in enumerate(ids_)}
    preds, topo_ok = [], True
    for x in ids_:
        ps = sorted(pos[p] for p in d.graph_ids.predecessors(x))
        if any(p >= pos[x] for p in ps):
            topo_ok = False
        preds.append(ps)
    prio = [d.exec_nodes[x].priority for x in ids_]
    debug = [bool(d.exec_nodes[x].debug) for x in ids_]
    return ids_, pos, preds, prio, debug, topo_ok


def graph_block(qid, preds, prio, debug, queries, names=None):
    """names: per position (id string, list of tags) -- for alias queries (`asel`), resolved by GM.resolveAll"""
    out = ["Q %s %d" % (qid, len(preds))]
    for k in range(len(preds)):
        out.append("N %d %d %s" % (prio[k], int(debug[k]), " ".join(map(str, preds[k]))))
    for k, (nid, tags) in enumerate(names or []):
        out.append("I %d %s %s" % (k, nid, " ".join(tags)))
    out.extend(queries)
    out.append("E")
    return "\n".join(out) + "\n"


def fmt_set(l):
    return "-" if l is None else " ".join(map(str, l)) if l else ""


def sel_query(R, X, T, dbg):
    return "sel %s ; %s ; %s ; %d" % (fmt_set(R) or "", fmt_set(X) or "", fmt_set(T) or "", int(dbg))


def alias_tokens(aliases, P):
    """protocol form of an alias list: r<position> | s:<string>  (None = no restriction)"""
    if aliases is None:
        return "-"
    return " ".join(("r%d" % P[a]) if kind == "ref" else ("s:%s" % a) for kind, a in aliases)


def asel_query(R, X, T, dbg, P):
    return "asel %s ; %s ; %s ; %d" % (alias_tokens(R, P), alias_tokens(X, P), alias_tokens(T, P), int(dbg))


def scenario_names(sc, ids_, P):
    """(id, tags) per position, from the SCENARIO (not from the real graph object's tables)"""
    out = [(x, []) for x in ids_]
    for i, s_ in enumerate(sc["specs"]):
        t = s_["tag"]
        out[P[i]] = (ids_[P[i]], [] if t is None else ([t] if isinstance(t, str) else list(t)))
    return out


def resolve_alias(sc, alias):
    """Documented alias resolution over scenario node indices: ("ref", i) | ("str", s)."""
    kind, a = alias
    if kind == "ref":
        return [a]
    tagged = [i for i, s in enumerate(sc["specs"])
              if s["tag"] is not None and (a == s["tag"] or (isinstance(s["tag"], tuple) and a in s["tag"]))]
    if tagged:
        return tagged
    if a.startswith("n") and a[1:].isdigit() and int(a[1:]) < sc["n"]:
        return [int(a[1:])]
    raise ValueError(a)


def alias_for(rng, sc, i):
    s = sc["specs"][i]
    forms = [("ref", i), ("str", "n%d" % i)]
    if s["tag"] is not None:
        forms.append(("str", s["tag"] if isinstance(s["tag"], str) else rng.choice(s["tag"])))
    return rng.choice(forms)


def to_real_alias(nodes_by_id, d, alias):
    kind, a = alias
    return d.exec_nodes["n%d" % a] if kind == "ref" else a


def nxg(preds):
    g = nx.DiGraph()
    g.add_nodes_from(range(len(preds)))
    for i, ps in enumerate(preds):
        for p in ps:
            g.add_edge(p, i)
    return g


def py_closure(preds, R, X, T):
    g = nxg(preds)
    out = set(range(len(preds)))
    if R is not None:
        out = set(R)
        for r in R:
            out |= nx.descendants(g, r)
    if X is not None:
        for x in X:
            out -= {x} | nx.descendants(g, x)
    if T is not None:
        anc = set(T)
        for t in T:
            anc |= nx.ancestors(g, t)
        out &= anc
    return out


def gen_selection(rng, sc, pos, preds):
    """A selection within the property's precondition, expressed through aliases; plus malformed ones."""
    n = sc["n"]
    g = nxg(preds)
    node_pos = [pos["n%d" % i] for i in range(n)]
    roots = [i for i in range(n) if g.in_degree(node_pos[i]) == 0]
    malformed = None
    R = X = T = None
    if roots and rng.random() < 0.35:
        R = [alias_for(rng, sc, i) for i in rng.sample(roots, rng.randint(1, len(roots)))]
    r = rng.random()
    if r < 0.06:
        nonroots = [i for i in range(n) if i not in roots]
        if nonroots:
            R = [("str", "n%d" % rng.choice(nonroots))]
            malformed = "notroot"
    elif r < 0.10:
        T = [("str", "nope")]
        malformed = "alias"
    return R, X, T, malformed


def call(d, obj, *a):
    r = obj(*a)
    return asyncio.run(r) if asyncio.iscoroutine(r) else r


def set_debug(flag):
    twz_cfg.RUN_DEBUG_NODES = bool(flag)


def malformed_builds(kinds):
    """DAG descriptions that must be rejected when built: a setup node depending on a non-setup node or on
    a DAG argument, a non-debug node depending on a debug node — through every way a dependency can arise
    (positional, keyword, activation flag, indexed result, operator expression).  Yields (kind, how, accepted?)."""
    def mk(name, **kw):
        def f(*a, **k):
            return (name,) + a
        f.__name__ = f.__qualname__ = name
        return xn(f, **kw)
    for dep_kind in kinds:
        for how in ("pos", "kw", "flag", "indexed", "via-op", "second-arg"):
            a = mk("a", debug=(dep_kind == "normal-on-debug"))
            b = mk("b", setup=dep_kind.startswith("setup"))
            c = mk("c", setup=dep_kind.startswith("setup"), debug=False)

            def describe(x, dep_kind=None, how=None):
                raise NotImplementedError

            def make(dep_kind=dep_kind, how=how, a=a, b=b, c=c):
                def describe(x):
                    src = x if dep_kind == "setup-on-arg" else a()
                    ok = c()
                    if how == "pos":
                        return b(src)
                    if how == "kw":
                        return b(k=src)
                    if how == "flag":
                        return b(twz_active=src)
                    if how == "indexed":
                        return b(src[0])
                    if how == "via-op":
                        return b(src == 1)
                    return b(ok, src)
                describe.__name__ = describe.__qualname__ = "describe"
                return describe
            try:
                threadsafe_make_dag(make(), 1, False)
                yield dep_kind, how, True
            except BaseException:  # noqa: BLE001
                yield dep_kind, how, False
            if dep_kind == "setup-on-arg":
                # the DAG argument may have a DEFAULT value: it is an argument all the same (every call may pass another
                # value), never a constant of the description
                def make_d(how=how, b=b, c=c):
                    def describe(x=5):
                        ok = c()
                        if how == "pos":
                            return b(x)
                        if how == "kw":
                            return b(k=x)
                        if how == "flag":
                            return b(twz_active=x)
                        if how == "indexed":
                            return b(x[0])
                        if how == "via-op":
                            return b(x == 1)
                        return b(ok, x)
                    describe.__name__ = describe.__qualname__ = "describe"
                    return describe
                try:
                    threadsafe_make_dag(make_d(), 1, False)
                    yield dep_kind + "(defaulted)", how, True
                except BaseException:  # noqa: BLE001
                    yield dep_kind + "(defaulted)", how, False
        if dep_kind != "normal-on-debug":
            continue
        # the dependency may also arise through a DAG called inside the DAG: its argument stubs and (with
        # twz_active on the call) every one of its nodes come to depend on the debug node
        for how in ("nested-arg", "nested-flag-no-params", "nested-flag-with-arg", "nested-flag-defaulted-param"):
            a = mk("a", debug=True)
            b = mk("b")
            c = mk("c")

            def inner0(b=b):
                return b()

            def inner1(p, b=b):
                return b(p)

            def inner1d(p=3, b=b):
                return b(p)
            import inspect as _inspect
            for f_ in (inner0, inner1, inner1d):
                f_.__qualname__ = f_.__name__
                # the helper default `b=b` must not become a DAG parameter
                f_.__signature__ = _inspect.Signature([p_ for n_, p_ in _inspect.signature(f_).parameters.items() if n_ != "b"])
            try:
                i0, i1, i1d = (threadsafe_make_dag(f_, 1, False) for f_ in (inner0, inner1, inner1d))
            except BaseException:  # noqa: BLE001
                continue

            def describe(x, how=how, a=a, c=c, i0=i0, i1=i1, i1d=i1d):
                src = a()
                ok = c()
                if how == "nested-arg":
                    return i1(src)
                if how == "nested-flag-no-params":
                    return i0(twz_active=src)
                if how == "nested-flag-with-arg":
                    return i1(ok, twz_active=src)
                return i1d(twz_active=src)
            describe.__name__ = describe.__qualname__ = "describe"
            describe.__signature__ = _inspect.Signature([_inspect.Parameter("x", _inspect.Parameter.POSITIONAL_OR_KEYWORD)])
            try:
                threadsafe_make_dag(describe, 1, False)
                yield dep_kind, how, True
            except BaseException:  # noqa: BLE001
                yield dep_kind, how, False


# ---------------------------------------------------------------------------------------------
# descriptions that may break the build-time dependency rules (C11 / C13: "rejected when it is built")
# ---------------------------------------------------------------------------------------------
def gen_description(rng, max_n=6):
    """A random description with debug / setup marks and NO sanitising: a non-debug node may depend on a debug node, a
    setup node on an ordinary node or on the DAG's argument — through a positional argument, a keyword argument, an
    indexed result or the activation flag."""
    n = rng.randint(2, max_n)
    dens = rng.choice([0.25, 0.45])
    p_debug, p_setup = rng.choice([(0.3, 0.0), (0.0, 0.35), (0.25, 0.25), (0.15, 0.15)])
    specs = []
    for i in range(n):
        preds = [j for j in range(i) if rng.random() < dens]
        debug = rng.random() < p_debug
        setup = (not debug) and rng.random() < p_setup
        how = {str(j): rng.choice(["pos", "pos", "kw", "idx", "flag"]) for j in preds}
        if sum(1 for h in how.values() if h == "flag") > 1:      # one activation flag at most
            seen = False
            for j in sorted(how):
                if how[j] == "flag":
                    how[j] = "flag" if not seen else "pos"
                    seen = True
        specs.append(dict(preds=preds, how=how, debug=debug, setup=setup, const=rng.random() < 0.25, arg=rng.random() < 0.15))
    if rng.random() < 0.5:
        # mostly valid: repair with the rules, then (maybe) break exactly one dependency
        for s in specs:
            if not s["debug"]:
                s["preds"] = [p for p in s["preds"] if not specs[p]["debug"]]
            if s["setup"]:
                s["preds"] = [p for p in s["preds"] if specs[p]["setup"]]
                s["arg"] = False
            s["how"] = {k: v for k, v in s["how"].items() if int(k) in s["preds"]}
    # the DAG's argument may be required or defaulted: the rules do not care
    return dict(n=n, specs=specs, arg_default=rng.random() < 0.5)


def description_rules(sc):
    """The documented rules evaluated on the description: (debug rule broken, setup rule broken)."""
    debug_bad = setup_bad = False
    for s in sc["specs"]:
        for p in s["preds"]:
            if sc["specs"][p]["debug"] and not s["debug"]:
                debug_bad = True
            if s["setup"] and not sc["specs"][p]["setup"]:
                setup_bad = True
        if s["setup"] and s["arg"]:
            setup_bad = True
    return debug_bad, setup_bad


def build_description(sc):
    """Describe it with the real decorators.  Returns 'ACCEPT' | 'REFUSE' | 'EXC:<type>'."""
    def mk(i, s):
        def f(*a, **k):
            return ("n%d" % i,) + a
        f.__name__ = f.__qualname__ = "n%d" % i
        return xn(f, debug=s["debug"], setup=s["setup"])
    nodes = [mk(i, s) for i, s in enumerate(sc["specs"])]

    def describe(x):
        vals = []
        for i, s in enumerate(sc["specs"]):
            pos, kw = [], {}
            for j in s["preds"]:
                h = s["how"].get(str(j), "pos")
                if h == "pos":
                    pos.append(vals[j])
                elif h == "kw":
                    kw["k%d" % j] = vals[j]
                elif h == "idx":
                    pos.append(vals[j][0])
                else:
                    kw["twz_active"] = vals[j]
            if s["const"]:
                pos.append(7)
            if s["arg"]:
                pos.append(x)
            vals.append(nodes[i](*pos, **kw))
        return tuple(vals)
    if sc.get("arg_default"):
        describe_required = describe

        def describe(x=5):      # noqa: F811
            return describe_required(x)
    describe.__name__ = describe.__qualname__ = "described"
    try:
        threadsafe_make_dag(describe, 2, False)
        return "ACCEPT"
    except BaseException as e:  # noqa: BLE001
        if type(e).__name__ in ("TawaziBaseException", "TawaziUsageError"):
            return "REFUSE"
        return "EXC:" + type(e).__name__


def description_block(qid, sc):
    """Graph-driver block: positions 0..n-1 = the nodes, then one holder per constant, then the DAG argument's holder."""
    n = sc["n"]
    preds = [list(s["preds"]) for s in sc["specs"]]
    consts = []
    for i, s in enumerate(sc["specs"]):
        if s["const"]:
            consts.append(n + len(consts))
            preds[i].append(consts[-1])
    arg_holder = n + len(consts)
    for i, s in enumerate(sc["specs"]):
        if s["arg"]:
            preds[i].append(arg_holder)
    total = arg_holder + 1
    preds += [[] for _ in range(total - n)]
    debug = [s["debug"] for s in sc["specs"]] + [False] * (total - n)
    setup = [int(s["setup"]) for s in sc["specs"]] + [0] * (total - n)
    const = [0] * n + [1] * len(consts) + [0]
    q = "valid %s ; %s" % (" ".join(map(str, setup)), " ".join(map(str, const)))
    return graph_block(qid, preds, [0] * total, debug, [q])
