"""Slice H: histories of operations on DAG instances vs the Lean history model (lean/Drivers/Hist.lean)."""
import asyncio
import copy
import os
import pickle
import random
import tempfile

import control  # noqa: F401
import networkx as nx
from tawazi import xn
from tawazi._dag.constructor import threadsafe_make_dag
from tawazi.errors import TawaziUsageError

COUNTS = {}
SCRIPT_SEED = [0]
CUR = [None]   # instance tag under which node executions are counted


class Boom13(Exception):
    pass


UNIQ = [0]
FAIL_NOW = set()    # (instance tag, node): setup nodes that raise when entered (an operation that fails for an outside reason)


def gen(rng, max_n=7):
    n = rng.randint(2, max_n)
    specs = []
    for i in range(n):
        preds = [j for j in range(i) if rng.random() < 0.35]
        specs.append(dict(preds=preds, setup=rng.random() < 0.35, usearg=False, failx=False,
                          retnone=rng.random() < 0.2))
    for i, s in enumerate(specs):
        if s["setup"]:
            s["preds"] = [p for p in s["preds"] if specs[p]["setup"]]
        else:
            s["usearg"] = rng.random() < 0.5
            s["failx"] = s["usearg"] and rng.random() < 0.4
    for i, s in enumerate(specs):
        s["flag"] = None
        s["deep"] = []
        if s["setup"]:
            continue
        # an activation flag: the whole result of an earlier node (a tuple = truthy, None = falsy)
        if i > 0 and rng.random() < 0.2:
            s["flag"] = rng.randrange(i)
        # a use  v[-2][0]  of a predecessor that receives the DAG arguments: fine when x is a tuple, a bare
        # TypeError at argument resolution (not inside any node function) when x is an int
        cands = [j for j in s["preds"] if specs[j]["usearg"] and not specs[j].get("retnone")]
        if cands and rng.random() < 0.25:
            s["deep"] = [rng.choice(cands)]
            # v[-2][0]: x a tuple is fine, x an int raises AttributeError;  v[-2]["k"]: x a dict is fine, x a tuple
            # raises TypeError (the two bare exception types argument resolution produces)
            s["deepkey"] = rng.choice(["i0", "sk"])
    return dict(n=n, specs=specs, is_async=rng.random() < 0.3)


def make_node(i, s):
    def body(*a):
        COUNTS[(CUR[0], i)] = COUNTS.get((CUR[0], i), 0) + 1
        control.node_enter(i)
        if (s["failx"] and s["usearg"] and a[-2] == 13) or (CUR[0], i) in FAIL_NOW:
            raise Boom13(i)
        return None if s.get("retnone") else ("n%d" % i,) + tuple(a)

    body.__name__ = body.__qualname__ = "n%d" % i
    return xn(body, setup=s["setup"])


def build(sc, maxc=2):
    nodes = [make_node(i, s) for i, s in enumerate(sc["specs"])]

    def describe(x, y=7):
        vals = []
        for i, s in enumerate(sc["specs"]):
            dk = 0 if s.get("deepkey", "i0") == "i0" else "k"
            args = [(vals[j][-2][dk] if j in s.get("deep", []) else vals[j]) for j in s["preds"]]
            if s["usearg"]:
                args += [x, y]
            kw = {}
            if s.get("flag") is not None:
                kw["twz_active"] = vals[s["flag"]]
            vals.append(nodes[i](*args, **kw))
        return tuple(vals)

    describe.__qualname__ = describe.__name__ = "describe"
    return threadsafe_make_dag(describe, maxc, sc["is_async"])


def nxg(sc):
    g = nx.DiGraph()
    g.add_nodes_from(range(sc["n"]))
    for i, s in enumerate(sc["specs"]):
        for p in s["preds"]:
            g.add_edge(p, i)
        if s.get("flag") is not None:
            g.add_edge(s["flag"], i)        # the producer of the activation flag is a dependency
    return g


def anc_closure(sc, T):
    g = nxg(sc)
    out = set(T)
    for t in T:
        out |= nx.ancestors(g, t)
    return sorted(out)


def run_sync(x):
    return asyncio.run(x) if asyncio.iscoroutine(x) else x


def enc(v):
    if v is None:
        return "N"
    if isinstance(v, bool):
        return "T" if v else "F"
    if isinstance(v, int):
        return "I %d" % v
    if isinstance(v, str):
        return "S %s" % v
    if isinstance(v, tuple):
        return ("( %d %s" % (len(v), " ".join(enc(x) for x in v))).strip()
    if isinstance(v, dict):
        return ("{ %d %s" % (len(v), " ".join("%s %s" % (k, enc(x)) for k, x in v.items()))).strip()
    raise TypeError(v)


def render(v):
    if v is None:
        return "N"
    if isinstance(v, bool):
        return "T" if v else "F"
    if isinstance(v, int):
        return "I%d" % v
    if isinstance(v, str):
        return "S%s" % v
    if isinstance(v, tuple):
        return "(" + ",".join(render(x) for x in v) + ")"
    if isinstance(v, dict):
        return "{" + ",".join("%s:%s" % (k, render(x)) for k, x in v.items()) + "}"
    return "?" + repr(v)


def header(hid, sc):
    out = ["H %s %d" % (hid, sc["n"])]
    for s in sc["specs"]:
        out.append("N %d %d %d %d %s %s" % (int(s["setup"]), int(s["failx"]), int(s["usearg"]), int(bool(s.get("retnone"))),
                                            "-" if s.get("flag") is None else s["flag"],
                                            " ".join((("%d~" % p) + ("k" if s.get("deepkey") == "sk" else "") if p in s.get("deep", [])
                                                      else str(p)) for p in s["preds"])))
    return out


def gen_ops(rng, sc, length, kinds):
    """Operation scripts (instance ids are indices into the list of live instances)."""
    ops = []
    ninst = 1
    xobj_inst = []     # executor objects created so far: the instance each belongs to
    n = sc["n"]
    setups = [i for i, s in enumerate(sc["specs"]) if s["setup"]]
    if "cache" in kinds and "xmk" in kinds and rng.random() < 0.25:
        # directed: a partial caching run writes a shared path; a restart object is BUILT on it; the instance then changes
        # (setup / call); the object is CALLED afterwards: it starts from the DAG's results of that moment + the file
        a0 = rng.choice([(1,), (2, 3), (5, 6)])
        ops.append(dict(op="cache", inst=0, mode=rng.choice(["target", "deps", "deps"]),
                        T=sorted(rng.sample(range(n), rng.randint(1, min(2, n)))), args=a0,
                        restart=rng.choice(["same", "whole"]), omit_default=rng.random() < 0.5, slot=0))
        ops.append(dict(op="xmk", inst=0, T=None if rng.random() < 0.5 else sorted(rng.sample(range(n), rng.randint(1, min(3, n)))),
                        xid=0, from_slot=0))
        xobj_inst.append(0)
        ops.append(rng.choice([dict(op="setup", inst=0, T=None), dict(op="call", inst=0, args=a0),
                               dict(op="setup", inst=0, T=sorted(rng.sample(range(n), 1)))]))
        ops.append(dict(op="xrun", inst=0, xid=0, args=a0))
    elif "cache" in kinds and "xmk" in kinds and rng.random() < 0.15:
        # directed: the restart object is built BEFORE its file exists; a caching run writes the file; the object is called:
        # the file is read when the object is CALLED
        UNIQ[0] += 1
        slot_ = 100 + UNIQ[0]
        a0 = rng.choice([(1,), (2, 3), (5, 6)])
        ops.append(dict(op="xmk", inst=0, T=None if rng.random() < 0.5 else sorted(rng.sample(range(n), rng.randint(1, min(3, n)))),
                        xid=0, from_slot=slot_, early=True))
        xobj_inst.append(0)
        ops.append(dict(op="cache", inst=0, mode=rng.choice(["whole", "target", "deps"]),
                        T=sorted(rng.sample(range(n), rng.randint(1, min(2, n)))), args=a0,
                        restart=rng.choice(["same", "whole"]), omit_default=rng.random() < 0.5, slot=slot_))
        ops.append(dict(op="xrun", inst=0, xid=0, args=a0))
    if "cache" in kinds and "xmk" in kinds and "fork" in kinds and setups and not ops and rng.random() < 0.2:
        # directed: a COLD copy of the instance restarts from a file the original wrote (setup values included): what it takes
        # from the file for a setup node IS that instance's value of the node from then on — later runs of the copy see it
        a0 = rng.choice([(1,), (2, 3), (5, 6)])
        ops.append(dict(op="fork", inst=0))
        ninst += 1
        ops.append(dict(op="cache", inst=0, mode="whole", T=[0], args=a0, restart="whole", omit_default=False, slot=0))
        ops.append(dict(op="xmk", inst=1, T=None if rng.random() < 0.6 else sorted(rng.sample(range(n), rng.randint(1, min(3, n)))),
                        xid=len(xobj_inst), from_slot=0))
        xobj_inst.append(1)
        ops.append(dict(op="xrun", inst=1, xid=len(xobj_inst) - 1, args=a0))
        ops.append(dict(op="call", inst=1, args=rng.choice([a0, (4,)])))
    if "setupsel" in kinds and rng.random() < 0.15:
        # directed: an EMPTY selection first (it selects nothing; it is not "no selection"), on a cold instance
        ops.append(rng.choice([dict(op="setup", inst=0, T=[]), dict(op="exec", inst=0, T=[], args=(1,))]))
    for _ in range(length):
        k = rng.choice(kinds)
        inst = rng.randrange(ninst)
        args = rng.choice([(1,), (2, 3), (5, 6), (13,), (13, 1), (4,), ((7, 8),), ((7, 8), 2), ({"k": 5},)])
        if k in ("xrun", "xsetup") and not xobj_inst:
            k = "xmk"
        if k == "xmk":
            # an executor object is built now and run LATER (other operations on the instance come in between)
            T = None if rng.random() < 0.4 else sorted(rng.sample(range(n), rng.randint(1, min(3, n))))
            ops.append(dict(op="xmk", inst=inst, T=T, xid=len(xobj_inst),
                            from_slot=rng.choice([None, None, 0, 1])))   # from_cache = a file written earlier in this history
            xobj_inst.append(inst)
        elif k == "xrun":
            xid = rng.randrange(len(xobj_inst))
            ops.append(dict(op="xrun", inst=xobj_inst[xid], xid=xid, args=args))
        elif k == "xsetup":
            xid = rng.randrange(len(xobj_inst))
            ops.append(dict(op="xsetup", inst=xobj_inst[xid], xid=xid))
        elif k == "call":
            ops.append(dict(op="call", inst=inst, args=args))
        elif k == "exec":
            # an EMPTY selection is a selection too (nothing runs; it is not "no selection")
            T = sorted(rng.sample(range(n), rng.randint(0 if rng.random() < 0.15 else 1, min(3, n))))
            ops.append(dict(op="exec", inst=inst, T=T, args=args))
        elif k == "setup":
            ops.append(dict(op="setup", inst=inst, T=None))
        elif k == "setupfail":
            # a setup() that FAILS for an outside reason in one of its setup nodes (after others may have completed):
            # the instance must be left as it was; a later setup() / call starts from scratch
            if setups:
                # preferably a setup node that has setup predecessors: they have completed when it fails
                deep_ = [i for i in setups if sc["specs"][i]["preds"]]
                ops.append(dict(op="setupfail", inst=inst, node=rng.choice(deep_ if deep_ and rng.random() < 0.7 else setups), T=None))
                if rng.random() < 0.7:
                    ops.append(rng.choice([dict(op="setup", inst=inst, T=None), dict(op="call", inst=inst, args=args)]))
            else:
                ops.append(dict(op="setup", inst=inst, T=None))
        elif k == "setupsel":
            T = sorted(rng.sample(range(n), rng.randint(0 if rng.random() < 0.25 else 1, min(2, n))))
            ops.append(dict(op="setup", inst=inst, T=T))
        elif k == "fork":
            ops.append(dict(op="fork", inst=inst))
            ninst += 1
        elif k == "rerun":
            T = sorted(rng.sample(range(n), rng.randint(1, min(3, n))))
            args2 = rng.choice([(1,), (8, 9), (13,), ((7, 8),), ((3, 4), 1)])
            if any(s_.get("deep") for s_ in sc["specs"]) and rng.random() < 0.6:
                # first run fails at argument resolution (int x), the second would succeed (tuple x)
                dks = {s_.get("deepkey", "i0") for s_ in sc["specs"] if s_.get("deep")}
                if dks == {"sk"}:
                    args = rng.choice([((7, 8),), ((3, 4), 1)])       # tuple["k"]: TypeError
                    args2 = rng.choice([({"k": 5},), ({"k": 0}, 2)])
                else:
                    args = rng.choice([(1,), (4,), (2, 3)])           # int[0]: AttributeError
                    args2 = rng.choice([((7, 8),), ((3, 4), 1)])
            if rng.random() < 0.25:
                args = ()      # the first call forgets the required DAG argument: refused as invalid after some nodes may have run
            ops.append(dict(op="rerun", inst=inst, T=rng.choice([None, T]), args=args, args2=args2))
        elif k == "config":
            ops.append(dict(op="config", inst=inst, node=rng.randrange(n), prio=rng.choice([3, -2, 8])))
        elif k == "compose":
            ops.append(dict(op="compose", inst=inst, out=rng.randrange(n)))
        elif k == "cache":
            mode = rng.choice(["whole", "target", "deps"])
            T = sorted(rng.sample(range(n), rng.randint(1, min(2, n))))
            if mode == "deps" and rng.random() < 0.5:
                # directed: two targets one of which depends on the other THROUGH other nodes (m -> x -> n): the file then
                # holds x although its ancestor m is not in it; a restart runs m and n, never x
                g_ = nxg(sc)
                far = [(a, b) for a in range(n) for b in nx.descendants(g_, a) if not g_.has_edge(a, b)]
                # ... or BOTH directly and through other nodes (m -> n and m -> x -> n): n still waits for m itself
                both = [(a, b) for a in range(n) for b in g_.successors(a)
                        if any(b in nx.descendants(g_, x) for x in g_.successors(a) if x != b)]
                if both and rng.random() < 0.5:
                    T = sorted(rng.choice(both))
                elif far:
                    T = sorted(rng.choice(far))
            ops.append(dict(op="cache", inst=inst, mode=mode, T=T, args=rng.choice([(1,), (2, 3), (5, 6)]),
                            restart=rng.choice(["same", "whole"]), omit_default=rng.random() < 0.5,
                            omit_required=rng.random() < 0.35, slot=rng.choice([None, 0, 0, 1]),
                            # the restarted execution may itself checkpoint — into the file it started from, or another one —
                            # and a further restart then starts from THAT file
                            writeback=rng.choice([None, None, "same", "same", "other"]),
                            deps_link=(sorted(rng.sample(range(n), rng.randint(1, min(2, n)))) if rng.random() < 0.3 else None),
                            dup_deps=rng.random() < 0.3))
    return ops


def ids(l):
    return ["n%d" % i for i in l]


DRIFT = []    # configuration drift observed on an instance (filled by run_history, read and cleared by the caller)
PAD = [0]     # counter: every third non-empty target list is PADDED with repeats of its own entries up to exactly the number
              # of nodes of the DAG's graph (naming a node several times names it once; the list's LENGTH means nothing)


def padded(d, lst):
    PAD[0] += 1
    if not lst or PAD[0] % 3:
        return lst
    want = len(d.graph_ids.nodes)
    out = list(lst)
    k = 0
    while len(out) < want:
        out.append(lst[k % len(lst)])
        k += 1
    return out


_CACHE_DIR = [None]


def cache_slot(k):
    if _CACHE_DIR[0] is None:
        _CACHE_DIR[0] = tempfile.mkdtemp(prefix="twzcacheslots")
    return os.path.join(_CACHE_DIR[0], "slot%d.pkl" % k)


def cleanup_cache_slots():
    if _CACHE_DIR[0] is not None:
        import shutil
        shutil.rmtree(_CACHE_DIR[0], ignore_errors=True)
        _CACHE_DIR[0] = None


class Instances:
    def __init__(self, sc):
        self.sc = sc
        self.tags = []
        self.dags = []

    def add(self, d):
        self.tags.append(("i", len(self.tags), id(d)))
        self.dags.append(d)
        return len(self.dags) - 1


def counters_delta(before, tag, n):
    return sorted(i for i in range(n) if COUNTS.get((tag, i), 0) - before.get((tag, i), 0) > 0), \
        {i: COUNTS.get((tag, i), 0) - before.get((tag, i), 0) for i in range(n)
         if COUNTS.get((tag, i), 0) - before.get((tag, i), 0) > 1}


def run_history(sc, ops):
    """Execute the operations on real instances.  Returns per operation a record with what happened,
    and the protocol lines for the model."""
    n = sc["n"]
    I = Instances(sc)
    I.add(build(sc))
    records, lines = [], []
    setups = [i for i, s in enumerate(sc["specs"]) if s["setup"]]
    execs = {}
    ok_slots = set()      # shared cache paths written by a successful caching run of THIS history
    for op in ops:
        inst = op["inst"]
        d = I.dags[inst]
        tag = I.tags[inst]
        CUR[0] = tag
        before = dict(COUNTS)
        rec = dict(op=op)
        if d.max_concurrency != 2:
            # no operation of a history reconfigures the concurrency limit: the instance was built with 2 and keeps it
            DRIFT.append(dict(before_op=op, max_concurrency=d.max_concurrency, inst=inst))

        def attempt(fn):
            # under schedule control (random completion orders); afterwards wait for every pooled
            # work item of this run, so that a straggler of a failed run is not counted in the next one
            R, outcome = control.run_controlled(lambda: run_sync(fn()), control.Script(rng=random.Random(SCRIPT_SEED[0])))
            SCRIPT_SEED[0] += 1
            hs = [t.handle for t in R.tickets if t.kind == "thread" and t.handle is not None]
            if hs:
                control._real_wait(hs, timeout=10)
            if outcome[0] == "ok":
                return ("OK", outcome[1])
            if outcome[0] == "hang":
                return ("EXC", "HANG", "")
            e = outcome[1]
            if isinstance(e, Boom13) or isinstance(e.__cause__, Boom13):
                return ("FAIL", "Boom13")
            if isinstance(e, TawaziUsageError):
                return ("REFUSED",)
            if type(e).__name__ == "TawaziArgumentException" and len(op.get("args", (0,))) == 0:
                return ("FAIL", "MissingArgument")     # a call without the required DAG argument: invalid arguments
            dict_arg = any(isinstance(a_, dict) for key_ in ("args", "args2") for a_ in (op.get(key_) or ()))
            if any(s_.get("deep") for s_ in sc["specs"]) and (
                    isinstance(e, (TypeError, AttributeError, IndexError)) or (isinstance(e, KeyError) and dict_arg)):
                return ("FAIL", "BadIndex")      # the  v[-2][k]  use failed at argument resolution: a failing run
            return ("EXC", type(e).__name__, str(e)[:160])

        if op["op"] == "call":
            rec["out"] = attempt(lambda: d(*op["args"]))
            rec["line"] = len(lines); lines.append("O %d call %d %s %d %s" % (inst, n, " ".join(map(str, range(n))), len(op["args"]),
                                                   " ".join(enc(a) for a in op["args"])))
        elif op["op"] == "exec":
            sel = anc_closure(sc, op["T"])
            rec["out"] = attempt(lambda: d.executor(target_nodes=padded(d, ids(op["T"])))(*op["args"]))
            # the model computes the selection itself from the targets (GM.selectNodes)
            rec["line"] = len(lines); lines.append("O %d execT %d %s %d %s" % (inst, len(op["T"]), " ".join(map(str, op["T"])), len(op["args"]),
                                                   " ".join(enc(a) for a in op["args"])))
        elif op["op"] == "xmk":
            T = op["T"]
            sel = list(range(n)) if T is None else anc_closure(sc, T)
            fs_ = op.get("from_slot")
            if fs_ is not None and (fs_ in ok_slots or op.get("early")):
                # restart object: the file is read when the object is CALLED, together with the DAG's results of that moment
                execs[op["xid"]] = (d.executor(target_nodes=None if T is None else ids(T), from_cache=cache_slot(fs_)), T)
                extra = " C %d" % fs_
            else:
                execs[op["xid"]] = (d.executor(target_nodes=None if T is None else ids(T)), T)
                extra = ""
            rec["out"] = ("NOOP",)
            lines.append("O %d xmk %d %d %s%s" % (inst, op["xid"], len(sel), " ".join(map(str, sel)), extra))
            records.append(rec)
            continue
        elif op["op"] == "xrun":
            ex = execs[op["xid"]][0]
            rec["out"] = attempt(lambda: ex(*op["args"]))
            rec["line"] = len(lines); lines.append("O %d xrun %d %d %s" % (inst, op["xid"], len(op["args"]),
                                                   " ".join(enc(a) for a in op["args"])))
        elif op["op"] == "xsetup":
            ex, T = execs[op["xid"]]
            sel = setups if T is None else [i for i in anc_closure(sc, T) if sc["specs"][i]["setup"]]
            rec["out"] = attempt(lambda: ex.setup())
            rec["line"] = len(lines); lines.append("O %d setup %d %s" % (inst, len(sel), " ".join(map(str, sel))))
        elif op["op"] == "setupfail":
            FAIL_NOW.add((tag, op["node"]))
            try:
                rec["out"] = attempt(lambda: d.setup())
            finally:
                FAIL_NOW.clear()
            if rec["out"][0] == "OK":
                # the chosen node was set up already, so it did not run: an ordinary setup()
                rec["line"] = len(lines); lines.append("O %d setup %d %s" % (inst, len(setups), " ".join(map(str, setups))))
            else:
                rec["entered_elsewhere"] = True     # a failed operation: no model line, the instance is unchanged
                rec["entered"], rec["dups"] = counters_delta(before, tag, n)
                records.append(rec)
                continue
        elif op["op"] == "setup":
            T = op["T"]
            sel = setups if T is None else [i for i in anc_closure(sc, T) if sc["specs"][i]["setup"]]
            rec["out"] = attempt(lambda: d.setup() if T is None else d.setup(target_nodes=padded(d, ids(T))))
            rec["line"] = len(lines)
            if T is None:
                lines.append("O %d setup %d %s" % (inst, len(sel), " ".join(map(str, sel))))
            else:
                lines.append("O %d setupT %d %s" % (inst, len(T), " ".join(map(str, T))))
        elif op["op"] == "fork":
            I.add(copy.deepcopy(d))
            rec["out"] = ("FORK",)
            rec["line"] = len(lines); lines.append("O %d fork %d" % (inst, len(I.dags) - 1))
        elif op["op"] == "config":
            d.config_from_dict({"nodes": {"n%d" % op["node"]: {"priority": op["prio"]}}})
            rec["out"] = ("NOOP",)
            records.append(rec)
            continue
        elif op["op"] == "compose":
            try:
                comp = d.compose("composed", [], ["n%d" % op["out"]])
                rec["composed"] = attempt(lambda: comp())
            except BaseException as e:  # noqa: BLE001
                rec["composed"] = ("EXC", type(e).__name__, str(e)[:100])
            rec["out"] = ("NOOP",)
            rec["entered_elsewhere"] = True
            records.append(rec)
            continue
        elif op["op"] == "rerun":
            T = op["T"]
            sel = list(range(n)) if T is None else anc_closure(sc, T)
            ex = d.executor(target_nodes=None if T is None else ids(T))
            rec["out"] = attempt(lambda: ex(*op["args"]))
            rec["entered"], rec["dups"] = counters_delta(before, tag, n)
            if len(op["args"]) == 0 and rec["out"][0] != "OK":
                # invalid arguments (the selection needs the argument): the call raised; it must leave the instance as it
                # was (no model line: a no-op)
                pass
            else:
                rec["line"] = len(lines); lines.append("O %d call %d %s %d %s" % (inst, len(sel), " ".join(map(str, sel)), len(op["args"]),
                                                       " ".join(enc(a) for a in op["args"])))
            records.append(rec)
            # second run of the same executor object
            before2 = dict(COUNTS)
            rec2 = dict(op=dict(op="rerun2", inst=inst, T=T, args=op["args2"], first=rec["out"][0]))
            rec2["out"] = attempt(lambda: ex(*op["args2"]))
            rec2["entered"], rec2["dups"] = counters_delta(before2, tag, n)
            # the model line: what a complete run of the selection with args2 gives (used only if not refused)
            rec2["line"] = len(lines); lines.append("O %d peek %d %s %d %s" % (inst, len(sel), " ".join(map(str, sel)), len(op["args2"]),
                                                   " ".join(enc(a) for a in op["args2"])))
            if rec2["out"][0] == "OK":   # it did run: the instance gained the run's setup results
                lines.append("O %d call %d %s %d %s" % (inst, len(sel), " ".join(map(str, sel)), len(op["args2"]),
                                                       " ".join(enc(a) for a in op["args2"])))
            rec2["may_refuse"] = True
            records.append(rec2)
            continue
        elif op["op"] == "cache":
            # a user keeps ONE cache path and overwrites it run after run: most pairs share one of two paths that
            # live as long as the process (a stale in-process copy of an overwritten file must not be used)
            slot = op.get("slot")
            if slot is None:
                fd, path = tempfile.mkstemp(suffix=".pkl", prefix="twzcache")
                os.close(fd)
            else:
                path = cache_slot(slot)
            try:
                mode, T = op["mode"], op["T"]
                if mode == "whole":
                    sel = list(range(n)); kw = {}
                elif mode == "target":
                    sel = anc_closure(sc, T); kw = dict(target_nodes=ids(T))
                else:
                    # (the same target may be named several times: it is one target)
                    sel = anc_closure(sc, T); kw = dict(cache_deps_of=ids(T) + (ids(T[:1]) if op.get("dup_deps") else []))
                rec["out"] = attempt(lambda: d.executor(cache_in=path, **kw)(*op["args"]))
                rec["entered"], rec["dups"] = counters_delta(before, tag, n)
                # the model runs the executor object itself (VM.xRun) and predicts the file it writes
                mslot = slot if slot is not None else 100 + len(lines)
                nonc = sorted(T) if mode == "deps" else []
                rec["line"] = len(lines); lines.append("O %d xcache %d %d %s %d %s %d %s" % (
                    inst, mslot, len(sel), " ".join(map(str, sel)), len(nonc), " ".join(map(str, nonc)), len(op["args"]),
                    " ".join(enc(a) for a in op["args"])))
                records.append(rec)
                if rec["out"][0] != "OK":
                    continue
                if slot is not None:
                    ok_slots.add(slot)
                with open(path, "rb") as f:
                    content = pickle.load(f)   # noqa: S301
                cached_keys = set(content.keys())
                cached = sorted(i for i in range(n) if "n%d" % i in cached_keys)
                rec["cached"] = cached
                # what the pickle really holds, in the model's vocabulary: node i -> value; n, n+1 = the parameters x, y
                rec["file"] = {str(i): render(content["n%d" % i]) for i in cached}
                for j, u in zip((n, n + 1), d.input_uxns):
                    if u.id in content:
                        rec["file"][str(j)] = render(content[u.id])
                if mode == "deps":
                    rec["deps_of"] = T
                # restart
                before2 = dict(COUNTS)
                if op["restart"] == "same":
                    sel2, kw2 = sel, kw
                else:
                    sel2, kw2 = list(range(n)), {}
                if "cache_deps_of" in kw2:
                    kw2 = dict(target_nodes=kw2["cache_deps_of"])
                rec2 = dict(op=dict(op="restart", inst=inst, sel=sel2, cached=cached, args=op["args"], mode=mode,
                                    restart=op["restart"]))
                # a defaulted argument that the caching run supplied is in the file: the restart may omit it
                rargs = op["args"][:1] if (len(op["args"]) == 2 and op.get("omit_default")) else op["args"]
                if op.get("omit_required") and str(n) in rec["file"] and (len(op["args"]) < 2 or str(n + 1) in rec["file"]):
                    rargs = ()      # the REQUIRED argument is in the file too: the restart need not pass it again
                rec2["op"]["restart_args"] = list(rargs)
                wb = op.get("writeback")
                wpath, wslot = None, None
                if wb == "same":
                    wpath, wslot = path, mslot
                elif wb == "other":
                    fd2, wpath = tempfile.mkstemp(suffix=".pkl", prefix="twzcache")
                    os.close(fd2)
                    os.remove(wpath)
                    wslot = 100000 + len(lines)
                kw3 = dict(kw2, cache_in=wpath) if wpath else kw2
                rec2["op"]["writeback"] = wb
                rec2["out"] = attempt(lambda: d.executor(from_cache=path, **kw3)(*rargs))
                rec2["entered"], rec2["dups"] = counters_delta(before2, tag, n)
                rec2["first_value"] = rec["out"][1]
                rec2["line"] = len(lines); lines.append("O %d xrestart %d %d %s %d %s%s" % (
                    inst, mslot, len(sel2), " ".join(map(str, sel2)), len(rargs), " ".join(enc(a) for a in rargs),
                    (" W %d" % wslot) if wpath else ""))
                records.append(rec2)
                if wpath and rec2["out"][0] == "OK":
                    try:
                        with open(wpath, "rb") as f:
                            content2 = pickle.load(f)   # noqa: S301
                        cached2 = sorted(i for i in range(n) if "n%d" % i in content2)
                        rec2["file"] = {str(i): render(content2["n%d" % i]) for i in cached2}
                        for j, u in zip((n, n + 1), d.input_uxns):
                            if u.id in content2:
                                rec2["file"][str(j)] = render(content2[u.id])
                        # third stage: a restart of the whole DAG from the file the restarted execution wrote
                        before3 = dict(COUNTS)
                        rec3 = dict(op=dict(op="restart", inst=inst, sel=list(range(n)), cached=cached2, args=list(rargs), mode="stage3",
                                            restart="whole", restart_args=list(rargs)))
                        rec3["out"] = attempt(lambda: d.executor(from_cache=wpath)(*rargs))
                        rec3["entered"], rec3["dups"] = counters_delta(before3, tag, n)
                        rec3["line"] = len(lines); lines.append("O %d xrestart %d %d %s %d %s" % (
                            inst, wslot, n, " ".join(map(str, range(n))), len(rargs), " ".join(enc(a) for a in rargs)))
                        records.append(rec3)
                    finally:
                        if wb == "other":
                            try:
                                os.remove(wpath)
                            except OSError:
                                pass
                # a link of a chain with cache_deps_of: (after the restart stages) an executor that STARTS from the file of this operation, treats T2 as its
                # cache_deps_of targets and checkpoints into another file — what the first file holds (T2's results included,
                # when it has them) is reused, only T2's missing results are computed, and T2 is kept out of the NEW file
                if op.get("deps_link") and sel:
                    T2 = sorted(op["deps_link"] if isinstance(op["deps_link"], list) else [])
                    T2 = [t_ for t_ in T2 if t_ < n] or [sel[-1]]
                    sel_l = anc_closure(sc, T2)
                    fd3, lpath = tempfile.mkstemp(suffix=".pkl", prefix="twzcache")
                    os.close(fd3)
                    os.remove(lpath)
                    lslot = 200000 + len(lines)
                    beforeL = dict(COUNTS)
                    recL = dict(op=dict(op="restart", inst=inst, sel=sel_l, cached=cached, args=list(op["args"]), mode="deps-link",
                                        restart="link", restart_args=list(op["args"]), deps_of=T2))
                    try:
                        recL["out"] = attempt(lambda: d.executor(from_cache=path, cache_deps_of=ids(T2), cache_in=lpath)(*op["args"]))
                        recL["entered"], recL["dups"] = counters_delta(beforeL, tag, n)
                        recL["line"] = len(lines); lines.append("O %d xcache %d %d %s %d %s %d %s C %d" % (
                            inst, lslot, len(sel_l), " ".join(map(str, sel_l)), len(T2), " ".join(map(str, T2)), len(op["args"]),
                            " ".join(enc(a) for a in op["args"]), mslot))
                        if recL["out"][0] == "OK" and os.path.exists(lpath):
                            with open(lpath, "rb") as f:
                                contentL = pickle.load(f)   # noqa: S301
                            recL["file"] = {str(i): render(contentL["n%d" % i]) for i in range(n) if "n%d" % i in contentL}
                            for j, u in zip((n, n + 1), d.input_uxns):
                                if u.id in contentL:
                                    recL["file"][str(j)] = render(contentL[u.id])
                        records.append(recL)
                    finally:
                        try:
                            os.remove(lpath)
                        except OSError:
                            pass
            finally:
                if slot is None:
                    try:
                        os.remove(path)
                    except OSError:
                        pass
            continue
        rec["entered"], rec["dups"] = counters_delta(before, tag, n)
        records.append(rec)
    return records, lines
