"""Per-property configuration: theorems (proof obligations), correspondence slices, monitors."""
import json
import threading
import os
import random

import common
from common import Failure

import slice_s as S

QUICK = dict(s_runs=1200, s_enum=6, g_graphs=150, g_sels=6)
THOROUGH = dict(s_runs=60000, s_enum=500, g_graphs=10000, g_sels=10)


def corpus_items(pid, kind):
    """Minimised past failures and pinned inputs of known findings: replayed first on every run."""
    d = os.path.join(common.VERIF, "corpus", pid)
    out = []
    if os.path.isdir(d):
        for f in sorted(os.listdir(d)):
            if f.endswith(".json"):
                try:
                    sc = json.load(open(os.path.join(d, f))).get("scenario")
                except ValueError:
                    continue
                if not isinstance(sc, dict):
                    continue
                if kind == "S" and "specs" in sc and "maxc" in sc:
                    out.append((f, sc))
                elif kind == "G" and "specs" in sc and "maxc" not in sc:
                    out.append((f, sc))
                elif kind == "V" and "defs" in sc:
                    out.append((f, sc))
    return out


def budget(tier):
    return QUICK if tier == "quick" else THOROUGH


# ---------------------------------------------------------------------------------------------
# slice S engine
# ---------------------------------------------------------------------------------------------
NONTRIVIAL_S = {
    "C02": lambda sc, f: f["starts"] >= 2 and any(S.all_preds(s) for s in sc["specs"]),
    "C03": lambda sc, f: sc["n"] >= 2,
    "C04": lambda sc, f: f["max_inflight"] >= 2 or (f["max_inflight"] == sc["maxc"] and f["waits"] > 0),
    "C05": lambda sc, f: f["seq_contended"],
    "C06": lambda sc, f: f["multi_candidate_starts"] > 0,
    "C08": lambda sc, f: f["waits"] > 0,
    "C09": lambda sc, f: f["waits"] > 0 or f["skipped"] > 0,
    "C14": lambda sc, f: f["failures_observed"] > 0,
    "C01": lambda sc, f: sc["n"] >= 2,
    "C10": lambda sc, f: any(s["flag"] for s in sc["specs"]),
    "C13": lambda sc, f: any(s.get("dbg") for s in sc["specs"]),
    "C20": lambda sc, f: bool(sc.get("nested")),
}
RULE_S = {
    "C01": "the scheduler scenarios (attributes, selections, nesting, reconfiguration, directed completion patterns) judged on the value the call returns",
    "C20": "same generator, every scenario described in an inner DAG that the executed DAG calls (attributes, flags, tags, debug nodes, selections on the spliced ids)",
    "C13": "same generator, every scenario with debug nodes (flag on/off at call time, independently on/off while described; plain, nested, executors)",
    "C02": "random DAG scenarios under scripted completion orders; non-trivial: >=2 node starts and >=1 dependency edge",
    "C03": "same generator; non-trivial: >=2 nodes",
    "C04": "same generator; non-trivial: >=2 pooled nodes in flight at once, or the limit reached and a wait occurred",
    "C05": "same generator; non-trivial: a sequential node was a candidate or in flight while another node was ready",
    "C06": "same generator (priorities with ties/negatives, 30% executors with selections); non-trivial: some start had >=2 ready candidates",
    "C08": "same generator; non-trivial: the scheduler blocked on a non-empty set at least once",
    "C09": "same generator incl. failing and deactivated nodes; non-trivial: >=1 blocking wait or >=1 deactivated node",
    "C14": "same generator with failing nodes (prob. raised); non-trivial: a failure was observed by the scheduler",
}


def scenario_stream(seed, count, pid, with_corpus=True):
    base = random.Random("%s/%d" % (pid, seed))
    if with_corpus:
        for name, sc in corpus_items(pid, "S"):
            yield "c_" + name.replace(".json", "").replace(" ", ""), sc
    for j, sc in enumerate(S.directed(random.Random(base.randrange(1 << 62)))):
        yield "d%d" % j, sc
    for k in range(count):
        rng = random.Random(base.randrange(1 << 62))
        kw = {}
        if pid == "C14":
            kw["p_fail"] = 0.25
        if pid in ("C08",) and k % 2 == 0:
            kw["mixed"] = False
        sc = S.gen(rng, **kw)
        if pid == "C13" and sc.get("op") != "setup":
            S.mark_debug(rng, sc, p=0.3)
        if pid == "C20" and sc.get("op") != "setup" and not sc.get("handbuilt"):
            # every scenario described in an INNER DAG that the executed DAG calls; half of them with debug nodes
            sc["nested"] = True
            if rng.random() < 0.5 and not any(s_.get("dbg") for s_ in sc["specs"]):
                S.mark_debug(rng, sc, p=0.3)
        yield k, sc


def enumerate_scripts(sc, limit):
    """All completion orders of one scenario (DFS over the script's decisions), up to `limit` runs."""
    stack = [[]]
    runs = 0
    while stack and runs < limit:
        dec = stack.pop()
        sc2 = dict(sc, script=dict(decisions=dec))
        obs = S.run_scenario(sc2)
        runs += 1
        yield sc2, obs
        if "skipped" in obs:
            return
        tr = obs["script_trace"]
        # children: for every decision position at or after len(dec), alternatives to the default 0
        for posn in range(len(dec), len(tr)):
            for alt in range(1, tr[posn][1]):
                stack.append([t[0] for t in tr[:posn]] + [alt])


def small_scenarios(seed, count):
    """Small graphs (<=4 nodes) over an attribute grid, for exhaustive completion-order enumeration."""
    rng = random.Random("small/%d" % seed)
    for k in range(count):
        sc = S.gen(random.Random(rng.randrange(1 << 62)), max_n=4, p_sel=0.15)
        sc["maxc"] = rng.randint(1, 3)
        yield k, sc


def run_S(pid, tier, seed, cp_mode="real", props_monitored=None, extra_fail_sig=None):
    B = budget(tier)
    props_monitored = props_monitored or {pid}
    failures = []
    facts_total = dict(evaluations=0, nontrivial_hashes=set(), sites=set(), pcs=set(), max_states=0,
                       accepted=0, rejected=0, outcomes=dict(ok=0, exc=0, hang=0), with_selection=0,
                       is_async=0, nodes_hist={}, monitor_hits={}, enumerated_scenarios=0, enumerated_runs=0)
    samples = []
    blocks = []   # (sid, sc, text)
    kept = {}

    def one(sid, sc, obs):
        if "skipped" in obs:
            facts_total["skipped"] = facts_total.get("skipped", 0) + 1
            if obs.get("config_refused"):
                failures.append(Failure("correspondence", "valid-configuration-refused", sc, dict(raised=obs["config_refused"]), slice_="S"))
            if obs.get("creation_hung"):
                # building the executor did not return within 10 s: C09 (every executor call terminates — it cannot even be
                # made); for the other properties the model's run is not matched (a correspondence failure)
                failures.append(Failure("counterexample" if pid == "C09" else "correspondence", "executor-creation-did-not-return", sc,
                                        dict(selection=sc.get("sel"), run_debug=sc.get("run_debug")), slice_="S"))
            return
        V, f = S.monitors(sc, obs)
        facts_total["evaluations"] += 1
        facts_total["outcomes"][obs["outcome"][0]] += 1
        facts_total["with_selection"] += int(sc.get("sel") is not None)
        facts_total["is_async"] += int(sc["is_async"])
        facts_total["nodes_hist"][sc["n"]] = facts_total["nodes_hist"].get(sc["n"], 0) + 1
        facts_total["sites"] |= {"%s/%s" % x for x in f["sites"]}
        if NONTRIVIAL_S.get(pid, lambda *_: True)(sc, f):
            facts_total["nontrivial_hashes"].add(S.structural_hash(sc) + json.dumps(sc["script"], sort_keys=True))
        for (p, sig, detail) in V:
            facts_total["monitor_hits"]["%s/%s" % (p, sig)] = facts_total["monitor_hits"].get("%s/%s" % (p, sig), 0) + 1
            if p in props_monitored:
                failures.append(Failure("counterexample", sig, sc, dict(detail, trace=trace_of(obs)), slice_="S"))
        text = S.emit(sid, sc, obs, cp_mode, strict_exc=(pid == "C14"))
        blocks.append(text)
        kept[sid] = (sc, V)
        if len(samples) < 3:
            samples.append(dict(scenario=sc, protocol=text.splitlines()))

    hung = False
    nhangs = 0
    for k, sc in scenario_stream(seed, B["s_runs"], pid):
        obs = S.run_scenario(sc, timeout=15)
        one("r%s" % k, sc, obs)
        if obs.get("creation_hung"):
            hung = True      # a spinning thread stays behind in this process: stop exploring
            break
        if obs.get("outcome", ("",))[0] == "hang":
            nhangs += 1
            # a scheduler that spins through the wait primitives has been stopped (control.Kill): go on, a few times;
            # one that is really stuck cannot be killed and may spin: stop exploring here
            if obs["run"].zombie_alive or nhangs >= 6:
                hung = True
                break
    facts_total["hangs"] = nhangs
    for k, sc in ([] if hung else small_scenarios(seed, B["s_enum"])):
        facts_total["enumerated_scenarios"] += 1
        for j, (sc2, obs) in enumerate(enumerate_scripts(sc, 60 if tier == "quick" else 400)):
            facts_total["enumerated_runs"] += 1
            one("e%d_%d" % (k, j), sc2, obs)
            if obs.get("outcome", ("",))[0] == "hang":
                hung = True
                break
        if hung:
            break
    facts_total["stopped_at_first_hang"] = hung

    out = common.run_driver("Sched", "".join(blocks))
    seen = set()
    for line in out:
        w = line.split()
        sid = w[0]
        seen.add(sid)
        if w[1] == "ACCEPT":
            facts_total["accepted"] += 1
            facts_total["max_states"] = max(facts_total["max_states"], int(w[2]))
            facts_total["pcs"] |= set(w[3].split(",")) if len(w) > 3 else set()
        else:
            facts_total["rejected"] += 1
            sc, V = kept[sid]
            sigs = {"%s/%s" % (p, s) for (p, s, _d) in V}
            failures.append(Failure("correspondence", "S-trace-rejected(cp=%s)" % cp_mode, sc,
                                    dict(driver=line, monitors_on_this_input=sorted(sigs),
                                         explained_by_known=bool(V) and all(
                                             p in props_monitored and known_sig(pid, s) for (p, s, _d) in V
                                             if p in props_monitored) and any(p in props_monitored for (p, s, _d) in V)),
                                    slice_="S"))
    missing = set(kept) - seen
    if missing:
        raise common.HarnessError("driver returned no verdict for %d scenarios" % len(missing))

    coverage = dict(
        evaluations=facts_total["evaluations"], distinct_nontrivial=len(facts_total["nontrivial_hashes"]),
        rule=RULE_S.get(pid, "slice S scenarios"), samples=samples,
        traces_validated_against_impl=facts_total["accepted"], traces_rejected=facts_total["rejected"],
        acceptor_max_state_set=facts_total["max_states"], model_pcs_visited=sorted(facts_total["pcs"]),
        wait_sites_hit=sorted(facts_total["sites"]), outcomes=facts_total["outcomes"],
        with_selection=facts_total["with_selection"], async_flavour=facts_total["is_async"],
        nodes_histogram=facts_total["nodes_hist"], monitor_hits_all_properties=facts_total["monitor_hits"],
        exhaustively_enumerated_scenarios=facts_total["enumerated_scenarios"],
        exhaustively_enumerated_runs=facts_total["enumerated_runs"], cp_fed_to_model=cp_mode,
        stopped_at_first_hang=facts_total["stopped_at_first_hang"],
        scenarios_skipped_executor_creation_raised=facts_total.get("skipped", 0))

    def searcher(unexplained):
        found = []
        if facts_total["stopped_at_first_hang"]:
            return found    # the process hosts a stuck scheduler thread: no further real runs are meaningful
        # 1. the rejected scenarios themselves: every completion order when small
        for f in unexplained[:20]:
            sc = f.scenario
            if not sc or sc["n"] > 6:
                continue
            for sc2, obs in enumerate_scripts(sc, 300):
                if "skipped" in obs:
                    break
                V, _ = S.monitors(sc2, obs)
                for (p, sig, detail) in V:
                    if p in props_monitored:
                        found.append(Failure("counterexample", sig, sc2, dict(detail, trace=trace_of(obs)), slice_="S"))
                if found:
                    return found
        # 2. the random budget again under the monitors only
        for k, sc in scenario_stream(seed + 7919, B["s_runs"], pid, with_corpus=False):
            obs = S.run_scenario(sc)
            if "skipped" in obs:
                continue
            V, _ = S.monitors(sc, obs)
            for (p, sig, detail) in V:
                if p in props_monitored:
                    found.append(Failure("counterexample", sig, sc, dict(detail, trace=trace_of(obs)), slice_="S"))
            if found:
                return found
        return found

    return coverage, failures, searcher


def with_S(run):
    """... and the scheduler slice on DAGs with debug nodes: which nodes really execute, and with which values."""
    def wrapped(pid, tier, seed):
        cov, fs, searcher = run(pid, tier, seed)
        covs, fss, _ = run_S(pid, tier, seed)
        cov["scheduler_runs"] = {k: v for k, v in covs.items() if k not in ("samples",)}
        cov["evaluations"] += covs["evaluations"]
        cov["rule"] += "; plus slice S: " + covs["rule"]
        return cov, fs + fss, searcher
    return wrapped


def known_sig(pid, sig):
    return any(k.get("property") == pid and k.get("signature") == sig and k.get("status") == "known"
               for k in common.load_known())


def trace_of(obs):
    R = obs["run"]
    tnode = {t.id: t.node for t in R.tickets}
    out = []
    for e in R.log:
        if e[1] == "dispatch":
            out.append(["dispatch", tnode[e[2]], e[3]])
        elif e[1] == "enter":
            out.append(["enter", e[2], "pooled" if e[3] is not None else "inline"])
        elif e[1] == "exit":
            out.append(["exit", e[2]])
        elif e[1] == "wait":
            out.append(["wait", e[2], e[3], [tnode[t] for t in e[4]], [tnode[t] for t in e[5]]])
    o = obs["outcome"]
    out.append(["outcome", o[0], repr(o[1])[:200] if len(o) > 1 else None])
    return out


def replay(pid, path):
    data = json.load(open(path))
    sc = data.get("scenario")
    if sc and data.get("slice") == "K":
        import slice_k as K
        if str(data.get("signature", "")).startswith("nested-"):
            _st, fs_ = K.run_nested(pid, "quick", 0, 1, tables=[sc])
            for f_ in fs_:
                print(f_.kind, f_.signature, f_.detail)
            if any(f_.kind == "counterexample" for f_ in fs_):
                print("VIOLATION property=%s replay=%s" % (pid, path))
                return 1
            print("no violation of %s on this table" % pid)
            return 0
        real, _d = K.construct(sc)
        print("constructor:", real, "| table cyclic:", K.is_cyclic(sc))
        if real == "ACCEPT" and K.is_cyclic(sc):
            print("calling it:", K.demonstrate_hang(sc))
            print("VIOLATION property=%s replay=%s" % (pid, path))
            return 1
        print("no violation of %s on this table" % pid)
        return 0
    if not sc or "specs" not in sc:
        print("replay file carries no slice-S scenario; re-run the check instead")
        return 2
    obs = S.run_scenario(sc)
    V, _ = S.monitors(sc, obs)
    hit = [(p, s, d) for (p, s, d) in V if p == pid]
    for t in trace_of(obs):
        print(t)
    if hit:
        print("VIOLATION property=%s replay=%s" % (pid, path))
        return 1
    print("no violation of %s on this scenario" % pid)
    return 0


ASSUME_S = [
    "finite acyclic DAG, max_concurrency >= 1 (validated by tawazi's constructors)",
    "start = ticket draw / inline entry, finish = completion observed by the scheduler; a node's real running interval lies inside [start, finish]",
    "concurrent.futures / asyncio wait primitives return when their condition holds; completion sets are non-empty subsets of the in-flight set",
    "tie-breaking among equal priorities, processing order of a done set and which failed future is re-raised are left nondeterministic in the model",
]

PROPS = {}


def reg(pid, theorems, run, assumptions):
    PROPS[pid] = dict(theorems=theorems, run=run, assumptions=assumptions)


COMMON_S_THEOREMS = ["Props.acceptor_exact", "Props.acceptance_sound"]

def run_S_and_nested_supply(pid, tier, seed):
    """C02 across a sub-DAG call: what a parameter of the inner DAG is supplied with is a dependency of the inner nodes."""
    cov, fs, searcher = run_S(pid, tier, seed)
    rng = random.Random("C02/nested/%d" % seed)
    n_ = 40 if tier == "quick" else 600
    for _ in range(n_):
        case, problems = S.nested_supply(random.Random(rng.randrange(1 << 62)))
        if problems:
            fs.append(Failure("counterexample", "inner-node-of-a-called-dag-ahead-of-the-supplied-argument", case, dict(problems=problems), slice_="N"))
            if len([f for f in fs if f.slice == "N"]) >= 3:
                break
    cov["nested_supply_cases"] = n_
    cov["evaluations"] += n_
    cov["rule"] += "; plus an inner DAG with defaulted parameters supplied by slow producer nodes / constants / not at all (entry order and received values of the inner nodes)"
    return cov, fs, searcher


reg("C02", ["Props.C02_deps_before_start", "Props.C02_values_at_start", "Props.C01_core"] + COMMON_S_THEOREMS,
    run_S_and_nested_supply, ASSUME_S)
def pending_executor_runs():
    """An executor run of an AsyncDAG that is CREATED (the coroutine / task exists) before the DAG is set up and awaited after
    it — or next to it: whatever the run reads of the instance it reads when it runs; every setup node is entered once, and the
    run returns the ordinary value.  Yields (variant, problems)."""
    import asyncio as _aio
    from tawazi import dag as _dag, xn as _xn
    cnt = {}

    def load_a():
        cnt["a"] = cnt.get("a", 0) + 1
        return ("A", cnt["a"])

    def load_b(a):
        cnt["b"] = cnt.get("b", 0) + 1
        return ("B", a, cnt["b"])

    def work(x, b):
        cnt["w"] = cnt.get("w", 0) + 1
        return (x, b)
    for f_ in (load_a, load_b, work):
        f_.__qualname__ = f_.__name__
    xa, xb, xw = _xn(load_a, setup=True), _xn(load_b, setup=True), _xn(work)

    def pipe(x):
        return xw(x, xb(xa()))
    for variant in ("coroutine-then-setup-then-await", "task-then-setup", "gather(setup, run)", "gather(run, setup)", "await-directly"):
        for sel in (None, ["work"]):
            d = _dag(pipe, is_async=True)
            cnt.clear()
            bad = []

            async def main(d=d, variant=variant, sel=sel):
                ex = d.executor(target_nodes=sel)
                if variant == "coroutine-then-setup-then-await":
                    c = ex(7)
                    await d.setup()
                    return await c
                if variant == "task-then-setup":
                    t = _aio.ensure_future(ex(7))
                    await d.setup()
                    return await t
                if variant == "gather(setup, run)":
                    return (await _aio.gather(d.setup(), ex(7)))[1]
                if variant == "gather(run, setup)":
                    return (await _aio.gather(ex(7), d.setup()))[0]
                await d.setup()
                return await ex(7)
            try:
                r = _aio.run(_aio.wait_for(main(), 20))
                if not (isinstance(r, tuple) and r[0] == 7 and isinstance(r[1], tuple) and r[1][0] == "B"):
                    bad.append("the run returned %r" % (r,))
                for k_ in ("a", "b"):
                    # concurrent FIRST runs of a setup node are outside the properties; one entry is required when the setup()
                    # has finished before the run starts
                    if cnt.get(k_, 0) != 1 and variant in ("coroutine-then-setup-then-await", "await-directly"):
                        bad.append("setup node load_%s was entered %d times" % (k_, cnt.get(k_, 0)))
                if cnt.get("w", 0) != 1:
                    bad.append("work was entered %d times" % cnt.get("w", 0))
            except BaseException as e:  # noqa: BLE001
                bad.append("raised %s: %s" % (type(e).__name__, str(e)[:120]))
            yield "%s/%s" % (variant, "targets" if sel else "whole"), bad


def foreign_cache_histories():
    """An instance that HAS its setup value restarts from a cache file written by ANOTHER instance (a deep copy made before
    the setup ran), whose setup value differs (the setup function counts its executions).  During that one run the file's
    entries are forced over the instance's; afterwards the instance still holds ITS OWN first value, for every later call.
    Both flavours.  Yields (variant, problems)."""
    import asyncio as _aio
    import copy as _copy
    import os as _os
    import tempfile as _tmp
    from tawazi import dag as _dag, xn as _xn
    for is_async in (False, True):
        cnt = {"n": 0}

        def load():
            cnt["n"] += 1
            return ("model", cnt["n"])

        def use(m, x):
            return (m, x)
        for f_ in (load, use):
            f_.__qualname__ = f_.__name__
        xl, xu = _xn(load, setup=True), _xn(use)

        def pipe(x):
            return xu(xl(), x)
        d = _dag(pipe, is_async=is_async)
        other = _copy.deepcopy(d)
        run = (lambda c: _aio.run(c)) if is_async else (lambda v: v)
        fd, path = _tmp.mkstemp(suffix=".pkl", prefix="twzforeign")
        _os.close(fd)
        bad = []
        try:
            run(d.setup())                                   # d: ("model", 1)
            first = run(d(1))
            run(other.executor(cache_in=path)(2))            # other computes ("model", 2) and writes it
            during = run(d.executor(from_cache=path)(3))     # the file's entries are forced over d's for THIS run
            after = [run(d(4)), run(d.executor()(5))]
            if first != (("model", 1), 1):
                bad.append("first call returned %r" % (first,))
            for k_, r in zip((4, 5), after):
                if r != (("model", 1), k_):
                    bad.append("after the restart from a foreign file a run of the instance returned %r, its own setup value is ('model', 1)" % (r,))
            if cnt["n"] != 2:
                bad.append("the setup function ran %d times in all (once per instance expected)" % cnt["n"])
            if not (isinstance(during, tuple) and during[1] == 2):
                # the restart takes `use`'s result from the file too: it is the foreign run's result
                bad.append("the restart from the file returned %r" % (during,))
        except BaseException as e:  # noqa: BLE001
            bad.append("raised %s: %s" % (type(e).__name__, str(e)[:160]))
        finally:
            try:
                _os.remove(path)
            except OSError:
                pass
        yield ("async" if is_async else "sync"), bad


def with_foreign_cache(run):
    def wrapped(pid, tier, seed):
        cov, fs, searcher = run(pid, tier, seed)
        k_ = 0
        for variant, problems in foreign_cache_histories():
            k_ += 1
            if problems:
                fs.append(Failure("counterexample", "setup-value-replaced-by-a-foreign-cache-file(%s)" % variant, dict(variant=variant),
                                  dict(problems=problems), slice_="H"))
        cov["foreign_cache_histories"] = k_
        cov["evaluations"] += k_
        return cov, fs, searcher
    return wrapped


def run_S_and_H(pid, tier, seed):
    """C03 also quantifies over the position of the call in a history on one instance."""
    cov, fs, searcher = run_S(pid, tier, seed)
    np_ = 0
    for variant, problems in pending_executor_runs():
        np_ += 1
        if problems:
            fs.append(Failure("counterexample", "pending-async-executor-run(%s)" % variant, dict(variant=variant), dict(problems=problems), slice_="H"))
    cov["pending_async_executor_runs"] = np_
    covh, fsh, _ = run_H(pid, tier, seed)
    cov["histories"] = {k: v for k, v in covh.items() if k not in ("samples", "rule")}
    cov["evaluations"] += covh["evaluations"]
    cov["rule"] += "; plus operation histories on one instance (slice H): " + covh["rule"]
    return cov, fs + fsh, searcher


reg("C03", ["Props.C03_start_at_most_once", "Props.C03_exactly_once_at_done", "Props.C03_only_selected",
            "Props.C03_distinct_call_sites", "Props.C03_distinct_call_sites_flags", "Props.C11_setup_at_most_once", "Props.C03_call_site_ids_distinct"] + COMMON_S_THEOREMS, run_S_and_H, ASSUME_S)
def placement_when_called_from_a_worker(inner_maxc, outer_maxc, inner_async, with_setup=False):
    """A DAG invoked at RUN time from a thread node of another DAG: its invoking thread is a pool worker of the outer DAG.
    Pooled nodes of the inner DAG must still run on other threads, its main-thread nodes on the invoking (worker) thread."""
    import asyncio as _a
    import threading as _t
    from tawazi import Resource as _R, xn as _xn
    from tawazi._dag.constructor import threadsafe_make_dag as _mk
    seen = {}

    def mkf(name):
        def f(*a):
            seen.setdefault(name, []).append(_t.get_ident())
            return name
        f.__name__ = f.__qualname__ = name
        return f
    xt = _xn(mkf("t"), resource=_R.thread)
    xt2 = _xn(mkf("t2"), resource=_R.thread)
    xa = _xn(mkf("a"), resource=_R.async_thread)
    xm = _xn(mkf("m"), resource=_R.main_thread)

    xsi = _xn(mkf("setup_inner"), setup=True)
    xso = _xn(mkf("setup_outer"), setup=True)

    def inner_desc():
        if with_setup:
            return xt(xsi()), xa(), xm(xt2())
        return xt(), xa(), xm(xt2())
    inner_desc.__name__ = inner_desc.__qualname__ = "inner_rt"
    inner = _mk(inner_desc, inner_maxc, inner_async)

    def call_inner():
        seen["invoker"] = [_t.get_ident()]
        r = inner()
        return _a.run(r) if _a.iscoroutine(r) else r
    call_inner.__name__ = call_inner.__qualname__ = "call_inner"
    xc = _xn(call_inner, resource=_R.thread)

    def outer_desc():
        if with_setup:
            return xc(), xso()
        return xc()
    outer_desc.__name__ = outer_desc.__qualname__ = "outer_rt"
    outer = _mk(outer_desc, outer_maxc, False)
    res = {}
    th = _t.Thread(target=lambda: res.setdefault("v", outer()), daemon=True)
    th.start(); th.join(12)
    if th.is_alive():
        return ["hang"], seen
    if "v" not in res:
        return ["exception"], seen
    inv = seen["invoker"][0]
    bad = []
    for n_ in ("t", "t2", "a"):
        if inv in seen.get(n_, []):
            bad.append("pooled node %s ran on the invoking thread" % n_)
    if seen.get("m") != [inv]:
        bad.append("main-thread node ran off the invoking thread")
    return bad, seen


def run_S_C04(pid, tier, seed):
    cov, fs, searcher = run_S(pid, tier, seed)
    n = 0
    for inner_maxc in (1, 2, 3):
        for outer_maxc in (1, 2):
            for inner_async in (False,):
                n += 1
                bad_, seen = placement_when_called_from_a_worker(inner_maxc, outer_maxc, inner_async)
                if bad_:
                    fs.append(Failure("counterexample", "placement-wrong-when-invoked-from-a-worker-thread",
                                      dict(inner_max_concurrency=inner_maxc, outer_max_concurrency=outer_maxc, inner_async=inner_async),
                                      dict(problems=bad_, thread_idents={k_: v_ for k_, v_ in seen.items()}), slice_="S"))
    cov["runtime_nested_placements"] = n
    cov["evaluations"] += n
    return cov, fs, searcher


reg("C04", ["Props.C04_inflight_le_maxc", "Props.C04_resource_decides", "Props.C04_in_flight_sets_match_resource"] + COMMON_S_THEOREMS,
    run_S_C04,
    ASSUME_S + ["OS thread identity is observed by the harness (enter events), not modelled"])
def run_S_and_gathers(pid, tier, seed):
    """C05 speaks of ONE execution: it must also hold inside each of several executions of one DAG that are in flight
    together (concurrent awaits in one loop), where nodes of different executions do overlap."""
    cov, fs, searcher = run_S(pid, tier, seed)
    base = random.Random("C05/g/%d" % seed)
    n_g, seen, hits = (80 if tier == "quick" else 1500), 0, 0
    n_dir = 24 if tier == "quick" else 200
    for k in range(n_dir + n_g):
        rng = random.Random(base.randrange(1 << 62))
        if k < n_dir:
            # directed: two pooled nodes and a sequential one that has to wait for them, below the concurrency limit; the
            # other executions finish the SAME node ids while this execution still has one of them running
            nd = lambda prio, seq, res: dict(preds=[], prio=prio, seq=seq, res=res, fail=False, flag=None, ret="t")  # noqa: E731
            specs_ = [nd(3, False, "a"), nd(2, False, "a"), nd(1, True, rng.choice(["a", "a", "m"]))]
            if rng.random() < 0.4:
                specs_.append(nd(0, False, "a"))
            sc = dict(n=len(specs_), specs=specs_, maxc=len(specs_) + 1, is_async=True, sel=None, nested=False,
                      k=rng.choice([2, 2, 3]), script=dict(seed=rng.randrange(1 << 30)))
        else:
            sc = A.gen_gather(rng)
        if not any(s_["seq"] for s_ in sc["specs"]):
            sc["specs"][rng.randrange(sc["n"])]["seq"] = True
        for s_ in sc["specs"]:
            s_["setup"] = False
        sc["gather_setup"] = False
        out = A.run_gather(sc, rng.randrange(1 << 30))
        seen += 1
        probs = A.sequential_overlaps(sc, A.LAST_RUN[0])     # a run that hung is judged too, as far as it went
        if probs:
            hits += 1
            fs.append(Failure("counterexample", "sequential-overlap-inside-one-of-several-concurrent-executions", sc,
                              dict(problems=probs[:3]), slice_="A"))
            if hits >= 3:
                break
        if out[0] == "hang":
            # liveness of concurrent awaits is C17's business; a few more batches are tried (a stuck scheduler thread may
            # stay behind in this process each time: only a few)
            nh_ = cov.get("concurrent_execution_batches_hung", 0) + 1
            cov["concurrent_execution_batches_hung"] = nh_
            if nh_ >= 4:
                break
    cov["concurrent_execution_batches"] = seen
    cov["evaluations"] += seen
    cov["rule"] += "; plus batches of 2-8 concurrent awaits of one AsyncDAG holding a sequential node (overlap judged per execution)"
    return cov, fs, searcher


reg("C05", ["Props.C05_sequential_exclusive", "Props.C05_inside_concurrent_executions"] + COMMON_S_THEOREMS,
    run_S_and_gathers, ASSUME_S)
def run_S_and_G_C06(pid, tier, seed):
    """C06 = the scheduler picks by the table (slice S, model fed the documented priorities) + the table every
    kind of graph object carries is the documented one (slice G: whole DAG, executors, after config, composed)."""
    cov, fs, searcher = run_S(pid, tier, seed, cp_mode="spec")
    covg, fsg, _ = run_G(pid, tier, seed)
    cov["priority_tables"] = {k: v for k, v in covg.items() if k not in ("samples", "rule")}
    cov["evaluations"] += covg["evaluations"]
    cov["rule"] += "; plus the compound-priority tables of slice G: " + covg["rule"]
    return cov, fs + fsg, searcher


reg("C06", ["Props.C06_best_ready", "Props.C07_cp_is_own_plus_distinct_descendants"] + COMMON_S_THEOREMS,
    None, ASSUME_S)
reg("C08", ["Props.C08_partial", "Props.C08_mixed_witness", "TM.w_run", "TM.w_blocks"] + COMMON_S_THEOREMS,
    lambda pid, tier, seed: run_S(pid, tier, seed), ASSUME_S)
def run_S_and_K(pid, tier, seed):
    """C09: the scheduler slice, plus dependency tables handed to the constructor directly (cyclic ones included)."""
    import slice_k as K
    cov, fs, searcher = run_S(pid, tier, seed)
    kstats, kfs = K.run(pid, tier, seed, 120 if tier == "quick" else 1500)
    # a DAG invoked at RUN time from a pool thread of another DAG (both sides with cold setup nodes, or without): terminates
    nrt = 0
    for inner_maxc, outer_maxc in ((1, 1), (2, 2), (1, 3)):
        for with_setup in (True, False):
            nrt += 1
            bad_, _seen = placement_when_called_from_a_worker(inner_maxc, outer_maxc, False, with_setup=with_setup)
            if "hang" in bad_:
                fs.append(Failure("counterexample", "hang/dag-invoked-at-run-time-from-a-worker-thread",
                                  dict(inner_max_concurrency=inner_maxc, outer_max_concurrency=outer_maxc, cold_setup_nodes=with_setup),
                                  dict(note="the call neither returned nor raised within 12 s"), slice_="S"))
                break
    # executors on sub-graphs of DAGs with debug nodes, RUN_DEBUG_NODES on: building one and running it terminate
    ndbg = 0
    for k, scg, rngg in graph_stream(seed, 40 if tier == "quick" else 600, pid):
        if not any(s_["debug"] for s_ in scg["specs"]):
            continue
        G.set_debug(True)
        try:
            dg, _n = G.build(scg, inst=("t9", k))
            ids_g, pos_g, preds_g, _p, _dbg, _ok = G.extract(dg)
            stuck = None
            for _j in range(3):
                Rg, Xg, Tg, res_g = choose_selection(rngg, scg, pos_g, preds_g)
                scg.pop("_directed_debug", None)
                if res_g is None:
                    continue
                to_real_g = lambda al: None if al is None else [G.to_real_alias(None, dg, a) for a in al]  # noqa: E731
                box = {}

                def _go():
                    try:
                        ex_ = dg.executor(root_nodes=to_real_g(Rg), exclude_nodes=to_real_g(Xg), target_nodes=to_real_g(Tg))
                        box["made"] = True
                        G.call(dg, ex_)
                    except BaseException:  # noqa: BLE001
                        pass
                    box["done"] = True
                th_ = threading.Thread(target=_go, daemon=True)
                th_.start()
                th_.join(12)
                ndbg += 1
                if th_.is_alive():
                    stuck = "hang/executor-run" if box.get("made") else "hang/executor-creation"
                    fs.append(Failure("counterexample", stuck, scg, dict(R=Rg, X=Xg, T=Tg, run_debug_nodes=True), slice_="G"))
                    break
            if stuck:
                break
        finally:
            G.set_debug(False)
    cov["debug_subgraph_executors_terminate"] = ndbg
    cov["evaluations"] += ndbg
    cov["runtime_nested_calls"] = nrt
    cov["evaluations"] += nrt
    cov["handbuilt_tables"] = kstats
    cov["evaluations"] += kstats["tables"]
    cov["traces_validated_against_impl"] = cov.get("traces_validated_against_impl", 0) + kstats["tables"]
    cov["rule"] = cov.get("rule", "") + ("; plus hand-built dependency tables given to the DAG / AsyncDAG constructor in a random listing "
                                         "order (acyclic, back edges, self-loops, 2-cycles, isolated and terminal cycles): accept/refuse compared "
                                         "with TM.acyclicB, accepted tables run under scripted completion orders")
    return cov, fs + kfs, searcher


reg("C09", ["Props.C09_bound", "Props.C09_progress", "TM.M_step", "TM.rank_decreases", "Props.C09_traced_dag_terminates",
            "Props.C09_build_check_exact", "Props.C09_every_cycle_refused", "Props.C09_accepted_table_terminates"] + COMMON_S_THEOREMS,
    run_S_and_K, ASSUME_S)
def invalid_argument_calls():
    """C14 'a call raises only because of a node failure or invalid arguments': the two invalid-argument
    cases must raise their documented exception and start nothing."""
    import asyncio as _a
    from tawazi import xn as _xn
    from tawazi._dag.constructor import threadsafe_make_dag as _mk
    out = []
    ran = []

    def f(a, b=1):
        ran.append("f")
        return (a, b)
    xf = _xn(f)

    def describe(x, y=2):
        return xf(x, y)
    for is_async in (False, True):
        d = _mk(describe, 2, is_async)
        for args, want in (((), "TawaziArgumentException"), ((1, 2, 3), "TypeError")):
            ran.clear()
            try:
                r = d(*args)
                r = _a.run(r) if _a.iscoroutine(r) else r
                got = "returned %r" % (r,)
            except BaseException as e:  # noqa: BLE001
                got = type(e).__name__
            out.append((is_async, args, want, got, list(ran)))
    return out


def call_site_locations():
    """One decorated function used at several call sites (several LINES) of one description; the call site that fails is the
    first, a middle or the last one: the exception names that node AND the line of THAT call.  Yields (case, problems)."""
    import inspect as _inspect
    import re as _re
    from tawazi import dag as _dag, xn as _xn
    FAIL = [None]

    def check(v, k):
        if k == FAIL[0]:
            raise ValueError("check %d failed" % k)
        return v
    check.__qualname__ = check.__name__ = "check"
    xcheck = _xn(check)

    def pipe(x):
        a = xcheck(x, 0)
        b = xcheck(a, 1)
        c = xcheck(b, 2)
        d = xcheck(c, 3)
        return d
    src, first = _inspect.getsourcelines(pipe)
    line_of = {}
    for off, text in enumerate(src):
        m = _re.search(r"xcheck\(\w+, (\d)\)", text)
        if m:
            line_of[int(m.group(1))] = first + off
    for is_async in (False, True):
        d = _dag(pipe, is_async=is_async)
        for k in (0, 1, 2, 3):
            FAIL[0] = k
            bad = []
            try:
                r = d(5)
                if is_async:
                    import asyncio as _aio
                    r = _aio.run(r)
                bad.append("the call returned %r although call site %d fails" % (r, k))
            except BaseException as e:  # noqa: BLE001
                msg = str(e)
                want_id = "check" if k == 0 else "check<<%d>>" % k
                m = _re.search(r"ExecNode (\S+) at (.+):(\d+)$", msg)
                if not m:
                    bad.append("no node / location in the message: %r" % msg[:160])
                else:
                    if m.group(1) != want_id:
                        bad.append("names node %s, the failing call site is %s" % (m.group(1), want_id))
                    if int(m.group(3)) != line_of.get(k):
                        bad.append("points at line %s, call site %d is written at line %s" % (m.group(3), k, line_of.get(k)))
                if not isinstance(e.__cause__, ValueError):
                    bad.append("cause is %r" % (e.__cause__,))
            finally:
                FAIL[0] = None
            yield "%s/site-%d" % ("async" if is_async else "sync", k), bad


def run_S_C14(pid, tier, seed):
    cov, fs, searcher = run_S(pid, tier, seed)
    ncs = 0
    for case, problems in call_site_locations():
        ncs += 1
        if problems:
            fs.append(Failure("counterexample", "wrong-node-or-call-location(%s)" % case, dict(case=case), dict(problems=problems), slice_="S"))
    cov["call_site_location_cases"] = ncs
    res = invalid_argument_calls()
    for is_async, args, want, got, ran in res:
        if got != want or ran:
            fs.append(Failure("counterexample", "invalid-arguments-not-refused", dict(is_async=is_async, args=args),
                              dict(want=want, got=got, nodes_started=ran), slice_="S"))
    cov["invalid_argument_calls"] = len(res)
    # no node fails in these: ANY exception out of concurrent awaits of one AsyncDAG (cold setup nodes included: whoever gets
    # there first computes them) is an internal error, not a node failure
    base = random.Random("C14/g/%d" % seed)
    ng = 0
    for k in range(60 if tier == "quick" else 1000):
        rng = random.Random(base.randrange(1 << 62))
        sc = A.gen_gather(rng)
        out = A.run_gather(sc, rng.randrange(1 << 30))
        ng += 1
        if out[0] == "exc":
            fs.append(Failure("counterexample", "call-raised-without-any-node-failure:" + type(out[1]).__name__, sc,
                              dict(outcome=repr(out[1])[:300]), slice_="A"))
            break
        if out[0] == "hang":
            break       # liveness is C09 / C17's business
    cov["concurrent_await_batches_without_failing_nodes"] = ng
    cov["evaluations"] += ng
    return cov, fs, searcher


reg("C14", ["Props.C14_err_terminal", "Props.C14_err_is_node_failure", "Props.C14_no_dependent_of_failed"] + COMMON_S_THEOREMS,
    run_S_C14,
    ASSUME_S + ["exception message / call-location formatting is checked on every failing run, not proved"])


# ---------------------------------------------------------------------------------------------
# slices G-cp / G-sel engine
# ---------------------------------------------------------------------------------------------
import subprocess  # noqa: E402
import sys  # noqa: E402

import networkx as nx  # noqa: E402

import slice_g as G  # noqa: E402


def spec_cp(preds, prio):
    g = G.nxg(preds)
    return [prio[i] + sum(prio[x] for x in nx.descendants(g, i)) for i in range(len(preds))]


def graph_stream(seed, count, pid, **kw):
    base = random.Random("%s/g/%d" % (pid, seed))
    for j, (name, sc) in enumerate(corpus_items(pid, "G")):
        for s_ in sc["specs"]:
            if isinstance(s_.get("tag"), list):
                s_["tag"] = tuple(s_["tag"])
        yield "c%d" % j, sc, random.Random("corpus/" + name)
    for k in range(count):
        yield k, G.gen(random.Random(base.randrange(1 << 62)), **kw), random.Random(base.randrange(1 << 62))


def choose_selection(rng, sc, pos, preds):
    """(R, X, T) as alias lists, mostly inside the precondition; resolved index sets alongside."""
    n = sc["n"]
    g = G.nxg(preds)
    P = [pos["n%d" % i] for i in range(n)]
    inv = {P[i]: i for i in range(n)}
    roots = [i for i in range(n) if g.in_degree(P[i]) == 0]

    def resolve(aliases):
        if aliases is None:
            return None
        out = []
        for a in aliases:
            for i in G.resolve_alias(sc, a):
                if P[i] not in out:
                    out.append(P[i])
        return out

    def with_dups(al, idxs):
        """the same node named twice (through different alias forms) is still one node"""
        if al and idxs and rng.random() < 0.3:
            for _ in range(rng.randint(1, 2)):
                al.insert(rng.randrange(len(al) + 1), G.alias_for(rng, sc, rng.choice(idxs)))
        return al

    R = X = T = None
    specs_ = sc["specs"]
    pairs = [(x, p) for x in range(n) if specs_[x]["debug"] for p in specs_[x]["preds"] if not specs_[p]["debug"]]
    if pairs and rng.random() < 0.3:
        # directed: the target is a parent of a debug node (so the debug node hangs below a LEAF of the
        # selection and is a candidate for being pulled in), the roots are SOME of the target's root ancestors
        # (preferably not all of them: the target then has ancestors outside the selection)
        def anc_roots_of(p):
            anc = nx.ancestors(g, P[p]) | {P[p]}
            return [r_ for r_ in roots if P[r_] in anc]
        rich = [(x, p) for x, p in pairs if len(anc_roots_of(p)) >= 2]
        x, p = rng.choice(rich if rich and rng.random() < 0.8 else pairs)
        anc_roots = anc_roots_of(p)
        T = [G.alias_for(rng, sc, p)]
        if anc_roots and rng.random() < 0.8:
            k_ = rng.randint(1, len(anc_roots) - 1) if len(anc_roots) >= 2 and rng.random() < 0.8 else rng.randint(1, len(anc_roots))
            R = [G.alias_for(rng, sc, i) for i in rng.sample(anc_roots, k_)]
        try:
            resolve(R), resolve(T)
        except ValueError:
            return R, X, T, None
        sc["_directed_debug"] = True
        return R, X, T, resolve
    if roots and rng.random() < 0.4:
        rs = rng.sample(roots, rng.randint(1, len(roots)))
        R = with_dups([G.alias_for(rng, sc, i) for i in rs], rs)
    r = rng.random()
    if r < 0.05:
        nonroots = [i for i in range(n) if i not in roots]
        if nonroots:
            R = [("str", "n%d" % rng.choice(nonroots))]
    elif r < 0.11:
        # an EMPTY list is a selection too — of nothing: no root at all (it is not "no restriction"), alone or next to
        # targets (which are then outside the selection) or exclusions
        R = []
        try:
            resolve(R)
        except ValueError:
            return R, X, T, None
        r2 = rng.random()
        if r2 < 0.4:
            T = [G.alias_for(rng, sc, rng.randrange(n))]
        elif r2 < 0.55:
            X = []
        elif r2 < 0.7:
            T = []
        return R, X, T, resolve
    elif r < 0.15:
        empties = rng.choice([("X",), ("T",), ("X", "T")])
        X = [] if "X" in empties else X
        T = [] if "T" in empties else T
        if roots and rng.random() < 0.5:
            R = [G.alias_for(rng, sc, rng.choice(roots))]
        try:
            resolve(R)
        except ValueError:
            return R, X, T, None
        return R, X, T, resolve
    try:
        Rr = resolve(R)
    except ValueError:
        return R, X, T, None
    base = G.py_closure(preds, Rr, None, None) if Rr is None or all(g.in_degree(x) == 0 for x in Rr) else set()
    cand = [inv[x] for x in sorted(base) if x in inv]
    if cand and rng.random() < 0.5:
        xs = rng.sample(cand, rng.randint(0, min(2, len(cand))))
        # directed: excluded nodes that DEPEND ON EACH OTHER (p -> q, or p ~> q), listed in either order: what hangs
        # below q is excluded exactly like what hangs below p
        rel = [(a, b) for a in cand for b in cand if a != b and P[b] in nx.descendants(g, P[a])]
        if rel and rng.random() < 0.4:
            direct = [(a, b) for a, b in rel if g.has_edge(P[a], P[b])]
            a, b = rng.choice(direct if direct and rng.random() < 0.7 else rel)
            xs = [a, b] if rng.random() < 0.5 else [b, a]
        X = with_dups([G.alias_for(rng, sc, i) for i in xs], xs)
    Xr = resolve(X)
    base2 = G.py_closure(preds, Rr, Xr, None) if base else set()
    cand = [inv[x] for x in sorted(base2) if x in inv]
    r = rng.random()
    if cand and r < 0.6:
        ts = rng.sample(cand, rng.randint(1, min(2, len(cand))))
        T = with_dups([G.alias_for(rng, sc, i) for i in ts], ts)
    elif r < 0.65:
        T = [("str", "nope")]
    elif r < 0.72 and Xr:
        T = [("ref", inv[Xr[0]])] if Xr[0] in inv else T     # a target removed by the exclusion
    return R, X, T, resolve


def run_G(pid, tier, seed):
    B = budget(tier)
    failures, samples = [], []
    stats = dict(graphs=0, cp_tables=0, cp_after_config=0, selections=0, valueerrors=0, outofscope=0,
                 debug_pulled=0, with_debug_nodes=0, shared_descendants=0, exec_runs=0, tie_free_orders=0,
                 hash_seeds=0)
    nontrivial = set()
    queries = []      # (qid, kind, payload)
    blocks = []
    monitors_only = []

    def bad(sig, sc, **detail):
        failures.append(Failure("counterexample", sig, sc, detail, slice_="G"))

    hung_creation = False
    for k, sc, rng in graph_stream(seed, B["g_graphs"], pid):
        if hung_creation:
            break       # a spinning thread is left behind: stop exploring (the hang is a counterexample already)
        stats["graphs"] += 1
        G.set_debug(False)
        d, _nodes = G.build(sc, inst=("g", k))
        ids_, pos, preds, prio, debug, topo_ok = G.extract(d)
        if not topo_ok:
            failures.append(Failure("correspondence", "G-recording-order-not-topological", sc, dict(ids=ids_), slice_="G"))
            continue
        gx = G.nxg(preds)
        if any(len(list(nx.all_simple_paths(gx, a, b, cutoff=4))) > 1 for a in gx for b in nx.descendants(gx, a)) \
                if len(ids_) <= 9 else False:
            stats["shared_descendants"] += 1
        want_cp = spec_cp(preds, prio)
        prio0 = list(prio)
        qlines = ["cp"]
        meta = [("cp", dict(real=[d.graph_ids.compound_priority[x] for x in ids_], where="whole-dag"))]
        stats["cp_tables"] += 1
        if pid in ("C06", "C07"):
            real = [d.graph_ids.compound_priority[x] for x in ids_]
            if real != want_cp:
                bad("cp-table-wrong/whole-dag", sc, real=dict(zip(ids_, real)), want=dict(zip(ids_, want_cp)))
            if any(len(ps) > 1 for ps in preds):
                nontrivial.add(S.structural_hash(dict(sc)))
        # reconfigure priorities
        if pid in ("C06", "C07") and (rng.random() < 0.5 or isinstance(k, str) or k < 12) and sc["n"] >= 1:
            stats["cp_after_config"] += 1
            P_ = [pos["n%d" % i] for i in range(sc["n"])]
            all_tags = sorted({t for s_ in sc["specs"] if s_["tag"] is not None
                               for t in ([s_["tag"]] if isinstance(s_["tag"], str) else s_["tag"])})
            keys = []
            for _e in range(rng.choice([1, 1, 2, 3])):
                # an entry addresses nodes through a TAG (every node carrying exactly it) or a node id, and states the
                # priority, the sequential flag, both, or nothing
                key = rng.choice(all_tags) if all_tags and rng.random() < 0.5 else "n%d" % rng.randrange(sc["n"])
                if key in [k_ for k_, _ in keys]:
                    continue
                ent, r_ = {}, rng.random()
                if r_ < 0.8:
                    ent["priority"] = rng.choice([0, 0, -7, 4, 9, 50])
                if r_ >= 0.6 and r_ < 0.95:
                    ent["is_sequential"] = rng.random() < 0.5
                keys.append((key, ent))
            malformed = None
            # (directed on the pinned graphs and the first graphs of every run: a valid priority change FIRST, the malformed
            # entry LAST — the shape that was partly applied before the fix "a refused configuration leaves the DAG untouched")
            force_mal = isinstance(k, str) or (isinstance(k, int) and k < 12)
            if force_mal and not any("priority" in e_ for _, e_ in keys):
                free0_ = [k_ for k_ in ["n%d" % i_ for i_ in range(sc["n"])] if k_ not in [x_ for x_, _ in keys]]
                if free0_:
                    keys.insert(0, (free0_[0], {"priority": 50}))
            if force_mal or rng.random() < 0.25:
                # a MALFORMED entry (a priority that is not an int; an empty YAML entry) somewhere among valid ones: the whole
                # configuration is refused and NOTHING of it is applied — the entries before it included
                free_ = [k_ for k_ in ["n%d" % i_ for i_ in range(sc["n"])] if k_ not in [x_ for x_, _ in keys]]
                if free_:
                    malformed = (rng.choice(free_), rng.choice([{"priority": "7"}, {"priority": "high", "is_sequential": True}, None]))
                    keys.insert(len(keys) if force_mal else rng.randint(0, len(keys)), malformed)
            # the refused configuration is given again with the malformed entry dropped: it applies, from the untouched state
            rounds_ = [(list(keys), malformed)] + ([([x_ for x_ in keys if x_ != malformed], None)] if malformed is not None else [])
            for r_, (keys, malformed) in enumerate(rounds_):
                conf_ = {"nodes": dict(keys)}
                try:
                    expanded = [(i, ent) for key, ent in keys for i in G.resolve_alias(sc, ("str", key))]
                    want_refused = len({i for i, _ in expanded}) != len(expanded) or malformed is not None
                except ValueError:
                    expanded, want_refused = [], True
                seq0 = [bool(d.exec_nodes[x].is_sequential) for x in ids_]
                try:
                    d.config_from_dict(conf_)
                    if rng.random() < 0.3:
                        d.config_from_dict(conf_)     # the same dict object given again: still the same configuration
                    real_cfg = "OK"
                except ValueError:
                    real_cfg = "REFUSED"
                except (TypeError, AttributeError):
                    if malformed is None:
                        raise
                    real_cfg = "REFUSED"
                if len(keys) > 1:
                    stats["cp_after_config_multi_entry"] = stats.get("cp_after_config_multi_entry", 0) + 1
                if any(not k_.startswith("n") or not k_[1:].isdigit() for k_, _ in keys):
                    stats["cp_after_config_by_tag"] = stats.get("cp_after_config_by_tag", 0) + 1
                want_prio, want_seq = list(prio), list(seq0)
                if want_refused:
                    stats["config_refused"] = stats.get("config_refused", 0) + 1
                    if real_cfg == "OK":
                        bad("ambiguous-configuration-accepted", sc, config=conf_)
                elif real_cfg == "REFUSED":
                    failures.append(Failure("correspondence", "G-valid-configuration-refused", sc, dict(config=conf_), slice_="G"))
                else:
                    for i, ent in expanded:
                        if "priority" in ent:
                            want_prio[P_[i]] = ent["priority"]
                        if "is_sequential" in ent:
                            want_seq[P_[i]] = ent["is_sequential"]
                prio2 = [d.exec_nodes[x].priority for x in ids_]
                seq2 = [bool(d.exec_nodes[x].is_sequential) for x in ids_]
                if (prio2, seq2) != (want_prio, want_seq) and not (want_refused and real_cfg == "OK"):
                    bad("refused-configuration-partly-applied" if real_cfg == "REFUSED" else "configuration-not-applied", sc, config=conf_,
                        real=dict(zip(ids_, zip(prio2, seq2))), want=dict(zip(ids_, zip(want_prio, want_seq))),
                        table=dict(zip(ids_, [d.graph_ids.compound_priority[x] for x in ids_])))
                want2 = spec_cp(preds, want_prio)
                real2 = [d.graph_ids.compound_priority[x] for x in ids_]
                if real2 != want2 and not (want_refused and real_cfg == "OK"):
                    bad("cp-table-wrong/after-config", sc, real=dict(zip(ids_, real2)), want=dict(zip(ids_, want2)),
                        config=conf_)
                # the same configuration decided by the model (GM.applyConfig), on the table BEFORE it
                q_ = "cfg %s ; %s" % (" ".join(str(int(b)) for b in seq0), " ; ".join(
                    ("s:%s ! !" % k_) if (malformed is not None and (k_, e_) == malformed) else
                    "s:%s %s %s" % (k_, e_.get("priority", "-"), int(e_["is_sequential"]) if "is_sequential" in e_ else "-")
                    for k_, e_ in keys))
                blocks.append(G.graph_block("cfg%s_%d" % (k, r_), preds, prio, debug, [q_], names=G.scenario_names(sc, ids_, P_)))
                queries.append(("cfg%s_%d" % (k, r_), [("cfg", dict(real=(real_cfg, prio2, seq2, real2), config=conf_))], sc))
                prio, want_cp = want_prio, want2
        # a DAG obtained by compose(): its table must obey the same definition (its node table has no recording order)
        if pid in ("C06", "C07") and rng.random() < 0.4 and sc["n"] >= 2:
            import warnings as _w
            _w.simplefilter("ignore")
            outs_c = rng.sample(range(sc["n"]), rng.randint(1, min(2, sc["n"])))
            ins_c = [i for i in rng.sample(range(sc["n"]), rng.randint(0, min(2, sc["n"]))) if i not in outs_c]
            try:
                comp = d.compose("composed%s" % k, [d.exec_nodes["n%d" % i] for i in ins_c],
                                 [d.exec_nodes["n%d" % i] for i in outs_c])
            except ValueError:
                comp = None
            except BaseException as e:  # noqa: BLE001
                # a setup node fed by a compose input is refused at build (TawaziUsageError): a legitimate refusal
                if type(e).__name__ != "TawaziUsageError":
                    raise
                stats["compose_refused"] = stats.get("compose_refused", 0) + 1
                comp = None
            if comp is not None:
                stats["composed_tables"] = stats.get("composed_tables", 0) + 1
                cids, cpos, cpreds, cprio, cdebug, _ok = G.extract(comp, toposort=True)
                cwant = spec_cp(cpreds, cprio)
                creal = [comp.graph_ids.compound_priority[x] for x in cids]
                if creal != cwant:
                    bad("cp-table-wrong/composed-dag", sc, inputs=ins_c, outputs=outs_c, real=dict(zip(cids, creal)),
                        want=dict(zip(cids, cwant)), node_table_order=list(comp.exec_nodes.keys()))
                blocks.append(G.graph_block("cmp%s" % k, cpreds, cprio, cdebug, ["cp"]))
                queries.append(("cmp%s" % k, [("cp", dict(real=creal, where="composed-dag"))], sc))
        if any(debug):
            stats["with_debug_nodes"] += 1
        # selections
        stored_setups = {}       # setup values earlier executors computed on the instance `d` (kept for some of the runs)
        prev_rx = None
        for j in range(B["g_sels"]):
            dbg = rng.random() < 0.5 if pid != "C12" else rng.random() < 0.2
            if prev_rx is not None and rng.random() < 0.7:
                # directed: the SAME roots again, on the same instance, without the exclusion the previous selection had
                # (whatever that one left on the instance must not shrink this one)
                R, X, T, resolve = prev_rx[0], None, None, prev_rx[1]
                stats["same_roots_again_without_the_exclusion"] = stats.get("same_roots_again_without_the_exclusion", 0) + 1
            else:
                R, X, T, resolve = choose_selection(rng, sc, pos, preds)
            prev_rx = None
            if sc.pop("_directed_debug", False) and pid != "C12" and rng.random() < 0.6:
                dbg = True       # the directed shape only matters when debug nodes are pulled in
            G.set_debug(dbg)
            to_real = lambda al: None if al is None else [G.to_real_alias(None, d, a) for a in al]  # noqa: E731
            try:
                if R is None and X is None and T is not None and rng.random() < 0.35:
                    # the same selection asked for through cache_deps_of (the targets and what they depend on): the debug
                    # rules apply to that kind of executor exactly as to the others
                    mk_ex = lambda: d.executor(cache_deps_of=to_real(T))  # noqa: E731
                    stats["cache_deps_of_executors"] = stats.get("cache_deps_of_executors", 0) + 1
                else:
                    mk_ex = lambda: d.executor(root_nodes=to_real(R), exclude_nodes=to_real(X), target_nodes=to_real(T))  # noqa: E731
                # building the executor must return or raise: a watchdog, because a spinning graph preparation cannot be killed
                box = {}

                def _mk():
                    try:
                        box["ex"] = mk_ex()
                    except BaseException as e_:  # noqa: BLE001
                        box["exc"] = e_
                th_ = threading.Thread(target=_mk, daemon=True)
                th_.start()
                th_.join(10)
                if th_.is_alive():
                    bad("executor-creation-did-not-return", sc, case=dict(R=R, X=X, T=T, dbg=dbg))
                    hung_creation = True
                    break
                if "exc" in box:
                    raise box["exc"]
                ex = box["ex"]
                real = ("SEL", sorted(pos[x] for x in ex.graph.nodes))
                real_tab = {pos[x]: ex.graph.compound_priority[x] for x in ex.graph.nodes}
            except ValueError:
                real = ("VALUEERROR",)
                ex = None
            except BaseException as e:  # noqa: BLE001
                real = ("EXC", type(e).__name__)
                ex = None
            stats["selections"] += 1
            case = dict(R=R, X=X, T=T, dbg=dbg)
            if resolve is None:
                model_static = ("VALUEERROR",)
                Rr = Xr = Tr = None
            else:
                try:
                    Rr, Xr, Tr = resolve(R), resolve(X), resolve(T)
                    model_static = None
                except ValueError:
                    model_static = ("VALUEERROR",)
            Ppos = [pos["n%d" % i] for i in range(sc["n"])]
            if model_static is not None:
                if real != model_static:
                    if real[0] == "SEL":
                        bad("unknown-alias-accepted", sc, case=case, real=real)
                    else:
                        failures.append(Failure("correspondence", "G-sel-alias", sc, dict(case=case, real=real), slice_="G"))
                else:
                    stats["valueerrors"] += 1
                # the Lean alias resolution must refuse it too (GM.resolveAll = none)
                qlines.append(G.asel_query(R, X, T, dbg, Ppos))
                meta.append(("alias-static", dict(real=real, case=case)))
                continue
            # aliases go to the model as written (node reference / string): GM.resolveAll resolves them
            qlines.append(G.asel_query(R, X, T, dbg, Ppos))
            stats["alias_selections"] = stats.get("alias_selections", 0) + 1
            meta.append(("sel", dict(real=real, case=case, resolved=(Rr, Xr, Tr), dbg=dbg,
                                     debug_nodes=[x for x in range(len(ids_)) if debug[x]])))
            # ---- monitors independent of the Lean model
            if real[0] == "SEL" and R and X and T is None:
                prev_rx = (R, resolve)
            if real[0] == "SEL":
                got = set(real[1])
                clo = G.py_closure(preds, Rr, Xr, Tr)
                nondebug_want = {x for x in clo if not debug[x]}
                if pid == "C12":
                    if {x for x in got if not debug[x]} != nondebug_want and _in_precondition(preds, Rr, Xr, Tr):
                        bad("selection-differs-from-closure", sc, case=case, got=sorted(got), want_nondebug=sorted(nondebug_want))
                    nontrivial.add(json.dumps([S.structural_hash(dict(sc)), Rr, Xr, Tr]))
                if pid == "C13":
                    if not dbg and any(debug[x] for x in got):
                        bad("debug-node-selected-with-flag-off", sc, case=case, got=sorted(got),
                            debug_nodes=[x for x in got if debug[x]])
                    if {x for x in got if not debug[x]} != nondebug_want and _in_precondition(preds, Rr, Xr, Tr):
                        # the production nodes of a selection are the documented closure minus the debug nodes, flag on or off
                        # (a targeted debug node's production ancestors run in both settings: values must not depend on the flag)
                        bad("production-nodes-of-the-selection-depend-on-the-debug-flag", sc, case=case, flag=dbg,
                            got=sorted(x for x in got if not debug[x]), want=sorted(nondebug_want))
                    if dbg:
                        extra = got - clo
                        for x in extra:
                            if not debug[x]:
                                bad("non-debug-node-pulled-in", sc, case=case, node=x)
                            elif not set(preds[x]) <= got:
                                bad("pulled-debug-node-lacks-inputs", sc, case=case, node=x, preds=preds[x], got=sorted(got))
                        if extra:
                            stats["debug_pulled"] += 1
                        if R is None and X is None and T is None and not all(x in got for x in range(len(ids_))):
                            bad("whole-dag-misses-debug-node", sc, got=sorted(got))
                    if any(debug):
                        nontrivial.add(json.dumps([S.structural_hash(dict(sc)), Rr, Xr, Tr, dbg]))
                if pid in ("C06", "C07"):
                    wrong = {ids_[x]: (v, want_cp[x]) for x, v in real_tab.items() if v != want_cp[x]}
                    if wrong:
                        which = "+".join(nm for nm, v in (("root", R), ("exclude", X), ("target", T)) if v is not None) or "none"
                        bad("cp-table-wrong/executor-%s" % which, sc, case=case, wrong=wrong)
                # ---- the same selection on top of a cache file holding EVERY result (a whole run of a fresh instance wrote it):
                # all nodes are "already computed" — the selection executes nothing and the real values of all of them come back
                if pid == "C12" and ex is not None and not any(debug) and rng.random() < 0.25:
                    import os as _os
                    import tempfile as _tmp
                    fd_, cpath = _tmp.mkstemp(suffix=".pkl", prefix="twzsel")
                    _os.close(fd_)
                    try:
                        dw, _n = G.build(sc, inst=("gw", k))
                        full = G.call(dw, dw.executor(cache_in=cpath))
                        d2_, _n = G.build(sc, inst=("gc", k))
                        G.set_debug(dbg)
                        to_real2 = lambda al: None if al is None else [G.to_real_alias(None, d2_, a) for a in al]  # noqa: E731
                        ex2 = d2_.executor(root_nodes=to_real2(R), exclude_nodes=to_real2(X), target_nodes=to_real2(T), from_cache=cpath)
                        before_ = dict(G.COUNTS)
                        r2 = G.call(d2_, ex2)
                        stats["selections_over_a_full_cache_file"] = stats.get("selections_over_a_full_cache_file", 0) + 1
                        if list(r2) != list(full):
                            bad("already-computed-nodes-outside-the-selection-returned-as-None", sc, case=case, got=r2, want=full)
                        ran_ = [i for i in range(sc["n"]) if G.COUNTS.get((("gc", k), i), 0) - before_.get((("gc", k), i), 0)]
                        if ran_:
                            bad("selection-over-a-full-cache-file-executed-nodes", sc, case=case, ran=ran_)
                    except BaseException as e_:  # noqa: BLE001
                        bad("selection-over-a-cache-file-raised", sc, case=case, exc=type(e_).__name__, message=str(e_)[:160])
                    finally:
                        try:
                            _os.remove(cpath)
                        except OSError:
                            pass
                # ---- run it: returned values and execution counters (C12 / C13)
                if pid in ("C12", "C13") and ex is not None and j < 3:
                    stats["exec_runs"] += 1
                    _check_values(pid, sc, d, ex, ids_, pos, preds, got, ("g", k), bad, case, stored=stored_setups)
                    if (stored_setups and rng.random() < 0.5) or prev_rx is not None:
                        stats["executors_on_an_instance_with_a_past"] = stats.get("executors_on_an_instance_with_a_past", 0) + 1
                    else:
                        d, _nodes = G.build(sc, inst=("g", k))   # fresh instance (no setup state)
                        stored_setups = {}
            elif real[0] == "VALUEERROR":
                stats["valueerrors"] += 1
        G.set_debug(False)
        blocks.append(G.graph_block("q%s" % k, preds, prio0, debug, qlines,
                                    names=G.scenario_names(sc, ids_, [pos["n%d" % i] for i in range(sc["n"])])))
        queries.append(("q%s" % k, meta, sc))
        if len(samples) < 3:
            samples.append(dict(scenario=sc, protocol=blocks[-1].splitlines()))

    # ---- Lean side
    out = common.run_driver("Graph", "".join(blocks))
    answers = {}
    for line in out:
        w = line.split()
        answers.setdefault(w[0], []).append(w[1:])
    for qid, meta, sc in queries:
        ans = answers.get(qid, [])
        if len(ans) != len(meta):
            raise common.HarnessError("driver answered %d of %d queries for %s" % (len(ans), len(meta), qid))
        for (kind, m), a in zip(meta, ans):
            if kind == "cp":
                model = [int(x) for x in a[1:]]
                if model != m["real"] and pid in ("C06", "C07"):
                    failures.append(Failure("correspondence", "G-cp(%s)" % m["where"], sc,
                                            dict(model=model, real=m["real"]), slice_="G"))
            elif kind == "cfg":
                stats["configurations_decided_by_the_model"] = stats.get("configurations_decided_by_the_model", 0) + 1
                real_cfg, rp, rs, rcp = m["real"]
                if a[0] != "CFG":
                    raise common.HarnessError("graph driver did not answer a cfg query: %r" % (a,))
                # accepted or refused, the model gives the state AFTER the call (GM.reconfigure): a refused configuration must
                # leave priorities, sequential flags and the compound table exactly as they were
                pi, si, ci = a.index("P"), a.index("S"), a.index("CP")
                model_c = (a[1], [int(x) for x in a[pi + 1:si]], [x == "1" for x in a[si + 1:ci]], [int(x) for x in a[ci + 1:]])
                real_c = (real_cfg, rp, rs, rcp)
                if a[1] == "REFUSED":
                    stats["refused_configurations_state_compared"] = stats.get("refused_configurations_state_compared", 0) + 1
                    if a[2] == "malformed":
                        stats["malformed_configurations"] = stats.get("malformed_configurations", 0) + 1
                if model_c != real_c and pid in ("C06", "C07"):
                    failures.append(Failure("correspondence", "G-config(model %s, code %s)" % (model_c[0], real_c[0]), sc,
                                            dict(config=m["config"], model=model_c, real=real_c), slice_="G"))
            elif kind == "alias-static":
                if a[0] != "VALUEERROR":
                    failures.append(Failure("correspondence", "G-alias-resolution(model accepts an unknown alias)", sc,
                                            dict(case=m["case"], model=a, real=m["real"]), slice_="G"))
            else:
                real = m["real"]
                if a[0] == "OUTOFSCOPE":
                    stats["outofscope"] += 1
                    continue
                if a[0] == "VALUEERROR":
                    if real[0] != "VALUEERROR":
                        if real[0] == "SEL" and pid == "C12":
                            failures.append(Failure("counterexample", "invalid-selection-accepted(%s)" % a[1], sc,
                                                    dict(case=m["case"], real=real), slice_="G"))
                        else:
                            failures.append(Failure("correspondence", "G-sel-error", sc,
                                                    dict(case=m["case"], model=a, real=real), slice_="G"))
                    continue
                model = ("SEL", sorted(int(x) for x in a[1:]))
                if real[0] == "VALUEERROR" and pid == "C12":
                    # the documented closure exists (the model selects) and none of the documented refusals applies
                    failures.append(Failure("counterexample", "valid-selection-refused", sc,
                                            dict(case=m["case"], real=real, model=model), slice_="G"))
                    continue
                if real[0] == "EXC":
                    # the selection is valid (the model selects), the real code raised something else than ValueError
                    failures.append(Failure("counterexample", "valid-selection-raised:" + real[1], sc,
                                            dict(case=m["case"], real=real, model=model), slice_="G"))
                    continue
                if pid == "C12":    # "debug rules aside": compare the production part of the selection
                    dbgset = set(m.get("debug_nodes", []))
                    model = ("SEL", [x for x in model[1] if x not in dbgset])
                    real = ("SEL", [x for x in real[1] if x not in dbgset]) if real[0] == "SEL" else real
                if real != model and pid == "C13" and real[0] == "SEL" and m.get("dbg"):
                    # flag on: the model's selection (GM.extendDebug — C13_flag_on_runs_debug_nodes: the selection itself, plus the
                    # debug nodes below it whose inputs are all in the run) holds a DEBUG node the real one lacks although every
                    # input of it is in the real run: an enabled debug node that can run, silently left out
                    dbgset_ = set(m.get("debug_nodes", []))
                    miss_ = [x for x in model[1] if x not in real[1] and x in dbgset_]
                    if miss_ and set(real[1]) <= set(model[1]):
                        failures.append(Failure("counterexample", "enabled-debug-node-with-all-inputs-in-the-run-left-out", sc,
                                                dict(case=m["case"], missing=miss_, model=model, real=real), slice_="G"))
                        continue
                if real != model:
                    # which properties does a node-set mismatch concern?  debug-only differences: C13
                    failures.append(Failure("correspondence", "G-sel-nodes", sc,
                                            dict(case=m["case"], model=model, real=real,
                                                 explained_by_known=False), slice_="G"))

    # ---- hash seeds (C07): tables and max_concurrency=1 execution order in fresh processes
    if pid == "C07":
        hs = [0, 1, 2] if tier == "quick" else [0, 1, 2, 3, 4, 5, 6, 7]
        cnt = 40 if tier == "quick" else 400
        results = {}
        for h in hs:
            env = dict(os.environ, PYTHONHASHSEED=str(h))
            p = subprocess.run([sys.executable, os.path.join(common.VERIF, "harness", "g_worker.py"), str(seed), str(cnt)],
                               capture_output=True, text=True, env=env, timeout=1800)
            if p.returncode != 0:
                raise common.HarnessError("g_worker failed: " + p.stderr[-1500:])
            results[h] = [json.loads(l) for l in p.stdout.splitlines() if l.startswith("{")]
            stats["hash_seeds"] += 1
        ref = results[hs[0]]
        for h in hs[1:]:
            for a, b in zip(ref, results[h]):
                if a["table"] != b["table"]:
                    bad("cp-depends-on-hash-seed", a["sc"], seeds=(hs[0], h), t0=a["table"], t1=b["table"])
                elif a["order"] != b["order"] and _tie_free(a):
                    bad("execution-order-depends-on-hash-seed", a["sc"], seeds=(hs[0], h), o0=a["order"], o1=b["order"])
        for a in ref:
            if _tie_free(a):
                stats["tie_free_orders"] += 1
                want = _unique_order(a["sc"])
                if a["order"] != want:
                    bad("execution-order-not-by-compound-priority", a["sc"], got=a["order"], want=want)

    coverage = dict(evaluations=stats["graphs"] + stats["selections"], distinct_nontrivial=len(nontrivial),
                    rule={"C07": "random DAG-shaped graphs (diamonds and shared descendants forced in 30%); non-trivial: some node has >=2 predecessors; tables of whole DAG, after config_from_dict, and of executors; fresh processes under several PYTHONHASHSEEDs",
                          "C06": "as C07 (table part)",
                          "C12": "random graphs x selections (R,X,T) through node references / ids / tags (shared tags, tag equal to another node's id) incl. malformed ones; non-trivial: distinct (graph, resolved selection)",
                          "C13": "random graphs with debug nodes (chains, several parents) x selections x both flag values; non-trivial: distinct (graph with >=1 debug node, selection, flag)"}.get(pid, ""),
                    samples=samples, traces_validated_against_impl=sum(len(m) for _q, m, _s in queries), **stats)
    return coverage, failures, None


def _in_precondition(preds, Rr, Xr, Tr):
    base = G.py_closure(preds, Rr, None, None)
    if Xr is not None and not set(Xr) <= base:
        return False
    return True


def _tie_free(a):
    sc = a["sc"]
    if sc.get("op") == "setup":     # only the setup nodes compete in an explicit setup() run
        vals = [a["table"]["n%d" % i] for i, s_ in enumerate(sc["specs"]) if s_.get("setup")]
    else:               # the nodes that compete: constants' holders are precomputed and never scheduled
        vals = [a["table"]["n%d" % i] for i in range(sc["n"])]
    return len(set(vals)) == len(vals)


def _unique_order(sc):
    n = sc["n"]
    preds = [s["preds"] for s in sc["specs"]]
    prio = [s["prio"] for s in sc["specs"]]
    cp = spec_cp(preds, prio)
    done, order = set(), []
    # an explicit setup() runs the setup nodes only (their predecessors are setup nodes), ranked by the same table
    part = [i for i in range(n) if sc["specs"][i].get("setup")] if sc.get("op") == "setup" else list(range(n))
    while len(order) < len(part):
        ready = [i for i in part if i not in done and all(p in done for p in preds[i])]
        b = max(ready, key=lambda i: cp[i])
        order.append(b)
        done.add(b)
    return order


def _check_values(pid, sc, d, ex, ids_, pos, preds, got, inst, bad, case, stored=None):
    """Run the executor: returned tuple = real values for executed nodes and for setup nodes an EARLIER run on this
    instance computed (`stored`), None otherwise; each executed node that was not computed before is entered exactly
    once, nothing else is entered."""
    n = sc["n"]
    stored = {} if stored is None else stored
    before = dict(G.COUNTS)
    try:
        ret = G.call(d, ex)
    except BaseException as e:  # noqa: BLE001
        bad("executor-run-raised", sc, case=case, exc=type(e).__name__, message=str(e)[:200])
        return
    executed = {i for i in range(n) if pos["n%d" % i] in got and i not in stored}
    vals = []
    for i, s in enumerate(sc["specs"]):
        if i in stored:
            vals.append(stored[i])
            continue
        if i not in executed:
            vals.append(None)
            continue
        # an indexed use of a node that did not run yields None, like a whole use
        args = [(vals[j][0] if (j in s.get("idx", []) and vals[j] is not None) else vals[j]) for j in s["preds"]] \
            + ([7] if s["const"] else [])
        vals.append(("n%d" % i,) + tuple(args))
    want = [(v[0] if (sc["specs"][i].get("ret_idx") and v is not None) else v) for i, v in enumerate(vals)]
    if list(ret) != want:
        bad("wrong-returned-values", sc, case=case, got=ret, want=want)
    for i in range(n):
        c = G.COUNTS.get((inst, i), 0) - before.get((inst, i), 0)
        want = 1 if i in executed else 0
        if c != want:
            bad("wrong-execution-count", sc, case=case, node=i, got=c, want=want, computed_before=sorted(stored))
    for i in executed:
        if sc["specs"][i]["setup"]:
            stored[i] = vals[i]


ASSUME_G = [
    "node ids are listed in recording order, which is topological (checked on every generated DAG)",
    "networkx descendants/ancestors/subgraph primitives are modelled by the Lean closure definitions and compared through tawazi's outputs",
    "alias resolution (reference / tag / id) is modelled in the harness, not in Lean",
]

PROPS["C06"]["run"] = run_S_and_G_C06
reg("C07", ["Props.C07_cp_is_own_plus_distinct_descendants", "GM.C07_cp_order_independent", "GM.mem_descAll_iff",
            "GM.descAll_nodup", "Props.C07_pinned_counts_paths", "GM.C07_pinned_order_dependent",
            "Props.C07_next_pick_is_determined", "Props.C07_pick_unique",
            "Props.C07_configuration_law", "Props.C07_configuration_refused_iff", "Props.C07_configuration_idempotent",
            "Props.C07_refused_configuration_changes_nothing", "Props.C07_retry_after_refusal", "Props.C07_restricted_table_would_rank_differently",
            "Props.C07_flags_only_configuration_keeps_the_table"],
    run_G, ASSUME_G)
reg("C12", ["GM.C12_closure", "Props.C12_selection_is_closure", "GM.selectNodes_none", "GM.mem_descAll_iff", "Props.C12_restriction_keeps_values", "Props.C12_alias_tag_wins", "Props.C12_alias_id", "Props.C12_alias_unknown_refused", "Props.C12_alias_list_is_union", "Props.C12_alias_list_refused_iff", "Props.C12_unselected_nodes_keep_their_value", "Props.C12_targets_only", "Props.C12_empty_lists", "Props.C12_repeated_names"], run_G, ASSUME_G)


# ---------------------------------------------------------------------------------------------
# slice V engine (programs): C01, C10, C20, C17(a)
# ---------------------------------------------------------------------------------------------
import slice_v as V  # noqa: E402


def prog_features(mod):
    nested = any(s["k"] == "dag" for d in mod["defs"] for s in d["body"])
    flagged = any(s.get("flag") is not None for d in mod["defs"] for s in d["body"])
    dagflag = any(s["k"] == "dag" and s.get("flag") is not None for d in mod["defs"] for s in d["body"])
    unpack = any(s.get("unpack") for d in mod["defs"] for s in d["body"])
    defaults = any("default" in p for d in mod["defs"] for p in d["params"])
    return dict(nested=nested, flagged=flagged, dagflag=dagflag, unpack=unpack, defaults=defaults,
                twice=V.same_callee_twice(mod), shape=mod["defs"][-1]["ret"]["shape"])


def returns_unsupplied_default(mod):
    """Some flagged nested call reaches — directly, or through the nested calls inside its callee, at any depth — a call
    that leaves a defaulted parameter unsupplied which that callee returns as is (the deactivation then yields the
    default instead of None: the recorded known finding, whatever the depth at which the default sits)."""
    def leaky(k, nsupplied, seen):
        callee = mod["defs"][k]
        for _k, a in callee["ret"]["items"]:
            if a[0] == "v" and a[1] < len(callee["params"]) and not a[2] \
                    and "default" in callee["params"][a[1]] and a[1] >= nsupplied:
                return True
        for st in callee["body"]:
            if st["k"] == "dag" and (st["callee"], len(st["args"])) not in seen:
                if leaky(st["callee"], len(st["args"]), seen | {(st["callee"], len(st["args"]))}):
                    return True
        return False
    for d in mod["defs"]:
        for st in d["body"]:
            if st["k"] == "dag" and st.get("flag") is not None and leaky(st["callee"], len(st["args"]), frozenset()):
                return True
    return False


def prog_signature(kind, mod, real, flagsafe=None, mirrored=None):
    """Signature of a counterexample.  `flagsafe`: the Lean driver's verdict VM.flagSafeB on the module (inside the
    hypothesis of C20_nested_inlining_flags_partial: no known finding lives there); `mirrored`: the model's
    tracer+denotation gives the same outcome as the real code (a known finding is a *modelled* departure)."""
    f = prog_features(mod)
    sig = kind
    if kind == "build-error":
        sig += ":" + real[1]
        if f["twice"] and real[1] == "KeyError":
            sig += "/same-inner-dag-twice"
        return sig
    if f["dagflag"]:
        sig += "/flag-on-nested-dag"
        if kind == "wrong-value" and returns_unsupplied_default(mod):
            sig += "/returns-unsupplied-default"
        if flagsafe:
            sig += "/inside-FlagSafe"
        elif mirrored is False:
            sig += "/not-mirrored-by-model"
    elif f["nested"]:
        sig += "/nested"
    elif f["flagged"]:
        sig += "/flagged"
    return sig


def module_stream(seed, count, pid):
    base = random.Random("%s/v/%d" % (pid, seed))
    for j, (name, mod) in enumerate(corpus_items(pid, "V")):
        yield "c%d" % j, fix_json_module(mod), random.Random("corpus/" + name)
    if pid in ("C01", "C10", "C20"):
        for j, mod in enumerate(V.directed_passing_modules()):
            if pid == "C20" and len(mod["defs"]) == 1:
                continue
            yield "p%d" % j, mod, random.Random("pass/%d/%d" % (seed, j))
    if pid in ("C01", "C10"):
        for j, mod in enumerate(V.directed_shared_flag_modules()):
            yield "f%d" % j, mod, random.Random("shflag/%d/%d" % (seed, j))
    if pid in ("C10", "C20"):
        directed = list(V.directed_modules())
        pick = directed if count > 2000 else random.Random("dir/%d" % seed).sample(directed, 150)
        for j, mod in enumerate(pick):
            yield "d%d" % j, mod, random.Random("dir/%d/%d" % (seed, j))
    for k in range(count):
        rng = random.Random(base.randrange(1 << 62))
        if pid == "C20":
            mod = V.gen_module(rng, nested=True)
            tries = 0
            while not prog_features(mod)["nested"] and tries < 20:
                mod = V.gen_module(rng, nested=True)
                tries += 1
        elif pid == "C10":
            mod = V.gen_module(rng, nested=rng.random() < 0.5)
            tries = 0
            while not prog_features(mod)["flagged"] and tries < 20:
                mod = V.gen_module(rng, nested=rng.random() < 0.5)
                tries += 1
        else:
            mod = V.gen_module(rng, nested=rng.random() < 0.5)
        yield k, mod, rng


def fix_json_module(mod):
    """JSON turns tuples into lists: restore tuple constants/defaults where the generator only emits tuples."""
    def fix(v):
        if isinstance(v, list) and v in ([1, 2], [5, 6], [0, 5], [5, 0]):
            return tuple(v)
        return v

    def fixarg(a):
        return ["c", fix(a[1])] if a[0] == "c" else a
    for d in mod["defs"]:
        for p in d["params"]:
            if "default" in p:
                p["default"] = fix(p["default"])
        for s_ in d["body"]:
            s_["args"] = [fixarg(a) for a in s_["args"]]
            if s_.get("kwargs"):
                s_["kwargs"] = [[k, fixarg(a)] for k, a in s_["kwargs"]]
            if s_.get("flag") is not None:
                s_["flag"] = fixarg(s_["flag"])
        d["ret"]["items"] = [[k, fixarg(a)] for k, a in d["ret"]["items"]]
    mod["args"] = [fix(a) for a in mod["args"]]
    return mod


def run_V(pid, tier, seed):
    n = 500 if tier == "quick" else 8000
    configs = 2 if tier == "quick" else 4
    failures, samples = [], []
    stats = dict(programs=0, real_runs=0, oracle_raises=0, agree4=0, model_vs_plain_diff=0, nested=0, flagged=0,
                 dagflag=0, unpack=0, defaults=0, shapes={}, async_runs=0, config_reloads=0, both_flavours_equal=0,
                 build_errors=0)
    distinct = set()
    cases = {}
    tables = {}
    text = []
    hung = False
    for k, mod, rng in module_stream(seed, n, pid):
        if hung:
            stats["stopped_after_first_hang"] = True
            break
        stats["programs"] += 1
        f = prog_features(mod)
        for key in ("nested", "flagged", "dagflag", "unpack", "defaults"):
            stats[key] += int(f[key])
        stats["shapes"][f["shape"]] = stats["shapes"].get(f["shape"], 0) + 1
        oracle = V.run_oracle(mod)
        reals = []
        for c in range(configs):
            force = None
            if pid == "C17":
                force = dict(is_async=(c % 2 == 1), maxc=1 + (c // 2))
            r, info = V.run_real(mod, rng, controlled=True, force=force)
            stats["real_runs"] += 1
            stats["async_runs"] += int(info["is_async"])
            stats["config_reloads"] += int(info["config"] is not None)
            reals.append((r, info))
            if r[0] == "HANG":
                hung = True
                break       # a hang is a counterexample already; every further run would cost the full time-out
        try:
            import slice_v as _V
            tattrs = _V.gen_attrs(random.Random("attrs/%s/%s" % (seed, k)))
            tdags = _V.build_real(mod, tattrs, 1, False)
            realtab = _V.real_table_terms(tdags[-1], mod["args"])
            bad_attrs = _V.attr_mismatches(tdags[-1], tattrs)
            stats["tables_with_attributes_checked"] = stats.get("tables_with_attributes_checked", 0) + 1
            bad_ids = _V.id_scheme_problems(tdags[-1])
            if bad_ids and pid in ("C20", "C01"):
                failures.append(Failure("counterexample", "node-ids-do-not-follow-the-allocation-rule", mod,
                                        dict(problems=bad_ids[:4], ids=list(tdags[-1].exec_nodes)[:40]), slice_="V"))
            if bad_attrs and pid in ("C20", "C01"):
                failures.append(Failure("counterexample", "spliced-node-lost-a-declared-attribute", mod,
                                        dict(nodes=bad_attrs[:4], source=[V.def_source(d_, mod["defs"], False) for d_ in mod["defs"]]), slice_="V"))
        except BaseException as e:  # noqa: BLE001
            realtab = ("BUILD-ERR", type(e).__name__)
        tables["m%s" % k] = realtab
        cases["m%s" % k] = (mod, oracle, reals)
        text.append(V.proto("m%s" % k, mod))
        distinct.add(json.dumps([mod["defs"], mod["args"]], sort_keys=True, default=repr))
        if len(samples) < 2:
            samples.append(dict(source=[V.def_source(d, mod["defs"], False) for d in mod["defs"]], args=mod["args"],
                                protocol=text[-1].splitlines()))
    out = common.run_driver("Prog", "".join(text))
    lean = {}
    lean_tab = {}
    for l in out:
        w = l.split(" ", 2)
        if len(w) >= 3 and w[1] in ("plain", "model", "flagsafe"):
            lean.setdefault(w[0], {})[w[1]] = w[2]
        elif len(w) >= 2 and w[1] in ("node", "ret"):
            lean_tab.setdefault(w[0], []).append(l)
    stats["tables_compared"] = 0
    stats["tables_equal"] = 0
    for mid, (mod, oracle, reals) in cases.items():
        lp, lm = lean.get(mid, {}).get("plain"), lean.get(mid, {}).get("model")
        if lp is None or lm is None:
            raise common.HarnessError("driver gave no answer for " + mid)
        src = [V.def_source(d, mod["defs"], False) for d in mod["defs"]]
        # slice B: the table the real tracer built vs the table the model traces (canonical terms)
        rt = tables.get(mid)
        if pid != "C17" and rt is not None and rt[0] != "BUILD-ERR" and mid in lean_tab:
            mt = V.model_table_terms(lean_tab[mid])
            if mt is not None:
                stats["tables_compared"] += 1
                topret = mod["defs"][-1]["ret"]
                const_single = topret["shape"] == "s" and topret["items"][0][1][0] == "c"
                # a constant returned as the single value is wrapped differently (None -> no return; a container
                # constant -> a container of holders): same value, only the node terms are compared then
                same_rets = const_single or list(rt[1]) == list(mt[1])
                if list(rt[0]) == list(mt[0]) and same_rets:
                    stats["tables_equal"] += 1
                else:
                    only_real = [t for t in rt[0] if t not in mt[0]][:3]
                    only_model = [t for t in mt[0] if t not in rt[0]][:3]
                    failures.append(Failure("correspondence", "B-built-table-differs", mod,
                                            dict(source=src, only_in_real=only_real, only_in_model=only_model,
                                                 real_returns=rt[1], model_returns=mt[1]), slice_="V"))
        if pid == "C17":
            # flavour equality: the sync and the async build of the same function behave the same
            def canon(r):
                # which of several failing nodes is reported may depend on the schedule (C14): errors are one class
                return ("OK", V.render(r[1])) if r[0] == "OK" else ("ERR",)
            outs = {}
            for (r, info) in reals:
                outs.setdefault(info["is_async"], set()).add(canon(r))
            if len(outs.get(True, set()) | outs.get(False, set())) == 1:
                stats["both_flavours_equal"] += 1
            else:
                failures.append(Failure("counterexample", "flavours-differ", mod,
                                        dict(source=src, args=mod["args"], sync=sorted(map(repr, outs.get(False, []))),
                                             asyn=sorted(map(repr, outs.get(True, [])))), slice_="V"))
            continue
        if oracle[0] != "OK":
            stats["oracle_raises"] += 1
            continue   # plain Python raises: nothing is claimed
        want = "OK " + V.render(oracle[1])
        if lp != want:
            failures.append(Failure("correspondence", "V-lean-plain-vs-cpython", mod, dict(lean=lp, cpython=want, source=src), slice_="V"))
            continue
        flagsafe = lean.get(mid, {}).get("flagsafe") == "T"
        if prog_features(mod)["dagflag"]:
            stats["dagflag_flagsafe"] = stats.get("dagflag_flagsafe", 0) + int(flagsafe)
        if lm != want:
            stats["model_vs_plain_diff"] += 1
            if flagsafe:
                # inside the hypothesis of C20_nested_inlining_flags_partial the two Lean evaluations cannot differ
                failures.append(Failure("correspondence", "V-model-vs-plain-inside-FlagSafe", mod,
                                        dict(model=lm, plain=lp, source=src), slice_="V"))
        ok_all = True
        rendered = []
        for (r, info) in reals:
            got = ("OK " + V.render(r[1])) if r[0] == "OK" else r[0]
            rendered.append(got)
            if got == want:
                continue
            ok_all = False
            if r[0] == "BUILD-ERR":
                stats["build_errors"] += 1
                kind = "build-error"
            elif r[0] == "HANG":
                kind = "hang"
            elif r[0] == "ERR":
                kind = "call-raised:" + r[1]
            else:
                kind = "wrong-value"
            mirrored = (lm == got) if r[0] == "OK" else (lm == "ERR" if r[0] == "ERR" else None)
            sig = prog_signature(kind, mod, r, flagsafe=flagsafe, mirrored=mirrored)
            failures.append(Failure("counterexample", sig, mod,
                                    dict(source=src, args=mod["args"], got=got if r[0] == "OK" else list(r), want=want,
                                         configuration=dict(info, config=info.get("config")), lean_plain=lp, lean_model=lm),
                                    slice_="V"))
            break
        if ok_all:
            stats["agree4"] += int(lm == want)
            if pid == "C17" and len(set(rendered)) == 1:
                stats["both_flavours_equal"] += 1
            if lm != want:
                # the code is right, the model is not: repair the model (a broken correspondence)
                failures.append(Failure("correspondence", "V-model-vs-code", mod, dict(model=lm, real=want, source=src), slice_="V"))
        else:
            # model mirrors the code?  (used to tell a modelled defect from an unmodelled one)
            pass
    coverage = dict(evaluations=stats["real_runs"], distinct_nontrivial=len(distinct),
                    rule="random modules of the supported fragment (typed generation so that most programs are valid): "
                         "flat and nested (<=3 definitions, depth<=3), defaults, keyword/constant arguments, key paths, "
                         "unpack_to, operators, and_/or_/not_, flags of every form, all return shapes; each executed by "
                         "CPython with plain wrappers, real tawazi under %d random configurations (attributes, "
                         "max_concurrency, flavour, config reload via dict/yaml/json, scripted completion orders), Lean plain "
                         "evaluation and Lean tracer+denotation; distinct = distinct (module, arguments)" % configs,
                    samples=samples, disagreements_checked=len(failures), **stats)
    return coverage, failures, None


ASSUME_V = [
    "node functions are deterministic and side-effect free; object identity and in-place mutation are not modelled",
    "programs on which plain Python raises are outside the claim (tawazi defers some errors until a value is used)",
    "string rendering of node ids is checked by the correspondence, not proved injective",
    "fragment: a container of results is not a result (depth-1 return shapes, components passed on individually)",
]

FLAG_THMS = ["Props.C20_nested_inlining_flags_partial", "Props.C20_flagSafe_decidable", "Props.C20_no_flags_is_flagSafe",
             "Props.C20_flag_witness_default", "Props.C20_flag_witness_indexed", "VM.traceStmts_goodF", "VM.traceStmts_dead"]
reg("C01", ["Props.C01_core", "Props.C01_flat_partial", "Props.C20_nested_inlining_partial", "VM.traceStmts_good", "Props.C09_bound"] + FLAG_THMS,
    # ... and the scheduler scenarios (directed completion patterns included) judged on the RETURNED VALUE
    with_S(run_V), ASSUME_V)
def run_V_and_nested_tables(pid, tier, seed):
    import slice_k as K
    cov, fs, searcher = run_V(pid, tier, seed)
    kstats, kfs = K.run_nested(pid, tier, seed, 60 if tier == "quick" else 800)
    cov["nested_tables_not_in_dependency_order"] = kstats
    cov["evaluations"] += kstats["nested_handbuilt"] + kstats["nested_composed"]
    cov["rule"] = cov.get("rule", "") + ("; plus DAGs whose node table is NOT listed in dependency order (hand-built ExecNodes in a random "
                                         "order; DAGs returned by compose) called inside an outer DAG: the outer DAG must build and return the inlined values")
    return cov, fs + kfs, searcher


reg("C20", ["Props.C20_nested_inlining_partial", "VM.traceStmts_good", "VM.bindParamRefs_good", "Props.C01_core", "Props.C20_spliced_ids_distinct"] + FLAG_THMS, with_S(run_V_and_nested_tables), ASSUME_V)
reg("C10", ["Props.C10_flag_reads_full_reference", "Props.C10_execution_inactive_none", "Props.C10_active_runs", "Props.C03_exactly_once_at_done", "Props.C01_core", "Props.C01_flat_partial", "Props.C20_nested_inlining_partial"] + FLAG_THMS, run_V, ASSUME_V)


# ---------------------------------------------------------------------------------------------
# slice H engine (histories): C11, C15, C18
# ---------------------------------------------------------------------------------------------
import slice_h as H  # noqa: E402

KINDS_H = {
    "C03": ["call", "call", "exec", "exec", "setup", "setupsel", "fork", "xmk", "xrun", "cache", "rerun", "config"],
    "C11": ["call", "call", "exec", "setup", "setupsel", "fork", "xmk", "xrun", "xrun", "xsetup", "cache", "config"],
    "C15": ["call", "call", "call", "exec", "rerun", "rerun", "config", "compose", "setup", "xmk", "xrun", "xrun", "setupfail", "cache"],
    "C18": ["cache", "cache", "call", "setup", "xmk", "xrun"],
}


def run_H(pid, tier, seed):
    n_hist = 250 if tier == "quick" else 4000
    max_len = 10 if tier == "quick" else 30
    failures, samples = [], []
    stats = dict(histories=0, operations=0, failing_calls=0, forks=0, reruns=0, refused=0, restarts=0,
                 setup_entries=0, async_instances=0, op_kinds={})
    distinct = set()
    base = random.Random("%s/h/%d" % (pid, seed))
    blocks, kept = [], {}
    for k in range(n_hist):
        rng = random.Random(base.randrange(1 << 62))
        sc = H.gen(rng)
        if pid == "C11" and not any(s["setup"] for s in sc["specs"]):
            sc["specs"][0]["setup"] = True
            sc["specs"][0]["preds"] = []
            sc["specs"][0]["usearg"] = sc["specs"][0]["failx"] = False
        ops = H.gen_ops(rng, sc, rng.randint(2, max_len), KINDS_H[pid])
        H.SCRIPT_SEED[0] = rng.randrange(1 << 30)
        try:
            records, lines = H.run_history(sc, ops)
        except BaseException as e:  # noqa: BLE001
            failures.append(Failure("counterexample", "history-crashed:" + type(e).__name__, dict(sc=sc, ops=ops),
                                    dict(message=str(e)[:300]), slice_="H"))
            continue
        if H.DRIFT:
            # an operation changed the instance's own configuration (its concurrency limit): later calls no longer behave like
            # calls of a freshly built DAG
            failures.append(Failure("counterexample", "operation-changed-the-instances-max_concurrency", dict(sc=sc, ops=ops),
                                    dict(drift=H.DRIFT[:2]), slice_="H"))
            del H.DRIFT[:]
        stats["histories"] += 1
        stats["async_instances"] += int(sc["is_async"])
        hid = "h%d" % k
        blocks.append("\n".join(H.header(hid, sc) + lines + ["E"]) + "\n")
        kept[hid] = (sc, ops, records)
        distinct.add(json.dumps([sc, ops], sort_keys=True))
        if len(samples) < 2:
            samples.append(dict(scenario=sc, operations=ops, protocol=blocks[-1].splitlines()))
    H.cleanup_cache_slots()
    stats["cache_pairs_on_a_shared_overwritten_path"] = sum(
        1 for (_sc, ops_, _r) in kept.values() for o in ops_ if o["op"] == "cache" and o.get("slot") is not None)
    out = common.run_driver("Hist", "".join(blocks))
    ans = {}
    for l in out:
        w = l.split()
        ans.setdefault(w[0], {})[int(w[1])] = w[2:]
    for hid, (sc, ops, records) in kept.items():
        n = sc["n"]
        scen = dict(sc=sc, ops=ops)
        seen_setup = {}
        nfail0 = len(failures)
        reg_ = ans.get(hid, {}).get(-1)
        if reg_ is not None:
            stats["setup_region_closed"] = stats.get("setup_region_closed", 0) + (reg_[1] == "closed")
            if reg_[1] != "closed":
                # the real constructor accepted a table whose setup nodes read something else than setup nodes
                failures.append(Failure("proof", "setup-region-hypothesis-fails-on-an-accepted-table", scen, dict(model=reg_), slice_="H"))
        sel_ = ans.get(hid, {}).get(-2)
        if sel_ is not None and sel_[1] != "closed":
            failures.append(Failure("proof", "closed-selection-hypothesis-fails-on-a-computed-selection", scen, dict(model=sel_), slice_="H"))
        for rec in records:
            if len(failures) > nfail0:
                break   # the rest of this history runs on a state the first failure already tainted
            op = rec["op"]
            stats["operations"] += 1
            stats["op_kinds"][op["op"]] = stats["op_kinds"].get(op["op"], 0) + 1
            outc = rec["out"]
            if outc[0] == "EXC" and outc[1] == "FileNotFoundError" and op["op"] == "xrun" and \
                    ans.get(hid, {}).get(rec.get("line"), [""])[0] == "NOFILE":
                stats["restart_without_file"] = stats.get("restart_without_file", 0) + 1
                continue      # the model has no file there either: both refuse
            if outc[0] == "EXC":
                sig = "%s-raised:%s" % (op["op"], outc[1])
                failures.append(Failure("counterexample", sig, scen, dict(op=op, exc=outc), slice_="H"))
                break
            if rec.get("dups"):
                failures.append(Failure("counterexample", "node-entered-twice-in-one-run", scen, dict(op=op, dups=rec["dups"]), slice_="H"))
            if "line" not in rec:
                continue
            a = ans.get(hid, {}).get(rec["line"])
            if a is None:
                raise common.HarnessError("no model answer for %s line %d" % (hid, rec["line"]))
            if a[0] == "FORK":
                stats["forks"] += 1
                continue
            if a[0] == "NOFILE":
                failures.append(Failure("correspondence", "H-model-has-no-file", scen, dict(op=op, real=outc), slice_="H"))
                continue
            if op["op"] == "xrun":
                stats["kept_executor_runs"] = stats.get("kept_executor_runs", 0) + 1
                if (a[0] == "REFUSED") != (outc[0] == "REFUSED"):
                    if a[0] == "REFUSED":
                        kind, sig = ("counterexample" if pid == "C15" else "correspondence"), "used-executor-object-ran-again"
                    else:
                        kind, sig = "correspondence", "H-fresh-executor-object-refused"
                    failures.append(Failure(kind, sig, scen, dict(op=op, real=outc, model=a), slice_="H"))
                    continue
                if a[0] == "REFUSED":
                    stats["refused"] += 1
                    if rec.get("entered"):
                        failures.append(Failure("counterexample", "refused-executor-entered-nodes", scen, dict(op=op, entered=rec["entered"]), slice_="H"))
                    continue
            m_ok = a[0] == "OK"
            ei, ri = a.index("E"), a.index("R")
            if "file" in rec and outc[0] == "OK" and m_ok:
                # the cache file: what the pickle holds vs what the model's executor wrote (VM.writeFile)
                m_file = dict(t.split("=", 1) for t in a[a.index("F") + 1:ei]) if "F" in a[:ei] else {}
                stats["cache_files_compared"] = stats.get("cache_files_compared", 0) + 1
                if m_file != rec["file"]:
                    kind = "counterexample" if pid == "C18" else "correspondence"
                    extra = sorted(set(rec["file"]) - set(m_file), key=int)
                    missing = sorted(set(m_file) - set(rec["file"]), key=int)
                    sig = ("cache-file-holds-a-cache_deps_of-target" if extra and op.get("mode") == "deps" and set(map(int, extra)) & set(op.get("T") or [])
                           else "cache-file-content-differs")
                    failures.append(Failure(kind, sig, scen, dict(op=op, real_file=rec["file"], model_file=m_file, extra=extra, missing=missing), slice_="H"))
                    continue
            m_ent = sorted(int(x) for x in a[ei + 1:ri])
            m_vals = a[ri + 1:]
            # C11 monitor: a setup node entered twice on one instance
            for i in (rec.get("entered", []) if outc[0] == "OK" else []):
                if sc["specs"][i]["setup"]:
                    stats["setup_entries"] += 1
                    key = (op.get("inst"), i)
                    # forks: a copy made after the setup ran must not run it again either, but tracking
                    # which copies inherit is the model's job; the monitor only flags same-instance repeats
                    if key in seen_setup:
                        failures.append(Failure("counterexample", "setup-node-ran-twice", scen, dict(op=op, node=i), slice_="H"))
                    seen_setup[key] = True
            if op["op"] == "rerun2":
                stats["reruns"] += 1
                if outc[0] == "REFUSED":
                    stats["refused"] += 1
                    continue
                # it ran: must be a complete run of the selection
                want = ("OK" if m_ok else "FAIL")
                got = outc[0]
                if got != want or (m_ok and [H.render(v) for v in outc[1]] != [v if v != "-" else "N" for v in m_vals]):
                    failures.append(Failure("counterexample", "executor-rerun-after-%s-run-used-partial-graph" % ("failed" if op["first"] != "OK" else "successful"),
                                            scen, dict(op=op, got=outc, model=a), slice_="H"))
                continue
            if outc[0] == "FAIL":
                stats["failing_calls"] += 1
                if m_ok:
                    failures.append(Failure("correspondence", "H-real-failed-model-ok", scen, dict(op=op, model=a), slice_="H"))
                continue
            # real OK
            if not m_ok:
                failures.append(Failure("correspondence", "H-real-ok-model-failed", scen, dict(op=op, model=a, real=outc), slice_="H"))
                continue
            ent = rec.get("entered", [])
            if op["op"] == "restart":
                stats["restarts"] += 1
                if outc[1] is not None and rec.get("first_value") is not None and op["restart"] == "same" \
                        and [H.render(v) for v in outc[1]] != [H.render(v) for v in rec["first_value"]]:
                    failures.append(Failure("counterexample", "restart-returns-different-value", scen,
                                            dict(op=op, first=rec["first_value"], restart=outc[1]), slice_="H"))
                recomputed = [i for i in ent if i in op["cached"]]
                if recomputed:
                    failures.append(Failure("counterexample", "restart-recomputed-cached-nodes(%s)" % op["mode"], scen,
                                            dict(op=op, recomputed=recomputed, entered=ent), slice_="H"))
                    continue
            if ent != m_ent:
                sig = "H-entered-set"
                kind = "correspondence"
                extra = [i for i in ent if i not in m_ent]
                if any(sc["specs"][i]["setup"] for i in extra) and pid in ("C11", "C03"):
                    kind, sig = "counterexample", "setup-node-ran-again"
                elif pid == "C03":
                    kind, sig = "counterexample", "entered-set-differs-from-selected-active-nodes"
                elif pid == "C18" and op["op"] == "xrun" and extra:
                    # a restart object ran nodes the model holds precomputed (in its file, or set up on the instance)
                    kind, sig = "counterexample", "restart-object-recomputed-what-its-file-holds"
                elif pid == "C15":
                    # which nodes an operation runs is a function of its selection, its arguments and the setup results
                    # the instance holds (the model); anything else is state leaked from the history
                    kind, sig = "counterexample", "nodes-run-by-an-operation-depend-on-the-history"
                failures.append(Failure(kind, sig, scen, dict(op=op, real=ent, model=m_ent), slice_="H"))
                continue
            if op["op"] in ("call", "exec", "rerun", "cache", "restart", "xrun") and outc[1] is not None:
                real_vals = [H.render(v) for v in outc[1]]
                want = [v if v != "-" else "N" for v in m_vals]
                if real_vals != want:
                    kind = "counterexample" if pid == "C15" else "correspondence"
                    failures.append(Failure(kind, "H-returned-value" if kind == "correspondence" else "call-result-depends-on-history",
                                            scen, dict(op=op, real=real_vals, model=want), slice_="H"))
    coverage = dict(evaluations=stats["operations"], distinct_nontrivial=len(distinct),
                    rule="random DAGs (2-7 nodes, setup nodes chained/independent, argument-dependent failing nodes) x random "
                         "operation histories over %s on one or more instances (deep copies), sync and async; each operation's "
                         "outcome, entered-node set and returned value compared with the Lean history model; distinct = "
                         "distinct (DAG, history)" % sorted(set(KINDS_H[pid])),
                    samples=samples, traces_validated_against_impl=stats["operations"], **stats)
    return coverage, failures, None


ASSUME_H = [
    "node functions are deterministic; a failing operation leaves the instance unchanged (checked on every history)",
    "deep copy forks the instance state; pickle round-trips the plain values used (trusted)",
    "setup nodes are not run concurrently for the first time (excluded by the property statements)",
]
def with_malformed(run, kinds):
    def wrapped(pid, tier, seed):
        cov, fs, searcher = run(pid, tier, seed)
        n = 0
        for kind, how, accepted in G.malformed_builds(kinds):
            n += 1
            if accepted:
                fs.append(Failure("counterexample", "malformed-dag-accepted(%s)" % kind, dict(kind=kind, how=how),
                                  dict(kind=kind, dependency_through=how), slice_="G"))
        # random descriptions, valid or not: the real constructor and the model's build rule (VM.validateB) must agree,
        # and a description that breaks the rule of THIS property must be refused
        rngd = random.Random("%s/desc/%d" % (pid, seed))
        nd = 150 if tier == "quick" else 2500
        blocks_, metas_ = [], []
        dstats = dict(descriptions=0, refused=0, debug_rule_broken=0, setup_rule_broken=0)
        for k in range(nd):
            scd = G.gen_description(random.Random(rngd.randrange(1 << 62)))
            real = G.build_description(scd)
            db, sb = G.description_rules(scd)
            dstats["descriptions"] += 1
            dstats["refused"] += real == "REFUSE"
            dstats["debug_rule_broken"] += db
            dstats["setup_rule_broken"] += sb
            mine = db if pid == "C13" else sb
            if real == "ACCEPT" and mine:
                fs.append(Failure("counterexample", "malformed-dag-accepted(%s)" % ("normal-on-debug" if pid == "C13" else "setup-on-non-setup"),
                                  scd, dict(debug_rule_broken=db, setup_rule_broken=sb), slice_="G"))
            elif real.startswith("EXC"):
                fs.append(Failure("correspondence", "G-description-raised:" + real, scd, dict(), slice_="G"))
            blocks_.append(G.description_block("d%d" % k, scd))
            metas_.append(("d%d" % k, scd, real, db or sb))
        outd = common.run_driver("Graph", "".join(blocks_))
        ansd = {l.split()[0]: l.split()[1:] for l in outd}
        for qid, scd, real, broken in metas_:
            a = ansd.get(qid)
            if a is None or a[0] != "VALID":
                raise common.HarnessError("graph driver did not answer the valid query of %s" % qid)
            if (a[1] == "REFUSE") != broken:
                raise common.HarnessError("VM.validateB disagrees with the harness's reading of the rules on %r" % (scd,))
            if real in ("ACCEPT", "REFUSE") and real != a[1] and not (real == "ACCEPT" and broken):
                fs.append(Failure("correspondence", "G-build-rule(model %s, constructor %s)" % (a[1], real), scd,
                                  dict(model=a[1], real=real), slice_="G"))
        cov["random_descriptions"] = dstats
        n += dstats["descriptions"]
        cov["malformed_builds_rejected"] = n
        cov["evaluations"] += n
        cov["rule"] += "; plus %d malformed descriptions (%s through positional / keyword / flag / indexed / operator / second argument) that must be rejected at build time" % (n, ", ".join(kinds))
        return cov, fs, searcher
    return wrapped


def debug_pull_shapes():
    """Hand-made shapes of the pull rule (flag on, an executor on a sub-graph): chains and joins of debug nodes below the
    selection — a debug node is pulled exactly when ALL its inputs run (selected nodes or debug nodes pulled before it),
    however many passes finding that out takes.  Yields (shape, problems)."""
    from tawazi import dag as _dag, xn as _xn, cfg as _cfg
    ran = []

    def mk(name, **kw):
        def f(*a):
            ran.append(name)
            return (name,) + a
        f.__qualname__ = f.__name__ = name
        return _xn(f, **kw)
    a, b, c = mk("a"), mk("b"), mk("c")
    check, report, archive = mk("check", debug=True), mk("report", debug=True), mk("archive", debug=True)
    two, three, other = mk("two", debug=True), mk("three", debug=True), mk("other", debug=True)

    def chain_join(x):
        vb = b(x)
        r = report(check(vb))
        archive(vb, r)              # inputs: a selected node AND a debug node that is pulled one step later
        return vb

    def partial_parents(x):
        va, vb, vc = a(x), b(x), c(x)
        o = other(va)               # pullable: forces further passes
        other2 = check(o)
        two(va, vc)                 # c is NOT selected: never pulled, however many passes
        three(va, vb, vc)
        report(other2)
        return va, vb, vc
    shapes = [("chain+join/target-b", chain_join, ["b"], {"b", "check", "report", "archive"}),
              ("partial-parents/target-a", partial_parents, ["a"], {"a", "other", "check", "report"}),
              ("partial-parents/targets-a-b", partial_parents, ["a", "b"], {"a", "b", "other", "check", "report"})]
    old = _cfg.RUN_DEBUG_NODES
    try:
        for name, desc, targets, want in shapes:
            _cfg.RUN_DEBUG_NODES = True
            bad = []
            try:
                d = _dag(desc)
                ex = d.executor(target_nodes=targets)
                planned = {x for x in ex.graph.nodes if ">!>" not in x}
                if planned != want:
                    bad.append("the executor's graph holds %s, the rule gives %s" % (sorted(planned), sorted(want)))
                ran.clear()
                ex(1)
                if set(ran) != want or len(ran) != len(set(ran)):
                    bad.append("executed %s, the rule gives %s" % (sorted(ran), sorted(want)))
            except BaseException as e:  # noqa: BLE001
                bad.append("raised %s: %s" % (type(e).__name__, str(e)[:120]))
            yield name, bad
    finally:
        _cfg.RUN_DEBUG_NODES = old


def with_debug_shapes(run):
    def wrapped(pid, tier, seed):
        cov, fs, searcher = run(pid, tier, seed)
        k_ = 0
        for shape, problems in debug_pull_shapes():
            k_ += 1
            if problems:
                fs.append(Failure("counterexample", "debug-pull-rule(%s)" % shape, dict(shape=shape), dict(problems=problems), slice_="G"))
        cov["debug_pull_shapes"] = k_
        cov["evaluations"] += k_
        return cov, fs, searcher
    return wrapped


reg("C13", ["Props.C13_pulled_debug_has_inputs", "Props.C13_flag_off_no_debug", "Props.C13_debug_nodes_never_influence", "Props.C12_selection_is_closure",
            "Props.C13_C11_build_rule", "Props.C13_accepted_table_debug_never_influences", "Props.C13_flag_on_runs_debug_nodes", "Props.C13_pulled_debug_nodes_are_a_fixpoint"],
    with_debug_shapes(with_malformed(with_S(run_G), ["normal-on-debug"])), ASSUME_G)
def nested_setup_histories():
    """A setup node inside a DAG that an outer DAG calls — plainly, or under an activation flag computed at run time — is
    still a setup node of the outer instance: over setup() / calls / an executor run it executes at most once and every
    run sees the first value.  Yields (variant, problems)."""
    import copy as _copy
    from tawazi import dag as _dag, xn as _xn
    cnt = {"s": 0}

    def sv():
        cnt["s"] += 1
        return ("setupval", cnt["s"])

    def w(x, s_):
        return (x, s_)

    def truthy(f):
        return f
    for f_ in (sv, w, truthy):
        f_.__qualname__ = f_.__name__
    xsv, xw, xt = _xn(sv, setup=True), _xn(w), _xn(truthy)

    def inner(x):
        return xw(x, xsv())
    inner_d = _dag(inner)

    def outer_flag(x, flag):
        return inner_d(x, twz_active=xt(flag))

    def outer_plain(x, flag):
        return inner_d(x), xt(flag)
    for variant, desc in (("runtime-flag", outer_flag), ("plain", outer_plain)):
        for first in ("setup", "call", "falsy-call"):
            o = _dag(desc)
            cnt["s"] = 0
            bad = []
            try:
                if first == "setup":
                    o.setup()
                elif first == "falsy-call":
                    o(0, False)
                rs = [o(1, True), o(2, True), o.executor()(3, True)]
                seen = []
                for k_, r in enumerate(rs, 1):
                    r0 = r if variant == "runtime-flag" else r[0]
                    if not (isinstance(r0, tuple) and r0[0] == k_):
                        bad.append("run %d returned %r" % (k_, r))
                    else:
                        seen.append(r0[1])
                if cnt["s"] != 1:
                    bad.append("the nested setup node executed %d times" % cnt["s"])
                if len(set(map(repr, seen))) > 1:
                    bad.append("runs saw different setup values: %r" % (seen,))
            except BaseException as e:  # noqa: BLE001
                bad.append("raised %s: %s" % (type(e).__name__, str(e)[:120]))
            yield "%s/%s-first" % (variant, first), bad


def with_nested_setup(run):
    def wrapped(pid, tier, seed):
        cov, fs, searcher = run(pid, tier, seed)
        n = 0
        for variant, problems in nested_setup_histories():
            n += 1
            if problems:
                fs.append(Failure("counterexample", "nested-setup-node-not-treated-as-setup(%s)" % variant, dict(variant=variant),
                                  dict(problems=problems), slice_="H"))
        cov["nested_setup_histories"] = n
        cov["evaluations"] += n
        return cov, fs, searcher
    return wrapped


reg("C11", ["Props.C11_setup_at_most_once", "Props.C11_first_value_kept", "VM.not_entered_of_res", "Props.C11_runs_only_what_selection_needs", "Props.C11_later_executions_see_first_value",
            "Props.C11_kept_executors", "Props.C11_kept_executor_sees_current_setup", "Props.C11_setup_value_independent_of_arguments",
            "Props.C13_C11_build_rule", "Props.C15_accepted_table_call_after_history_is_fresh", "Props.C11_setup_selection", "Props.C12_targets_only", "Props.C11_established_value_survives_executor_runs"], with_foreign_cache(with_nested_setup(with_malformed(run_H, ["setup-on-normal", "setup-on-arg"]))), ASSUME_H)
def run_H_and_composeprobe(pid, tier, seed):
    cov, fs, _ = run_H(pid, tier, seed)
    covc, fsc, _ = run_C(pid, tier, seed)
    keep = [f for f in fsc if f.signature == "compose-changed-the-original"]
    cov["compose_probes_of_the_original"] = covc.get("original_probes", 0)
    cov["evaluations"] += covc.get("original_probes", 0)
    cov["rule"] += "; plus: the original DAG probed with the same arguments before and after compose() with random inputs/outputs (slice C)"
    return cov, fs + keep, None


def exotic_container_flags():
    """Flags that are ELEMENTS of containers outside the model's value vocabulary: objects whose own truthiness says nothing
    about their elements (an empty `defaultdict` answers every key; a settings object whose `len` counts overrides only).
    The flag is the ELEMENT (`x[key]`), judged by its own truthiness.  Yields (case, problems)."""
    import collections as _c
    from tawazi import dag as _dag, xn as _xn

    class Settings:
        def __init__(self, **d):
            self.d = d

        def __len__(self):
            return 0            # "no overrides": falsy, yet every option has a value

        def __getitem__(self, k):
            return self.d[k]
    ran = []

    def guarded(v):
        ran.append(v)
        return ("ran", v)

    def make(v):
        return v
    for f_ in (guarded, make):
        f_.__qualname__ = f_.__name__
    xg, xm = _xn(guarded), _xn(make)

    def by_argument(c):
        return xg(1, twz_active=c["on"])

    def by_result(c):
        return xg(1, twz_active=xm(c)["on"])
    cases = [("empty-defaultdict/truthy", _c.defaultdict(lambda: True), True), ("empty-defaultdict/falsy", _c.defaultdict(lambda: 0), False),
             ("settings-object/truthy", Settings(on="yes"), True), ("settings-object/falsy", Settings(on=""), False),
             ("ordinary-dict/truthy", {"on": 1}, True), ("ordinary-dict/falsy", {"on": None}, False)]
    for name_, desc in (("argument", by_argument), ("node-result", by_result)):
        d = _dag(desc)
        for cname, c, want_run in cases:
            ran.clear()
            bad = []
            try:
                r = d(c)
                if bool(ran) != want_run:
                    bad.append("flag element is %s but the node %s" % ("truthy" if want_run else "falsy", "ran" if ran else "did not run"))
                if r != (("ran", 1) if want_run else None):
                    bad.append("returned %r" % (r,))
            except BaseException as e:  # noqa: BLE001
                bad.append("raised %s: %s" % (type(e).__name__, str(e)[:100]))
            yield "%s/%s" % (name_, cname), bad


def run_V_and_composed_flags(pid, tier, seed):
    """C10 also covers flags in DAGs obtained by compose(): the flag of a kept node may refer (whole or indexed) to a
    compose input; the composed DAG must run the node exactly when the supplied value's selected part is truthy."""
    cov, fs, searcher = run_V(pid, tier, seed)
    covc, fsc, _ = run_C(pid, tier, seed)

    def has_flag(f):
        sc = f.scenario if isinstance(f.scenario, dict) else {}
        return any(s_.get("flag") is not None for s_ in sc.get("specs", []))
    keep = [f for f in fsc if f.kind == "counterexample" and has_flag(f)]
    cov["composed_dags_with_flags"] = dict(compositions=covc.get("compositions", 0), with_flag_input=covc.get("with_flag_input", 0),
                                           indexed_flag_inputs=covc.get("indexed_flag_inputs", 0))
    cov["evaluations"] += covc.get("with_flag_input", 0)
    cov["rule"] += "; plus: compositions (slice C) of DAGs whose nodes carry whole / indexed flags, flag producers made inputs"
    # flags under the scheduler slice too: executors with target / exclude / root selections, setup() runs, reconfigured,
    # nested and hand-built DAGs — a node whose flag is falsy never starts, whatever path the run takes
    covs, fss, _s = run_S(pid, tier, seed)
    cov["scheduler_scenarios_with_flags"] = dict(scenarios=covs.get("evaluations", 0), distinct_nontrivial=covs.get("distinct_nontrivial", 0))
    cov["evaluations"] += covs.get("evaluations", 0)
    cov["rule"] += "; plus: the scheduler scenarios (selections, setup runs, reconfiguration, nesting) judged by the C10 monitor"
    ex_ = []
    for case, problems in exotic_container_flags():
        if problems:
            ex_.append(Failure("counterexample", "flag-element-of-a-container-misjudged(%s)" % case, dict(case=case), dict(problems=problems), slice_="V"))
    cov["exotic_container_flag_cases"] = 12
    return cov, fs + keep + [f for f in fss if f.kind == "counterexample"] + ex_, searcher


PROPS["C10"]["run"] = run_V_and_composed_flags

reg("C15", ["Props.C15_no_state_but_setup", "Props.C15_next_call_depends_only_on_setup_state", "Props.C15_failed_operation_is_a_noop", "VM.applyOp_res_nonsetup", "Props.C01_core",
            "Props.C15_executor_single_use", "Props.C15_executor_run_is_complete", "Props.C15_executor_no_state_but_setup",
            "Props.C15_call_after_history_is_fresh", "Props.C11_setup_value_independent_of_arguments",
            "Props.C15_call_after_any_history", "Props.C15_closedSel_decidable", "Props.C11_sub_selection_same_setup_values",
            "Props.C15_accepted_table_call_after_history_is_fresh", "Props.C13_C11_build_rule"],
    # "a call depends on its arguments and the setup state only" rests on the build rule that no setup node depends on a DAG
    # argument (required or defaulted): descriptions that break it must be refused (VM.validateB), else an argument of one
    # call reaches every later call through the kept setup value
    with_foreign_cache(with_malformed(run_H_and_composeprobe, ["setup-on-arg"])), ASSUME_H)
reg("C18", ["Props.C18_restart_same", "Props.C18_restart_runs_only_uncached", "VM.denote_seeded", "Props.C18_cache_roundtrip",
            "Props.C18_checkpoint_chain", "Props.C18_chain_runs_nothing_twice", "Props.C18_write_back_keeps", "Props.C18_chain_hypothesis_met",
            "Props.C18_file_entries_are_not_executed"], run_H, ASSUME_H)


# ---------------------------------------------------------------------------------------------
# compose (C19)
# ---------------------------------------------------------------------------------------------
import slice_c as C  # noqa: E402


def run_C(pid, tier, seed):
    n_dags = 200 if tier == "quick" else 6000
    per = 6 if tier == "quick" else 12
    failures, samples = [], []
    stats = dict(dags=0, compositions=0, valueerrors=0, with_flag_input=0, ellipsis=0, alias_tag=0, ambiguous=0,
                 original_probes=0, exhaustive_pairs=0)
    distinct = set()
    base = random.Random("%s/c/%d" % (pid, seed))
    blocks, kept = [], {}
    for k in range(n_dags):
        rng = random.Random(base.randrange(1 << 62))
        sc = C.gen(rng, max_n=7 if tier == "quick" else 6)
        d = C.build(sc)
        n = sc["n"]
        stats["dags"] += 1
        def probe():
            try:
                return ("OK", C.run_sync(d(1, 2)))
            except BaseException as e:  # noqa: BLE001   (the original itself may raise on these arguments)
                return ("RAISES", type(e).__name__)
        probe_before = probe()
        if rng.random() < 0.4:
            # the original has a past: it was run through an executor object with explicit arguments (also for the defaulted
            # parameter) — compose takes constants and DEFAULTS from the original, never an argument of an earlier run
            try:
                C.run_sync(d.executor()(5, 6))
            except BaseException:  # noqa: BLE001   (the original itself may raise on these arguments)
                pass
            stats["executor_run_before_compose"] = stats.get("executor_run_before_compose", 0) + 1
        qlines, cases = [], []
        small_exhaustive = tier == "thorough" and n <= 3
        pairs = []
        if small_exhaustive:
            import itertools
            allidx = list(range(n)) + [n, n + 1]
            for r_in in range(0, 3):
                for ins in itertools.combinations(allidx, r_in):
                    for r_out in range(1, 3):
                        for outs in itertools.combinations(range(n), r_out):
                            pairs.append((list(ins), list(outs)))
            stats["exhaustive_pairs"] += len(pairs)
        else:
            for _ in range(per):
                outs = rng.sample(range(n), rng.randint(1, min(2, n)))
                r = rng.random()
                if r < 0.15:
                    ins = "ellipsis"
                else:
                    ins = rng.sample(list(range(n)) + [n, n + 1], rng.randint(0, min(3, n + 2)))
                # directed: make the producer of some node's activation flag an INPUT and keep that node as an output
                flagged = [i for i in range(n) if sc["specs"][i]["flag"] is not None]
                if flagged and ins != "ellipsis" and rng.random() < 0.35:
                    o = rng.choice(flagged)
                    f_ = sc["specs"][o]["flag"]
                    outs = [o] + [x for x in outs if x != o and x != f_][:1]
                    ins = [f_] + [x for x in ins if x not in (f_, o) and x not in outs][:2]
                if ins != "ellipsis" and rng.random() < 0.15:
                    # the same node asked for several times (one value per requested output, in request order)
                    outs = outs + [rng.choice(outs)]
                    stats["outputs_with_repeats"] = stats.get("outputs_with_repeats", 0) + 1
                pairs.append((ins, outs))
        for ins, outs in pairs:
            if ins != "ellipsis" and set(ins) & set(outs):
                stats["out_of_scope_overlap"] = stats.get("out_of_scope_overlap", 0) + 1
                continue   # an output that is also an input: refused/ambiguous by an existing test, not claimed
            ell = ins == "ellipsis"
            if ell:
                ins = [n, n + 1]
                stats["ellipsis"] += 1
            vals = [rng.choice([(3, 4), ("a", "b"), (1, (2, 3)), (0, 5), 1, 0, None, "xy", True]) for _ in ins]
            # an input that is read through an index as somebody's flag: parts and whole of mixed truthiness
            for q_, i_ in enumerate(ins):
                if any(s_["flag"] == i_ and s_.get("flagidx") is not None for s_ in sc["specs"]) and rng.random() < 0.7:
                    vals[q_] = rng.choice([(0, 5), (5, 0), (0, 0), (3, 4), (None, 1)])
                    stats["indexed_flag_inputs"] = stats.get("indexed_flag_inputs", 0) + 1
            # aliases
            ambiguous = False

            def alias(i, allow_tag=True):
                nonlocal ambiguous
                if i >= n:
                    return "describe>!>" + ("x" if i == n else "y")
                s = sc["specs"][i]
                if allow_tag and s["tag"] and rng.random() < 0.4:
                    stats["alias_tag"] += 1
                    if s["tag"] == "shared":
                        ambiguous = True
                    return s["tag"]
                return rng.choice(["n%d" % i, d.exec_nodes["n%d" % i]])
            ins_alias = ... if ell else [alias(i) for i in ins]
            outs_alias = [alias(o) for o in outs]
            single = len(outs) == 1 and rng.random() < 0.5
            before_counts = dict(C.COUNTS)
            real = C.real_compose(sc, d, outs_alias, ins_alias, vals, single)
            stats["compositions"] += 1
            # setup results are taken from the original: a setup node the original has already run is not run again
            rerun = [i for i in range(n) if sc["specs"][i].get("setup") and i not in ins
                     and C.COUNTS.get(i, 0) > before_counts.get(i, 0)]
            if rerun and real[0] == "OK":
                failures.append(Failure("counterexample", "composed-dag-reran-setup-nodes-of-the-original", sc,
                                        dict(case=dict(ins=ins, outs=outs), rerun=rerun), slice_="C"))
            if any(sc["specs"][o]["flag"] in ins for o in range(n) if sc["specs"][o]["flag"] is not None):
                stats["with_flag_input"] += 1
            want = ("VALUEERROR", "ambiguous-alias") if ambiguous else C.oracle(sc, outs, ins, vals)
            case = dict(ins=ins, outs=outs, vals=vals, ellipsis=ell, single=single, ambiguous=ambiguous)
            distinct.add(json.dumps([sc, ins, outs], sort_keys=True, default=repr))
            if want[0] == "RAISES":
                stats["plain_raises"] = stats.get("plain_raises", 0) + 1
                continue    # the original pipeline itself would raise on these values: nothing is claimed
            if want[0] == "VALUEERROR":
                stats["valueerrors"] += 1
                stats["ambiguous"] += int(ambiguous)
                if real[0] != "VALUEERROR":
                    failures.append(Failure("counterexample", "compose-accepted-invalid-request(%s)" % want[1], sc,
                                            dict(case=case, real=real), slice_="C"))
            else:
                if real[0] != "OK":
                    sig = "compose-" + (real[0].lower()) + (":" + real[1] if len(real) > 2 else "")
                    failures.append(Failure("counterexample", sig, sc, dict(case=case, real=real, want=[C.render(v) for v in want[1]]), slice_="C"))
                elif [C.render(v) for v in real[1]] != [C.render(v) for v in want[1]]:
                    failures.append(Failure("counterexample", "composed-dag-wrong-value", sc,
                                            dict(case=case, real=[C.render(v) for v in real[1]], want=[C.render(v) for v in want[1]]), slice_="C"))
            if not ambiguous:
                qlines.append("Q %d %s %d %s %s" % (len(outs), " ".join(map(str, outs)), len(ins), " ".join(map(str, ins)),
                                                    " ".join(C.enc(v) for v in vals)))
                cases.append((case, real, want))
        probe_after = probe()
        stats["original_probes"] += 1
        if probe_before != probe_after:
            failures.append(Failure("counterexample", "compose-changed-the-original", sc,
                                    dict(before=probe_before, after=probe_after), slice_="C"))
        tid = "t%d" % k
        blocks.append("\n".join(C.header(tid, sc) + qlines + ["E"]) + "\n")
        kept[tid] = (sc, cases)
        if len(samples) < 2:
            samples.append(dict(scenario=sc, protocol=blocks[-1].splitlines()))
    out = common.run_driver("Compose", "".join(blocks))
    ans = {}
    for l in out:
        w = l.split()
        ans.setdefault(w[0], {})[int(w[1])] = w[2:]
    for tid, (sc, cases) in kept.items():
        for q, (case, real, want) in enumerate(cases):
            a = ans.get(tid, {}).get(q)
            if a is None:
                raise common.HarnessError("no model answer for %s/%d" % (tid, q))
            if a[0] == "OPEN":
                failures.append(Failure("proof", "C19-closure-hypothesis-fails-on-instance", sc, dict(case=case), slice_="C"))
                continue
            if a[0] in ("MISSING", "INPUTDEP"):
                model = ("VALUEERROR",)
            elif a[0] == "OK":
                model = ("OK", a[1:])
            else:
                model = (a[0],)
            realc = ("OK", [C.render(v) for v in real[1]]) if real[0] == "OK" else (real[0],)
            if model != realc:
                failures.append(Failure("correspondence", "C-compose-model-vs-code", sc,
                                        dict(case=case, model=model, real=real, oracle=want[0]), slice_="C"))
    coverage = dict(evaluations=stats["compositions"], distinct_nontrivial=len(distinct),
                    rule="random DAGs (<=7 nodes, flags on node results, constants, defaulted and required DAG parameters, tags "
                         "incl. a tag shared by two nodes) x random (inputs, outputs) subset pairs given through id / node "
                         "reference / tag / Ellipsis x random input values; thorough: every subset pair on DAGs with <=3 nodes; "
                         "the original DAG is probed before and after; distinct = distinct (DAG, inputs, outputs)",
                    samples=samples, traces_validated_against_impl=sum(len(c) for _s, c in kept.values()), **stats)
    return coverage, failures, None


ASSUME_C = [
    "node functions deterministic; alias resolution modelled in the harness",
    "the composed DAG's fresh parameter ids are glue (the model keeps the node's index and makes it a precomputed holder)",
]
reg("C19", ["Props.C19_compose_correct", "VM.needed_closed", "Props.C12_restriction_keeps_values", "VM.C19_original_unchanged", "Props.C01_core", "Props.C19_compose_return"], run_C, ASSUME_C)


# ---------------------------------------------------------------------------------------------
# threads (C16)
# ---------------------------------------------------------------------------------------------
import slice_t as T  # noqa: E402


def run_T(pid, tier, seed):
    n = 400 if tier == "quick" else 15000
    failures, samples = [], []
    stats = dict(interleavings=0, threads_hist={}, with_overlapping_build=0, exhaustive_programs=0,
                 exhaustive_interleavings=0, concurrent_call_batches=0, hung=0)
    distinct = set()
    blocks, kept = [], {}

    def one(xid, sc):
        obs, errors, hung = T.run(sc)
        stats["interleavings"] += 1
        stats["threads_hist"][len(sc["progs"])] = stats["threads_hist"].get(len(sc["progs"]), 0) + 1
        distinct.add(json.dumps(sc, sort_keys=True))
        if hung:
            stats["hung"] += 1
            failures.append(Failure("counterexample", "threads-hung", sc, dict(obs=obs, errors=errors), slice_="T"))
            return
        if T.LAST_STALL[0] is not None:
            # an action (a DAG call, a build step, a function call) did not return within 8 s while the other threads stood
            # still at their turn: it waits for something another thread holds — no action of one thread may depend on another
            stats["hung"] += 1
            failures.append(Failure("counterexample", "action-blocked-by-another-threads-pending-work", sc,
                                    dict(thread=T.LAST_STALL[0][0], schedule_position=T.LAST_STALL[0][1], obs=obs), slice_="T"))
            return
        if errors:
            raise common.HarnessError("thread harness error: %r" % (errors,))
        # monitor: every thread observes a prefix of what it observes alone
        for t, p in enumerate(sc["progs"]):
            want = T.solo(p)
            got = obs[t]
            if got != want[:len(got)]:
                j = next(i for i in range(len(got)) if got[i] != want[i])
                kind = "dag-call-returned-reference" if got[j] == "REF" and want[j].startswith("DAG") else \
                       "function-call-recorded-instead-of-executed" if got[j] == "REF" and want[j].startswith("FN") else \
                       "built-dag-contains-foreign-nodes" if got[j].startswith("BUILT") else "thread-observation-differs"
                failures.append(Failure("counterexample", kind, sc, dict(thread=t, observed=got, alone=want), slice_="T"))
                break
        blocks.append(T.block(xid, sc, "o"))
        kept[xid] = (sc, obs)
        if len(samples) < 2:
            samples.append(dict(scenario=sc, observed=obs, protocol=blocks[-1].splitlines()))

    base = random.Random("%s/t/%d" % (pid, seed))
    for k in range(n):
        if stats["hung"] >= 2:
            break           # every further interleaving would cost its time-out again
        sc = T.gen(random.Random(base.randrange(1 << 62)))
        one("x%d" % k, sc)
    # exhaustive: every interleaving of small programs
    small = [[["B", "R1", "E"], ["D0"]], [["B", "R1", "E"], ["F2"]], [["B", "R0", "E"], ["B", "R1", "E"]],
             [["B", "R1", "R2", "E"], ["D1", "F0"]], [["D0", "B", "E"], ["F1", "D1"]],
             # a thread whose describing function RAISED earlier calls a DAG / a function while another thread builds
             [["B", "R2", "A", "D0"], ["B", "R1", "E"]], [["B", "A", "F1"], ["B", "R3", "E"]],
             # an executor object called while another thread builds
             [["B", "R1", "E"], ["X0"]], [["X1", "B", "R0", "E"], ["B", "R2", "E", "X0"]],
             # a built DAG reconfigured (its nodes re-created) while another thread builds
             [["B", "R1", "E"], ["C0"]], [["B", "R0", "R2", "E"], ["C1", "D1"]]]
    if tier == "thorough":
        small += [[["B", "R1", "E"], ["D0"], ["F3"]], [["B", "R1", "E", "D0"], ["D1", "B", "R2", "E"]],
                  [["B", "R0", "E"], ["F1"], ["B", "R2", "E"]]]
    for pi, progs in enumerate(small):
        stats["exhaustive_programs"] += 1
        for si, sched in enumerate(T.all_schedules(progs)):
            if stats["hung"] >= 2:
                break
            stats["exhaustive_interleavings"] += 1
            one("e%d_%d" % (pi, si), dict(progs=progs, sched=list(sched)))
    # concurrent calls of one shared DAG with distinct arguments
    for b in range(10 if tier == "quick" else 100):
        k = 2 + b % 5
        stats["concurrent_call_batches"] += 1
        for arg, res in T.concurrent_calls(k, b):
            if res != ("second", ("first", arg), arg):
                failures.append(Failure("counterexample", "concurrent-call-got-foreign-result", dict(k=k, batch=b),
                                        dict(arg=arg, result=res), slice_="T"))
                break
    # first uses of an instance raced against each other under the minimum switch interval
    runs_, problems_ = T.cold_start_stress(150 if tier == "quick" else 3000, seed)
    stats["cold_start_concurrent_calls"] = runs_
    for p_ in problems_[:3]:
        failures.append(Failure("counterexample", "concurrent-first-call-got-wrong-result(%s)" % p_["variant"],
                                dict(variant=p_["variant"], threads=p_["threads"]), p_, slice_="T"))
    # builds that really overlap: the others wait for the lock while the first is paused in its describing function
    stats["overlapping_build_batches"] = 0
    for b in range(12 if tier == "quick" else 120):
        k = 2 + b % 3
        stats["overlapping_build_batches"] += 1
        plans, res = T.overlapping_builds(k, seed * 1000 + b)
        for t in range(k):
            want = ("BUILT", plans[t])
            if res.get(t) != want:
                failures.append(Failure("counterexample", "overlapping-builds-differ-from-sequential",
                                        dict(k=k, plans=plans), dict(thread=t, got=res.get(t), want=want), slice_="T"))
                break
    out = common.run_driver("Threads", "".join(blocks))
    model = {}
    for l in out:
        w = l.split()
        model.setdefault(w[0], {})[int(w[1])] = w[2:]
    for xid, (sc, obs) in kept.items():
        for t in obs:
            if obs[t] != model.get(xid, {}).get(t, []):
                failures.append(Failure("correspondence", "T-observations-vs-owner-model", sc,
                                        dict(thread=t, real=obs[t], model=model.get(xid, {}).get(t)), slice_="T"))
                break
    coverage = dict(evaluations=stats["interleavings"], distinct_nontrivial=len(distinct),
                    rule="2-3 real threads x <=5 API-level actions each (build with recorded calls, decorated function "
                         "outside a DAG, call of a shared DAG) forced through a scripted interleaving (random; plus EVERY "
                         "interleaving of a list of small thread programs); batches of 2-6 threads calling one DAG at the "
                         "same time (a barrier inside a node guarantees the runs overlap); distinct = distinct (programs, schedule)",
                    samples=samples, traces_validated_against_impl=len(kept), **stats)
    return coverage, failures, None


ASSUME_T = [
    "atomicity at the granularity of tawazi API segments between user-code yield points; bytecode-level preemption inside tawazi is not modelled",
    "setup nodes have run before a DAG is shared between threads (excluded by the statement)",
    "OS thread identity / scheduling is the runtime's; the harness serialises the scripted actions with a condition variable",
]
reg("C16", ["Props.C16_owner_safe", "Props.C16_pinned_witness", "TH.C16_owner_same_schedule", "Props.C17b_concurrent_awaits_isolated", "Props.C16_concurrent_calls_isolated"], run_T, ASSUME_T)


# ---------------------------------------------------------------------------------------------
# C17: flavour equality (via the V engine), concurrent awaits, loop liveness
# ---------------------------------------------------------------------------------------------
import slice_a as A  # noqa: E402


def run_A(pid, tier, seed):
    coverage, failures, _ = run_V(pid, tier, seed)       # (a) both flavours, same programs, same oracle
    n_g = 150 if tier == "quick" else 2500
    stats = dict(gathers=0, awaits=0, liveness_runs=0)
    base = random.Random("C17/g/%d" % seed)
    for k in range(n_g):
        rng = random.Random(base.randrange(1 << 62))
        sc = A.gen_gather(rng)
        out = A.run_gather(sc, rng.randrange(1 << 30))
        stats["gathers"] += 1
        stats["awaits"] += sc["k"]
        if out[0] != "ok":
            sig = "gather-hang" if out[0] == "hang" else "gather-raised:" + type(out[1]).__name__
            failures.append(Failure("counterexample", sig, sc, dict(outcome=repr(out)[:300]), slice_="A"))
            if out[0] == "hang":
                break      # a stuck scheduler cannot be killed and may spin: a hang is a counterexample already, stop here
            continue
        for j, r in enumerate(out[1]):
            want = A.expected(sc, 1000 + j)
            if tuple(r) != want:
                failures.append(Failure("counterexample", "concurrent-await-got-wrong-result", sc,
                                        dict(await_index=j, got=r, want=want), slice_="A"))
                break
    # (c) liveness: without thread-resource nodes the loop is never blocked (C17c_partial) ...
    for maxc in (1, 2, 3):
        ok, detail = A.liveness([], maxc)
        stats["liveness_runs"] += 1
        if not ok:
            failures.append(Failure("counterexample", "loop-blocked/async-only", dict(kinds=[], maxc=maxc), detail, slice_="A"))
    # ... also when the async-thread node that needs the loop is a SEQUENTIAL node (it runs alone; the loop is not its hostage)
    for maxc in (1, 2):
        ok, detail = A.liveness([], maxc, sequential=True)
        stats["liveness_runs"] += 1
        if not ok:
            failures.append(Failure("counterexample", "loop-blocked/sequential-async-thread-node", dict(kinds=["seq-a"], maxc=maxc), detail, slice_="A"))
    # ... also after a reconfiguration that only restates priorities (every node keeps its resource)
    ok, detail = A.liveness([], 2, reconfigure=True)
    stats["liveness_runs"] += 1
    if not ok:
        failures.append(Failure("counterexample", "loop-blocked/async-only-after-reconfiguration", dict(kinds=[], maxc=2, reconfigured=True), detail, slice_="A"))
    # ... nor when one of two async-thread nodes in flight FAILS while the other is still running
    for maxc in (2, 3):
        ok, detail = A.liveness_on_failure(maxc)
        stats["liveness_runs"] += 1
        if not ok:
            failures.append(Failure("counterexample", "loop-blocked/after-a-node-failed", dict(kinds=["fail"], maxc=maxc), detail, slice_="A"))
    # ... nor while the scheduler drains the pool for a sequential candidate with both kinds in flight: the wait pair
    # gives the hand to the loop first (async wait), the blocking thread wait comes after the async-thread node is done
    ok, detail = A.liveness_sequential_drain()
    stats["liveness_runs"] += 1
    if not ok:
        failures.append(Failure("counterexample", "loop-blocked/sequential-drain", dict(kinds=["a", "t", "seq"], maxc=3), detail, slice_="A"))
    # ... with a thread node in flight next to it, it is (known finding, model witness C17c_mixed_witness)
    ok, detail = A.liveness(["t"], 3)
    stats["liveness_runs"] += 1
    if not ok:
        failures.append(Failure("counterexample", "loop-blocked/mixed-kinds", dict(kinds=["t"], maxc=3), detail, slice_="A"))
    coverage.update(stats)
    coverage["evaluations"] += stats["gathers"] + stats["liveness_runs"]
    coverage["rule"] += "; plus asyncio.gather of 2-8 concurrent awaits of one AsyncDAG with distinct arguments under scripted " \
                        "completion orders, and a heartbeat coroutine that must advance while an async-thread node runs"
    return coverage, failures, None


reg("C17", ["Props.C17b_concurrent_awaits_isolated", "VM.prun_proj", "Props.C17c_partial", "Props.C17c_mixed_witness", "Props.C01_core", "Props.acceptor_sound", "Props.C17a_flavours_agree"], run_A,
    ASSUME_V + ["the event loop's own fairness is trusted (asyncio)", "both flavours run the same coroutine async_execute (DAG drives it with asyncio.run): flavour equality is definitional in the model, the content is in the tie"])
