"""Slice T (C16): real threads forced through scripted interleavings at the granularity of tawazi API
calls (begin/record/end of a build, a decorated function called outside a DAG, a shared DAG called),
compared with lean/Drivers/Threads.lean and with what each thread observes when it runs alone."""
import random
import threading

import control  # noqa: F401
from tawazi import cfg as twz_cfg
from tawazi import xn
from tawazi._dag.constructor import threadsafe_make_dag
from tawazi.consts import XNOutsideDAGCall
from tawazi.node import UsageExecNode

NF, ND = 4, 2


class DescribeFailed(Exception):
    """raised by a describing function on purpose"""


def make_fn(k):
    def f(x=0):
        return ("f%d" % k, x)
    f.__name__ = f.__qualname__ = "f%d" % k
    return xn(f)


def make_world():
    fns = [make_fn(k) for k in range(NF)]
    dags = []
    def second(b=0):
        return b
    second.__name__ = second.__qualname__ = "second"
    xsecond = xn(second)
    for d in range(ND):
        def mk(inner):
            # a defaulted parameter: a run that passes it must not change what a run that omits it sees
            def describe(a, b=5):
                return inner(a), xsecond(b)
            return describe
        describe = mk(fns[d])
        describe.__name__ = describe.__qualname__ = "dag%d" % d
        dags.append(threadsafe_make_dag(describe, 2, False))
    return fns, dags


def gen(rng, nthreads=None):
    nthreads = nthreads or rng.randint(2, 3)
    progs = []
    for _t in range(nthreads):
        acts, inside = [], False
        for _ in range(rng.randint(1, 5)):
            if inside:
                if rng.random() < 0.6:
                    acts.append("R%d" % rng.randrange(NF))
                else:
                    # a describing function may RAISE (an ordinary user mistake): nothing is built, and the thread
                    # goes on calling DAGs / functions / building again
                    acts.append("A" if rng.random() < 0.3 else "E"); inside = False
            else:
                r = rng.random()
                if r < 0.35:
                    acts.append("B"); inside = True
                elif r < 0.65:
                    acts.append("F%d" % rng.randrange(NF))
                elif r < 0.8:
                    acts.append("D%d" % rng.randrange(ND))
                elif r < 0.9:
                    acts.append("X%d" % rng.randrange(ND))     # the DAG run through a fresh executor object
                else:
                    acts.append("C%d" % rng.randrange(ND))     # the built DAG is reconfigured (its nodes are re-created)
        if inside:
            acts.append("E")
        progs.append(acts)
    total = sum(len(p) for p in progs)
    sched = [rng.randrange(nthreads) for _ in range(total + rng.randint(0, 4))]
    return dict(progs=progs, sched=sched)


def all_schedules(progs):
    """Every interleaving that lets each thread finish (multiset permutations of thread ids)."""
    import itertools
    base = []
    for t, p in enumerate(progs):
        base += [t] * len(p)
    return sorted(set(itertools.permutations(base)))


class Turns:
    def __init__(self, sched, progs):
        self.sched = list(sched)
        self.pos = 0
        self.cv = threading.Condition()
        self.remaining = {t: len(p) for t, p in enumerate(progs)}
        self.builder = None
        self.free = False
        self.stalled_on = None

    def wait_turn(self, tid, act):
        """Block until it is `tid`'s slot.  Returns True if the action is observed (inside the schedule)."""
        with self.cv:
            while True:
                if self.free or self.pos >= len(self.sched):
                    self.free = True
                    self.cv.notify_all()
                    return False
                cur = self.sched[self.pos]
                if cur == tid:
                    if act == "B" and self.builder is not None and self.builder != tid:
                        self.pos += 1          # blocked on the lock: the slot is wasted
                        self.cv.notify_all()
                        continue
                    return True
                if self.remaining.get(cur, 0) == 0:
                    self.pos += 1              # a finished thread's slot is wasted
                    self.cv.notify_all()
                    continue
                if not self.cv.wait(timeout=8):
                    # the thread whose slot it is did not finish its action: something it needs is held by another thread
                    # (which is itself waiting for its turn) — the schedule is abandoned, everybody runs freely
                    self.stalled_on = (cur, self.pos)
                    self.free = True
                    self.cv.notify_all()
                    return False

    def end_turn(self, tid, observed):
        with self.cv:
            self.remaining[tid] -= 1
            if observed and not self.free:
                self.pos += 1
            self.cv.notify_all()


LAST_STALL = [None]     # (thread, schedule position) whose action did not return in the last run, if any


def classify(v):
    if isinstance(v, UsageExecNode):
        return "REF"
    if isinstance(v, tuple) and v and all(isinstance(x, UsageExecNode) for x in v):
        return "REF"
    return None


def table_of(dag_obj):
    out, last_site = [], None
    for id_, node in dag_obj.exec_nodes.items():
        if type(node).__name__ != "LazyExecNode":
            continue
        if "." in id_:
            site = id_.split(".")[0]            # one entry per spliced call site ("dag1", "dag1<<1>>", …)
            if site == last_site:
                continue
            last_site = site
            out.append(1000 + int(site.split("<<")[0][3:]))
        else:
            last_site = None
            out.append(int(id_.split("<<")[0][1:]))
    return out


def run(sc):
    """Run one scripted interleaving on real threads.  Returns {tid: [obs…]} (observed prefix only)."""
    twz_cfg.TAWAZI_EXECNODE_OUTSIDE_DAG_BEHAVIOR = XNOutsideDAGCall.ignore
    fns, dags = make_world()
    progs = sc["progs"]
    T = Turns(sc["sched"], progs)
    obs = {t: [] for t in range(len(progs))}
    errors = []

    def worker(tid):
        acts = list(progs[tid])
        i = 0
        try:
            while i < len(acts):
                a = acts[i]
                if a == "B":
                    j = i + 1
                    inner = []
                    while acts[j] not in ("E", "A"):
                        inner.append(acts[j]); j += 1
                    term = acts[j]
                    state = dict(observed_begin=None)

                    def describe():
                        # beginBuild has happened: the lock is ours
                        T.builder = tid
                        if state["observed_begin"]:
                            obs[tid].append("U")
                        T.end_turn(tid, state["observed_begin"])
                        last = None
                        for r in inner:
                            o = T.wait_turn(tid, r)
                            v = fns[int(r[1:])](5)
                            if o:
                                obs[tid].append(classify(v) or "FN%s" % r[1:])
                            T.end_turn(tid, o)
                            last = v
                        state["observed_end"] = T.wait_turn(tid, term)
                        if term == "A":
                            raise DescribeFailed()
                        return last if last is not None else fns[0](1)

                    describe.__name__ = describe.__qualname__ = "built_by_%d" % tid
                    state["observed_begin"] = T.wait_turn(tid, "B")
                    try:
                        built = threadsafe_make_dag(describe, 1, False)
                        tab = table_of(built)
                        # a build with no recorded call adds one f0 call of its own (a DAG must return something)
                        if not inner and tab and tab[-1] == 0:
                            tab = tab[:-1]
                        res = "BUILT:" + ",".join(map(str, tab))
                    except DescribeFailed:
                        res = "FAILED"
                    except BaseException as e:  # noqa: BLE001
                        res = "EXC:" + type(e).__name__
                    T.builder = None
                    if state.get("observed_end"):
                        obs[tid].append(res)
                    T.end_turn(tid, state.get("observed_end", False))
                    i = j + 1
                    continue
                o = T.wait_turn(tid, a)
                try:
                    if a[0] == "F":
                        v = fns[int(a[1:])](5)
                        res = classify(v) or ("FN%s" % a[1:] if v == ("f%s" % a[1:], 5) else "BAD:%r" % (v,))
                    elif a[0] == "C":
                        # reconfiguration re-creates the node OUTSIDE any description of this thread; the DAG must work after it
                        dags[int(a[1:])].config_from_dict({"nodes": {"f%s" % a[1:]: {"priority": 1 + tid}}})
                        v = dags[int(a[1:])](100 + tid)
                        res = classify(v) or ("DAG%s" % a[1:] if v == (("f%s" % a[1:], 100 + tid), 5) else "BAD:%r" % (v,))
                    else:
                        if a[0] == "D":
                            v = dags[int(a[1:])](100 + tid)
                            want_v = (("f%s" % a[1:], 100 + tid), 5)
                        else:
                            v = dags[int(a[1:])].executor()(100 + tid, 70 + tid)      # passes the defaulted parameter too
                            want_v = (("f%s" % a[1:], 100 + tid), 70 + tid)
                        res = classify(v) or ("DAG%s" % a[1:] if v == want_v else "BAD:%r" % (v,))
                except BaseException as e:  # noqa: BLE001
                    res = "EXC:" + type(e).__name__
                if o:
                    obs[tid].append(res)
                T.end_turn(tid, o)
                i += 1
        except BaseException as e:  # noqa: BLE001
            errors.append((tid, repr(e)))
            with T.cv:
                T.free = True
                T.cv.notify_all()

    ths = [threading.Thread(target=worker, args=(t,), daemon=True) for t in range(len(progs))]
    for th in ths:
        th.start()
    for th in ths:
        th.join(30)
    hung = any(th.is_alive() for th in ths)
    with T.cv:
        T.free = True
        T.cv.notify_all()
    LAST_STALL[0] = T.stalled_on
    return obs, errors, hung


def solo(prog):
    out, recs, inside = [], [], False
    for a in prog:
        if a == "B":
            out.append("U"); recs = []; inside = True
        elif a[0] == "R":
            out.append("REF"); recs.append(int(a[1:]))
        elif a == "E":
            out.append("BUILT:" + ",".join(map(str, recs))); inside = False
        elif a == "A":
            out.append("FAILED"); inside = False
        elif a[0] == "F":
            out.append("FN" + a[1:])
        else:
            out.append("DAG" + a[1:])      # D<d>: a call, X<d>: a run through an executor object: both return the DAG's value
    return out


def block(xid, sc, variant="o"):
    out = ["X %s %s" % (xid, variant)]
    for t, p in enumerate(sc["progs"]):
        out.append("T %d %s" % (t, " ".join(p)))
    out.append("S " + " ".join(map(str, sc["sched"])))
    out.append("E")
    return "\n".join(out) + "\n"


def concurrent_calls(k, seed):
    """k threads call one shared DAG at the same time (all runs provably in flight together: a node
    function waits on a barrier) with distinct arguments; returns the list of (arg, result)."""
    bar = threading.Barrier(k, timeout=20)

    def first(a):
        bar.wait()
        return ("first", a)

    def second(b, a):
        return ("second", b, a)
    first.__qualname__ = first.__name__ = "first"
    second.__qualname__ = second.__name__ = "second"
    xf, xs = xn(first), xn(second)

    def describe(a):
        return xs(xf(a), a)
    describe.__qualname__ = describe.__name__ = "shared"
    d = threadsafe_make_dag(describe, 2, False)
    res = {}

    def worker(t):
        try:
            res[t] = d(seed * 100 + t)
        except BaseException as e:  # noqa: BLE001
            res[t] = ("EXC", type(e).__name__)
    ths = [threading.Thread(target=worker, args=(t,), daemon=True) for t in range(k)]
    for th in ths:
        th.start()
    for th in ths:
        th.join(30)
    return [(seed * 100 + t, res.get(t)) for t in range(k)]


def cold_start_stress(trials, seed):
    """First uses of an instance raced against each other: k threads, released together by a barrier with the interpreter's
    switch interval at its minimum (the threads are preempted every few bytecodes), make the FIRST call of a fresh DAG — or
    the first call after RUN_DEBUG_NODES was toggled / the DAG reconfigured / through fresh executor objects — with distinct
    arguments.  Whatever a call prepares lazily on the instance, every thread must get its own result.
    Returns (runs, problems)."""
    import sys
    rng = random.Random("cold/%d" % seed)
    old = sys.getswitchinterval()
    old_dbg = twz_cfg.RUN_DEBUG_NODES
    problems, runs = [], 0

    def first(a):
        return ("first", a)

    def second(b, a):
        return ("second", b, a)

    def probe(b):
        return ("probe", b)
    for f_ in (first, second, probe):
        f_.__qualname__ = f_.__name__
    xf, xs, xp = xn(first), xn(second, priority=2), xn(probe, debug=True)

    def describe(a):
        f = xf(a)
        xp(f)
        return xs(f, a)
    describe.__qualname__ = describe.__name__ = "cold"
    sys.setswitchinterval(1e-6)
    try:
        for trial in range(trials):
            variant = rng.choice(["fresh", "fresh", "debug-toggled", "reconfigured", "executors", "mixed"])
            twz_cfg.RUN_DEBUG_NODES = False
            d = threadsafe_make_dag(describe, rng.choice([1, 2]), False)
            k = rng.randint(2, 4)
            if variant == "debug-toggled":
                d(0)
                twz_cfg.RUN_DEBUG_NODES = True
            elif variant == "reconfigured":
                d(0)
                d.config_from_dict({"nodes": {"first": {"priority": 3}}})
            bar = threading.Barrier(k, timeout=20)
            res = {}

            def worker(t, d=d, bar=bar, res=res, variant=variant):
                try:
                    bar.wait()
                    if variant == "executors" or (variant == "mixed" and t % 2):
                        res[t] = d.executor()(trial * 10 + t)
                    else:
                        res[t] = d(trial * 10 + t)
                except BaseException as e:  # noqa: BLE001
                    res[t] = ("EXC", type(e).__name__, str(e)[:100])
            ths = [threading.Thread(target=worker, args=(t,), daemon=True) for t in range(k)]
            for th in ths:
                th.start()
            for th in ths:
                th.join(30)
            runs += k
            for t in range(k):
                a = trial * 10 + t
                if res.get(t) != ("second", ("first", a), a):
                    problems.append(dict(variant=variant, threads=k, thread=t, arg=a, got=res.get(t)))
            if problems:
                break
    finally:
        sys.setswitchinterval(old)
        twz_cfg.RUN_DEBUG_NODES = old_dbg
    return runs, problems


def overlapping_builds(k, seed):
    """k threads build DAGs at the same time: the first pauses inside its describing function until all the
    others are blocked trying to start theirs.  Returns per thread the built table or the exception."""
    fns = [make_fn(i) for i in range(NF)]
    rng = random.Random(seed)
    plans = [[rng.randrange(NF) for _ in range(rng.randint(1, 3))] for _ in range(k)]
    inside = threading.Event()
    go = threading.Event()
    attempted = [threading.Event() for _ in range(k)]
    res = {}

    def worker(t):
        def describe():
            last = None
            for n_, f in enumerate(plans[t]):
                last = fns[f](5)
                if t == 0 and n_ == 0:
                    inside.set()
                    go.wait(10)       # pause inside the describing function
            return last
        describe.__name__ = describe.__qualname__ = "ob_%d" % t
        if t != 0:
            inside.wait(10)
        attempted[t].set()
        try:
            res[t] = ("BUILT", table_of(threadsafe_make_dag(describe, 1, False)))
        except BaseException as e:  # noqa: BLE001
            res[t] = ("EXC", type(e).__name__, str(e)[:120])
    ths = [threading.Thread(target=worker, args=(t,), daemon=True) for t in range(k)]
    for th in ths:
        th.start()
    for t in range(1, k):
        attempted[t].wait(10)
    import time
    time.sleep(0.05)      # let the others reach the lock
    go.set()
    for th in ths:
        th.join(30)
    return plans, res
