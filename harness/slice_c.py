"""Slice for compose (C19): real `DAG.compose` vs the Lean table-level model (lean/Drivers/Compose.lean)
and a Python oracle ("what the original pipeline would compute if the input nodes had produced these values")."""
import asyncio
import random
import warnings

import control  # noqa: F401
import networkx as nx
from tawazi import xn
from tawazi._dag.constructor import threadsafe_make_dag

from slice_h import enc, render


COUNTS = {}


def gen(rng, max_n=7):
    n = rng.randint(1, max_n)
    specs = []
    for i in range(n):
        preds = [j for j in range(i) if rng.random() < 0.4]
        flag = rng.randrange(i) if (i > 0 and rng.random() < 0.25) else None
        # the flag may be an indexed part of its producer's value (truthiness of a part differs from the whole's)
        flagidx = None
        if flag is not None and specs[flag]["ret"] == "t" and specs[flag]["flag"] is None and rng.random() < 0.5:
            fs = specs[flag]
            npos = sum(1 for j in fs["preds"] if not use_of(fs, j)["kw"]) + int(fs["const"]) + 2 * int(fs["usearg"])
            flagidx = rng.choice([0, 1, 1]) if npos >= 1 else 0    # element 0 is the node's name, 1 its first argument
        # how each predecessor is used: plain / indexed ([0]) and positional / by keyword
        uses = {}
        for k_, j in enumerate(preds):
            indexable = specs[j]["ret"] == "t" and specs[j]["flag"] is None
            uses[str(j)] = dict(idx0=indexable and rng.random() < 0.35, kw=("k%d" % k_) if rng.random() < 0.35 else None)
        is_setup = (not preds) and flag is None and rng.random() < 0.3
        specs.append(dict(preds=preds, uses=uses, flag=flag, flagidx=flagidx, usearg=(not is_setup) and rng.random() < 0.3,
                          const=rng.random() < 0.2, ret="t" if is_setup else ("z" if rng.random() < 0.15 else "t"),
                          tag=None, setup=is_setup))
    if rng.random() < 0.3 and n >= 2:
        a, b = rng.sample(range(n), 2)
        specs[a]["tag"] = specs[b]["tag"] = "shared"
    elif rng.random() < 0.3:
        specs[rng.randrange(n)]["tag"] = "solo"
    return dict(n=n, specs=specs, is_async=rng.random() < 0.25)


def make_node(i, s):
    def body(*a, **kw):
        COUNTS[i] = COUNTS.get(i, 0) + 1
        return 0 if s["ret"] == "z" else ("n%d" % i,) + tuple(a) + tuple((k, kw[k]) for k in kw)

    body.__name__ = body.__qualname__ = "n%d" % i
    kw = {}
    if s["tag"]:
        kw["tag"] = s["tag"]
    if s.get("setup"):
        kw["setup"] = True
    return xn(body, **kw)


def use_of(s, j):
    return (s.get("uses") or {}).get(str(j), dict(idx0=False, kw=None))


def pick(v, idx0):
    """value of a (possibly indexed) use; indexing something that is not a non-empty tuple raises"""
    return v[0] if idx0 else v


def build(sc):
    nodes = [make_node(i, s) for i, s in enumerate(sc["specs"])]

    def describe(x, y=7):
        vals = []
        for i, s in enumerate(sc["specs"]):
            args, kw = [], {}
            for j in s["preds"]:
                u = use_of(s, j)
                ref = vals[j][0] if u["idx0"] else vals[j]
                if u["kw"]:
                    kw[u["kw"]] = ref
                else:
                    args.append(ref)
            if s["const"]:
                args.append(7)
            if s["usearg"]:
                args += [x, y]
            if s["flag"] is not None:
                fv = vals[s["flag"]]
                kw["twz_active"] = fv if s.get("flagidx") is None else fv[s["flagidx"]]
            vals.append(nodes[i](*args, **kw))
        return tuple(vals)

    describe.__qualname__ = describe.__name__ = "describe"
    return threadsafe_make_dag(describe, 2, sc["is_async"])


def header(tid, sc):
    out = ["T %s %d" % (tid, sc["n"])]
    for s in sc["specs"]:
        toks = []
        for j in s["preds"]:
            u = use_of(s, j)
            toks.append(("%s:" % u["kw"] if u["kw"] else "") + str(j) + ("/0" if u["idx0"] else ""))
        out.append("N %s %d %d %s %s" % (s["ret"], int(s["usearg"]), int(s["const"]),
                                        "-" if s["flag"] is None else
                                        (str(s["flag"]) + ("" if s.get("flagidx") is None else "/%d" % s["flagidx"])),
                                        " ".join(toks)))
    return out


MISSING = object()


def oracle(sc, outs, ins, vals):
    """ins / outs are indices (n = x, n+1 = y).  Returns ("OK", values) | ("VALUEERROR", why)."""
    n = sc["n"]
    given = dict(zip(ins, vals))
    g = nx.DiGraph()
    g.add_nodes_from(range(n + 2))
    for i, s in enumerate(sc["specs"]):
        for p in s["preds"]:
            g.add_edge(p, i)
        if s["flag"] is not None:
            g.add_edge(s["flag"], i)
        if s["usearg"]:
            g.add_edge(n, i)
            g.add_edge(n + 1, i)
    for a in ins:
        for b in ins:
            if a != b and a in nx.ancestors(g, b):
                return ("VALUEERROR", "input-depends-on-input")
    memo = {}

    def val(i):
        if i in given:
            return given[i]
        if i == n:
            raise KeyError("x")
        if i == n + 1:
            return 7
        if i in memo:
            return memo[i]
        s = sc["specs"][i]
        raw = {j: val(j) for j in s["preds"]}        # the composed DAG contains every dependency ...
        if s["flag"] is None:
            act = True
        else:
            fv = val(s["flag"])                          # ... including the flag's producer
            act = bool(fv if s.get("flagidx") is None else fv[s["flagidx"]])
        args, kws = [], []
        if act:
            for j in s["preds"]:
                u = use_of(s, j)
                x = pick(raw[j], u["idx0"])
                if u["kw"]:
                    kws.append((u["kw"], x))
                else:
                    args.append(x)
        if s["const"]:
            args.append(7)
        if s["usearg"]:
            args += [val(n), val(n + 1)]
        if not act:
            r = None
        else:
            r = 0 if s["ret"] == "z" else ("n%d" % i,) + tuple(args) + tuple(kws)
        memo[i] = r
        return r
    try:
        return ("OK", [val(o) for o in outs])
    except KeyError:
        return ("VALUEERROR", "missing-input")
    except (TypeError, IndexError, KeyError):
        return ("RAISES", "indexing a value that cannot be indexed")


def run_sync(x):
    return asyncio.run(x) if asyncio.iscoroutine(x) else x


def real_compose(sc, d, outs_alias, ins_alias, vals, single):
    warnings.simplefilter("ignore")
    try:
        comp = d.compose("composed", ins_alias, outs_alias[0] if single else outs_alias)
    except ValueError as e:
        return ("VALUEERROR", str(e)[:120])
    except BaseException as e:  # noqa: BLE001
        return ("EXC-COMPOSE", type(e).__name__, str(e)[:160])
    try:
        r = run_sync(comp(*vals))
    except BaseException as e:  # noqa: BLE001
        return ("EXC-RUN", type(e).__name__, str(e)[:160])
    return ("OK", [r] if single else list(r))
