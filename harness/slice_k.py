"""Slice K: dependency tables handed to the DAG constructor directly (hand-built ExecNodes, as tests/test_build.py and
tests/test_edge_cases_dag.py::test_circular_deps do), cyclic ones included.

C09's hypothesis "acyclic" is what the constructor enforces (DiGraphEx.from_exec_nodes: find_cycle -> NetworkXUnfeasible):
the model's build check is TM.acyclicB (sound + complete for Acyclic, every cycle refused: TM/Cycle.lean).  Every table is
given to the real constructor and to the model; accepted tables are then run (scripted completion orders) and must
terminate with the values of the sequential semantics; a cyclic table that is ACCEPTED is a counterexample to C09 by
itself (the scheduler has no progress measure on it) and the hang is demonstrated in a subprocess that can be killed."""
import json
import os
import random
import subprocess
import sys

import networkx as nx

import common
import control


def gen_table(rng, max_n=6):
    n = rng.randint(1, max_n)
    perm = list(range(n))
    rng.shuffle(perm)             # a hidden order; acyclic edges go forward in it
    rank = {v: i for i, v in enumerate(perm)}
    dens = rng.choice([0.2, 0.35, 0.5])
    preds = [[] for _ in range(n)]
    for a in range(n):
        for b in range(n):
            if a != b and rank[a] < rank[b] and rng.random() < dens:
                preds[b].append(a)
    shape = rng.choice(["acyclic", "acyclic", "back-edge", "terminal-cycle", "self-loop", "two-cycle", "isolated-cycle"])
    if shape == "back-edge" and n >= 2:
        a, b = sorted(rng.sample(range(n), 2), key=lambda v: rank[v])
        preds[a].append(b)                      # b (later) -> a (earlier): a cycle iff a reaches b
    elif shape == "terminal-cycle" and n >= 2:
        # a cycle at the END of the hidden order from which no node outside the cycle is reachable
        k = rng.randint(2, min(3, n))
        cyc = perm[-k:]
        for v in cyc:
            preds[v] = [p for p in preds[v] if p not in cyc]
        for i, v in enumerate(cyc):
            preds[v].append(cyc[i - 1])
    elif shape == "self-loop":
        v = rng.randrange(n)
        preds[v].append(v)
    elif shape == "two-cycle" and n >= 2:
        a, b = rng.sample(range(n), 2)
        preds[a].append(b)
        preds[b].append(a)
    elif shape == "isolated-cycle" and n >= 2:
        # a cycle with no edge to or from the rest: with leaves elsewhere, or as the whole table
        k = rng.randint(2, min(3, n))
        cyc = rng.sample(range(n), k)
        for v in range(n):
            preds[v] = [] if v in cyc else [p for p in preds[v] if p not in cyc]
        for i, v in enumerate(cyc):
            preds[v].append(cyc[i - 1])
    preds = [sorted(set(p)) for p in preds]
    order = list(range(n))
    rng.shuffle(order)            # the order in which the node table lists the nodes
    return dict(n=n, preds=preds, order=order, shape=shape, prio=[rng.choice([0, 1, 2, 5]) for _ in range(n)],
                seq=[rng.random() < 0.2 for _ in range(n)], maxc=rng.randint(1, 3), is_async=rng.random() < 0.3,
                res=[rng.choice(["t", "t", "a", "m"]) for _ in range(n)])


def is_cyclic(tb):
    g = nx.DiGraph()
    g.add_nodes_from(range(tb["n"]))
    for v, ps in enumerate(tb["preds"]):
        for p in ps:
            g.add_edge(p, v)
    return not nx.is_directed_acyclic_graph(g)


def block(qid, tb):
    out = ["Q %s %d" % (qid, tb["n"])]
    for v in range(tb["n"]):
        out.append("N %d 0 %s" % (tb["prio"][v], " ".join(map(str, tb["preds"][v]))))
    out.append("cyc")
    out.append("E")
    return "\n".join(out) + "\n"


BUILD_SRC = r'''
def build(tb):
    from tawazi import DAG, AsyncDAG, Resource
    from tawazi.node import ExecNode, UsageExecNode
    from tawazi._helpers import StrictDict
    RES = dict(t=Resource.thread, a=Resource.async_thread, m=Resource.main_thread)
    def mk(v):
        def body(*args):
            return ("k%d" % v,) + tuple(args)
        body.__name__ = body.__qualname__ = "k%d" % v
        return body
    nodes = {}
    for v in tb["order"]:
        nodes["k%d" % v] = ExecNode(id_="k%d" % v, exec_function=mk(v), args=[UsageExecNode("k%d" % p) for p in tb["preds"][v]],
                                    priority=tb["prio"][v], is_sequential=tb["seq"][v], resource=RES[tb["res"][v]])
    cls = AsyncDAG if tb["is_async"] else DAG
    return cls(qualname="handbuilt", results=StrictDict({}), exec_nodes=StrictDict(nodes), input_uxns=[],
               return_uxns=tuple(UsageExecNode("k%d" % v) for v in range(tb["n"])), max_concurrency=tb["maxc"])
'''
exec(BUILD_SRC)   # noqa: S102  defines build(); the same text is what the hang demonstration runs in a subprocess


def construct(tb):
    try:
        return "ACCEPT", build(tb)    # noqa: F821
    except BaseException as e:  # noqa: BLE001
        if type(e).__name__ == "NetworkXUnfeasible":
            return "REFUSE", None
        return "EXC:" + type(e).__name__, None


def want_values(tb):
    vals = {}
    g = nx.DiGraph()
    g.add_nodes_from(range(tb["n"]))
    for v, ps in enumerate(tb["preds"]):
        for p in ps:
            g.add_edge(p, v)
    for v in nx.topological_sort(g):
        vals[v] = ("k%d" % v,) + tuple(vals[p] for p in tb["preds"][v])
    return tuple(vals[v] for v in range(tb["n"]))


def demonstrate_hang(tb, timeout=8):
    """Run the accepted cyclic table in a subprocess: returns 'hang', 'returned', or 'raised:<type>'."""
    src = BUILD_SRC + "\nimport json, sys, asyncio\ntb = json.loads(sys.argv[1])\nd = build(tb)\n" \
        "try:\n    r = d()\n    r = asyncio.run(r) if asyncio.iscoroutine(r) else r\n    print('returned')\n" \
        "except BaseException as e:\n    print('raised:' + type(e).__name__)\n"
    try:
        p = subprocess.run([sys.executable, "-c", src, json.dumps(tb)], capture_output=True, text=True, timeout=timeout,
                           env=dict(os.environ))
        return (p.stdout.strip().splitlines() or ["raised:?" + p.stderr[-200:]])[-1]
    except subprocess.TimeoutExpired:
        return "hang"


def run(pid, tier, seed, count):
    import asyncio
    Failure = common.Failure
    rng0 = random.Random("%s/k/%d" % (pid, seed))
    failures, blocks, metas = [], [], []
    stats = dict(tables=0, cyclic=0, accepted=0, refused=0, runs=0, hang_demonstrations=0, shapes={})
    for k in range(count):
        tb = gen_table(random.Random(rng0.randrange(1 << 62)))
        stats["tables"] += 1
        stats["shapes"][tb["shape"]] = stats["shapes"].get(tb["shape"], 0) + 1
        cyc = is_cyclic(tb)
        stats["cyclic"] += cyc
        real, d = construct(tb)
        blocks.append(block("k%d" % k, tb))
        metas.append(("k%d" % k, tb, real, cyc))
        if real == "ACCEPT":
            stats["accepted"] += 1
            if cyc:
                how = "not-run"
                if stats["hang_demonstrations"] < 2:
                    stats["hang_demonstrations"] += 1
                    how = demonstrate_hang(tb)
                failures.append(Failure("counterexample", "cyclic-table-accepted", tb,
                                        dict(calling_it=how, note="the constructor accepted a dependency table with a cycle; "
                                             "C09_bound needs Acyclic, TM.acyclicB_false_of_cycle refuses it"), slice_="K"))
                continue
            # an accepted (acyclic) table must run to completion with the sequential values, whatever the completion order
            stats["runs"] += 1
            R, outc = control.run_controlled(lambda d=d: asyncio.run(d()) if tb["is_async"] else d(),
                                             control.Script(rng=random.Random(rng0.randrange(1 << 30))), timeout=15)
            if outc[0] == "hang":
                failures.append(Failure("counterexample", "hang", tb, dict(where="hand-built acyclic table"), slice_="K"))
                break
            if outc[0] != "ok" or outc[1] != want_values(tb):
                kind = "counterexample" if outc[0] != "ok" else "correspondence"
                failures.append(Failure(kind, "handbuilt-table-run-differs", tb, dict(real=repr(outc)[:300], want=repr(want_values(tb))[:300]),
                                        slice_="K"))
        elif real == "REFUSE":
            stats["refused"] += 1
        else:
            failures.append(Failure("correspondence", "K-constructor-raised:" + real, tb, dict(real=real), slice_="K"))
    out = common.run_driver("Graph", "".join(blocks))
    ans = {l.split()[0]: l.split()[1:] for l in out}
    for qid, tb, real, cyc in metas:
        a = ans.get(qid)
        if a is None or a[0] != "CYC":
            raise common.HarnessError("graph driver did not answer the cyc query of %s" % qid)
        model = a[1]
        if (model == "REFUSE") != cyc:
            raise common.HarnessError("TM.acyclicB disagrees with networkx on %r" % (tb,))
        if real in ("ACCEPT", "REFUSE") and real != model and not (real == "ACCEPT" and cyc):
            failures.append(Failure("correspondence", "K-build-check(model %s, constructor %s)" % (model, real), tb,
                                    dict(model=model, real=real), slice_="K"))
    return stats, failures


# ---------------------------------------------------------------------------------------------
# C20: a DAG whose node table is NOT in dependency order (hand-built, or returned by compose) called inside a DAG
# ---------------------------------------------------------------------------------------------
def run_nested(pid, tier, seed, count, tables=None):
    """Acyclic tables only.  (1) the hand-built DAG (random listing order) and (2) a DAG composed from the traced
    version of the same table (compose keeps its nodes in set order) are each called inside an outer DAG; the outer
    DAG must build and return what the inner one returns when called directly (= the sequential values)."""
    import asyncio
    import warnings
    from tawazi import xn
    from tawazi._dag.constructor import threadsafe_make_dag
    Failure = common.Failure
    rng0 = random.Random("%s/kn/%d" % (pid, seed))
    failures = []
    stats = dict(nested_handbuilt=0, nested_composed=0, listing_order_not_topological=0)

    def nest_and_run(inner, tb, what):
        def outer():
            return inner()
        outer.__name__ = outer.__qualname__ = "outer_of_" + what
        try:
            d = threadsafe_make_dag(outer, tb["maxc"], tb["is_async"])
        except BaseException as e:  # noqa: BLE001
            failures.append(Failure("counterexample", "nested-%s-dag-build-raised:%s" % (what, type(e).__name__), tb,
                                    dict(message=str(e)[:200]), slice_="K"))
            return None
        R, outc = control.run_controlled(lambda: asyncio.run(d()) if tb["is_async"] else d(),
                                         control.Script(rng=random.Random(rng0.randrange(1 << 30))), timeout=15)
        return outc

    for k in range(count if tables is None else len(tables)):
        tb = gen_table(random.Random(rng0.randrange(1 << 62))) if tables is None else tables[k]
        if is_cyclic(tb):
            continue
        want = want_values(tb)
        g = nx.DiGraph()
        g.add_nodes_from(range(tb["n"]))
        for v, ps in enumerate(tb["preds"]):
            for p in ps:
                g.add_edge(p, v)
        posn = {v: i for i, v in enumerate(tb["order"])}
        if any(posn[p] > posn[v] for v, ps in enumerate(tb["preds"]) for p in ps):
            stats["listing_order_not_topological"] += 1
        # (1) hand-built
        real, hb = construct(dict(tb, is_async=False))
        if real == "ACCEPT":
            stats["nested_handbuilt"] += 1
            outc = nest_and_run(hb, tb, "handbuilt")
            if outc is not None and (outc[0] != "ok" or tuple(outc[1]) != want):
                failures.append(Failure("counterexample", "nested-handbuilt-dag-differs-from-inlining", tb,
                                        dict(real=repr(outc)[:300], want=repr(want)[:300]), slice_="K"))
        # (2) composed from the traced version
        topo = list(nx.topological_sort(g))

        def mk(v):
            def body(*args):
                return ("k%d" % v,) + tuple(args)
            body.__name__ = body.__qualname__ = "k%d" % v
            return xn(body)
        fns = {v: mk(v) for v in range(tb["n"])}

        def traced():
            vals = {}
            for v in topo:
                vals[v] = fns[v](*[vals[p] for p in tb["preds"][v]])
            return tuple(vals[v] for v in range(tb["n"]))
        traced.__name__ = traced.__qualname__ = "traced"
        try:
            flat = threadsafe_make_dag(traced, 1, False)
            with warnings.catch_warnings():
                warnings.simplefilter("ignore")
                comp = flat.compose("composed", [], ["k%d" % v for v in range(tb["n"])])
        except BaseException as e:  # noqa: BLE001
            failures.append(Failure("correspondence", "K-compose-raised:" + type(e).__name__, tb, dict(message=str(e)[:200]), slice_="K"))
            continue
        stats["nested_composed"] += 1
        outc = nest_and_run(comp, tb, "composed")
        if outc is not None and (outc[0] != "ok" or tuple(outc[1]) != want):
            failures.append(Failure("counterexample", "nested-composed-dag-differs-from-inlining", tb,
                                    dict(real=repr(outc)[:300], want=repr(want)[:300]), slice_="K"))
    return stats, failures
