"""Subprocess worker: compound-priority tables and max_concurrency=1 execution orders for a seeded
list of graph scenarios, printed as JSON lines (run under several PYTHONHASHSEEDs and compared)."""
import json
import os
import random
import sys

sys.path.insert(0, os.path.dirname(os.path.abspath(__file__)))
import slice_g as G  # noqa: E402

ORDER = []


def main():
    seed, count = int(sys.argv[1]), int(sys.argv[2])
    base = random.Random("gw/%d" % seed)
    for k in range(count):
        rng = random.Random(base.randrange(1 << 62))
        setup_run = rng.random() < 0.25
        sc = G.gen(rng, with_debug=False, with_setup=setup_run, with_tags=False)
        sc["is_async"] = False
        if setup_run:
            # an explicit setup() run: the setup nodes execute, ranked by their compound priorities in the WHOLE DAG
            sc["op"] = "setup"
            for s_ in sc["specs"]:          # several setup nodes ready at once, others waiting for them
                s_["setup"] = all(sc["specs"][p_]["setup"] for p_ in s_["preds"]) and rng.random() < 0.8
        # distinct priorities -> make ties unlikely; the comparer only uses tie-free cases for order
        for i, s in enumerate(sc["specs"]):
            s["prio"] = rng.choice([1, 2, 3, 5, 7, 11, 13, 17, 19, 23]) * (10 ** (i % 3))
        if rng.random() < 0.5:
            # resources do not change the order either: with max_concurrency=1 a main-thread or async-thread node waits
            # for the pool like any other
            for s_ in sc["specs"]:
                s_["res"] = rng.choice(["t", "t", "m", "a"])
        d, _ = G.build(sc, inst=("w", k), maxc=1)
        if rng.random() < 0.5:
            # a history: (maybe) one call under the build-time priorities, then a reconfiguration that changes the
            # ranking, then the observed call: the order must be the one of the NEW compound priorities
            if rng.random() < 0.7 and not setup_run:
                d()
            newp = {}
            for i in rng.sample(range(sc["n"]), rng.randint(1, min(3, sc["n"]))):
                newp[i] = rng.choice([29, 31, 37, 41, 43]) * (10 ** rng.randint(0, 4))
            d.config_from_dict({"nodes": {"n%d" % i: {"priority": p_} for i, p_ in newp.items()}})
            for i, p_ in newp.items():
                sc["specs"][i]["prio"] = p_
            sc["reconfigured"] = sorted(newp)
        table = {x: d.graph_ids.compound_priority[x] for x in d.exec_nodes}
        G.COUNTS.clear()
        order = []
        orig = dict(G.COUNTS)
        # execution order = order in which counters appear
        if sc.get("op") == "setup":
            d.setup()
        else:
            d()
        order = [i for (_inst, i) in G.COUNTS.keys()]
        print(json.dumps(dict(k=k, sc=sc, table=table, order=order)))


if __name__ == "__main__":
    main()
