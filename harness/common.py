"""Shared infrastructure of the checks: paths, Lean build/audit/drivers, evidence, verdicts."""
import hashlib
import json
import os
import re
import subprocess
import sys
import time

VERIF = os.path.dirname(os.path.dirname(os.path.abspath(__file__)))
LEAN = os.path.join(VERIF, "lean")
REPO = os.environ.get("TAWAZI_REPO", "/repo")
ALLOWED_AXIOMS = {"propext", "Classical.choice", "Quot.sound"}
FORBIDDEN = re.compile(r"\b(sorry|admit|native_decide|bv_decide|implemented_by)\b|^axiom |unsafe |maxHeartbeats 0")

TRUSTED_BASE = [
    "Lean 4.33.0 kernel; axioms allowed in property theorems: propext, Classical.choice, Quot.sound",
    "hand-written Lean model of tawazi (TM scheduler LTS, GM graph layer, VM value/tracer/history layer, TH threads)",
    "correspondence harness (Python) and Lean line-protocol drivers (parsers unverified; TM.next_sound proved)",
    "CPython, concurrent.futures, asyncio, networkx, pickle: behaviour assumed as documented",
]


class HarnessError(Exception):
    """Internal failure of the machinery (exit code 2, never a VIOLATION)."""


def seed_from_env():
    try:
        return int(os.environ.get("VERIF_SEED", "0"))
    except ValueError:
        return 0


# ---------------------------------------------------------------------------------------------
# Lean side
# ---------------------------------------------------------------------------------------------
_built = False


def lake_build():
    """Build the Lean project; returns (ok, log)."""
    global _built
    if _built:
        return True, ""
    p = subprocess.run(["lake", "build"], cwd=LEAN, capture_output=True, text=True, timeout=3000)
    ok = p.returncode == 0
    _built = ok
    return ok, (p.stdout + p.stderr)[-4000:]


def lean_sources():
    out = []
    for root, _dirs, files in os.walk(LEAN):
        if ".lake" in root:
            continue
        for f in files:
            if f.endswith(".lean"):
                out.append(os.path.join(root, f))
    return sorted(out)


def strip_comments(text):
    # remove /- ... -/ (nested not used in this project beyond one level) and -- line comments
    text = re.sub(r"/-.*?-/", "", text, flags=re.S)
    return re.sub(r"--.*", "", text)


def grep_forbidden():
    hits = []
    for path in lean_sources():
        body = strip_comments(open(path).read())
        for ln, line in enumerate(body.splitlines(), 1):
            if FORBIDDEN.search(line):
                hits.append("%s: %s" % (os.path.relpath(path, LEAN), line.strip()[:100]))
    return hits


def print_axioms(theorems, imports=("Props",)):
    """Return {theorem: set(axioms)} or {theorem: None} when the name does not exist/compile."""
    src = "".join("import %s\n" % m for m in imports) + "".join("#print axioms %s\n" % t for t in theorems)
    tmp = os.path.join(LEAN, ".lake", "audit_%d.lean" % os.getpid())
    os.makedirs(os.path.dirname(tmp), exist_ok=True)
    with open(tmp, "w") as f:
        f.write(src)
    try:
        p = subprocess.run(["lake", "env", "lean", tmp], cwd=LEAN, capture_output=True, text=True, timeout=1200)
    finally:
        try:
            os.remove(tmp)
        except OSError:
            pass
    out = p.stdout + p.stderr
    res = {t: None for t in theorems}
    for m in re.finditer(r"'([^']+)' depends on axioms: \[([^\]]*)\]", out, flags=re.S):
        res[m.group(1)] = {a.strip() for a in m.group(2).replace("\n", " ").split(",") if a.strip()}
    for m in re.finditer(r"'([^']+)' does not depend on any axioms", out):
        res[m.group(1)] = set()
    return res, out


def leanchecker():
    """Independent re-check of the compiled .olean files (thorough tier)."""
    p = subprocess.run(["lake", "env", "leanchecker", "Props", "TM", "GM", "VM", "VD", "TH"], cwd=LEAN,
                       capture_output=True, text=True, timeout=3000)
    return p.returncode == 0, (p.stdout + p.stderr)[-1500:]


def audit(theorems, tier="quick"):
    """Proof obligations of one property.  Returns dict with obligations/discharged and problems."""
    problems = []
    ok, log = lake_build()
    if not ok:
        problems.append("lake build failed: " + log[-1500:])
        return dict(obligations=len(theorems), discharged=0, problems=problems, axioms={})
    hits = grep_forbidden()
    if hits:
        problems.append("forbidden construct in Lean sources: " + "; ".join(hits[:5]))
    if tier == "thorough":
        ok, log = leanchecker()
        if not ok:
            problems.append("leanchecker rejected the compiled modules: " + log)
            hits = hits or ["leanchecker"]
    axs, raw = print_axioms(theorems)
    discharged = 0
    table = {}
    for t in theorems:
        a = axs.get(t)
        if a is None:
            problems.append("theorem %s missing or not compiling" % t)
            table[t] = None
        elif not a <= ALLOWED_AXIOMS:
            problems.append("theorem %s depends on %s" % (t, sorted(a - ALLOWED_AXIOMS)))
            table[t] = sorted(a)
        else:
            table[t] = sorted(a)
            if not hits:
                discharged += 1
    return dict(obligations=len(theorems), discharged=discharged, problems=problems, axioms=table)


def run_driver(name, text, timeout=1800):
    """Feed `text` to lean/Drivers/<name>.lean, return stdout lines."""
    ok, log = lake_build()
    if not ok:
        raise HarnessError("lake build failed: " + log[-1500:])
    p = subprocess.run(["lake", "env", "lean", "--run", os.path.join("Drivers", name + ".lean")],
                       cwd=LEAN, input=text, capture_output=True, text=True, timeout=timeout)
    if p.returncode != 0:
        raise HarnessError("driver %s failed: %s" % (name, (p.stderr or p.stdout)[-2000:]))
    return [l for l in p.stdout.splitlines() if l.strip()]


# ---------------------------------------------------------------------------------------------
# findings, replays, evidence
# ---------------------------------------------------------------------------------------------
def load_known():
    path = os.path.join(VERIF, "known_findings.json")
    if not os.path.exists(path):
        return []
    return json.load(open(path))


def jsonable(x):
    if isinstance(x, dict):
        return {str(k): jsonable(v) for k, v in x.items()}
    if isinstance(x, (list, tuple, set, frozenset)):
        return [jsonable(v) for v in (sorted(x, key=repr) if isinstance(x, (set, frozenset)) else x)]
    if isinstance(x, (str, int, float, bool)) or x is None:
        return x
    return repr(x)


def write_replay(pid, payload):
    os.makedirs(os.path.join(VERIF, "replays"), exist_ok=True)
    body = json.dumps(jsonable(payload), indent=1, sort_keys=True)
    h = hashlib.sha1(body.encode()).hexdigest()[:10]
    path = os.path.join(VERIF, "replays", "%s-%s.json" % (pid, h))
    with open(path, "w") as f:
        f.write(body)
    return path


class Failure:
    """One thing that went wrong for a property.

    kind: "counterexample" (a monitor saw the property fail on the real code on this input)
          "correspondence" (model and code disagree; not by itself a violation)
          "proof" (a proof obligation no longer checks)"""

    def __init__(self, kind, signature, scenario, detail, slice_=None):
        self.kind = kind
        self.signature = signature
        self.scenario = scenario
        self.detail = detail
        self.slice = slice_

    def to_json(self):
        return dict(kind=self.kind, signature=self.signature, scenario=jsonable(self.scenario),
                    detail=jsonable(self.detail), slice=self.slice)


def finish(pid, tier, seed, t0, proof, coverage, failures, assumptions, searcher=None, level="proof"):
    """Decide the verdict, write evidence, print the protocol lines, return the exit code."""
    known = [k for k in load_known() if k.get("property") == pid]
    known_sigs = {k["signature"]: k for k in known if k.get("status") == "known"}
    lines = []
    violations = 0
    reported = set()
    counter = [f for f in failures if f.kind == "counterexample"]
    corr = [f for f in failures if f.kind != "counterexample"]
    known_seen = {}
    for f in counter:
        if f.signature in known_sigs:
            known_seen.setdefault(f.signature, f)
            continue
        if f.signature in reported:
            continue
        reported.add(f.signature)
        path = write_replay(pid, dict(f.to_json(), property=pid, seed=seed, tier=tier,
                                      how_to_rerun="python3 harness/check.py %s --replay <this file>" % pid))
        lines.append("VIOLATION property=%s replay=%s" % (pid, os.path.relpath(path, VERIF)))
        violations += 1
    unexplained = []
    if not counter or all(f.signature in known_sigs for f in counter):
        unexplained = corr
    else:
        # a concrete failing input exists; broken correspondences are explained by it only if they
        # come from the same slice, otherwise still report them
        slices_with_cex = {f.slice for f in counter if f.signature not in known_sigs}
        unexplained = [f for f in corr if f.slice not in slices_with_cex]
    if unexplained and searcher is not None:
        found = searcher(unexplained)
        for f in found:
            if f.signature in known_sigs:
                known_seen.setdefault(f.signature, f)
            elif f.signature not in reported:
                reported.add(f.signature)
                path = write_replay(pid, dict(f.to_json(), property=pid, seed=seed, tier=tier))
                lines.append("VIOLATION property=%s replay=%s" % (pid, os.path.relpath(path, VERIF)))
                violations += 1
        if any(f.signature not in known_sigs for f in found):
            unexplained = []
    if unexplained:
        # correspondences that only fail on inputs exhibiting a known finding are explained by it
        still = [f for f in unexplained if not (f.detail or {}).get("explained_by_known")]
        if still:
            f0 = still[0]
            path = write_replay(pid, dict(property=pid, kind="unproved", seed=seed, tier=tier,
                                          theorem_or_correspondence=f0.signature,
                                          broken=[f.to_json() for f in still[:5]], count=len(still)))
            lines.append("VIOLATION property=%s replay=%s no-failing-input-found" % (pid, os.path.relpath(path, VERIF)))
            violations += 1
    for sig, f in known_seen.items():
        lines.append("KNOWN-FINDING: property=%s %s: %s" % (pid, sig, known_sigs[sig].get("what_fails", "")))
    cov = dict(coverage)
    cov.update(obligations=proof["obligations"], discharged=proof["discharged"],
               checker_cmd="cd lean && lake build && lake env lean <#print axioms of the theorems listed in coverage.theorems>",
               trusted_base=TRUSTED_BASE, theorems=proof["axioms"])
    if proof["problems"]:
        cov["proof_problems"] = proof["problems"]
    ev = dict(property_id=pid, tier=tier, seed=seed, level=level, coverage=jsonable(cov),
              assumptions=assumptions, wall_s=round(time.time() - t0, 2), violations=violations,
              known_findings_seen=sorted(known_seen))
    if not os.environ.get("VERIF_NO_EVIDENCE"):     # regression runs against seeded changes leave the evidence alone
        os.makedirs(os.path.join(VERIF, "evidence"), exist_ok=True)
        with open(os.path.join(VERIF, "evidence", pid + ".json"), "w") as f:
            json.dump(ev, f, indent=1, sort_keys=True)
    for l in lines:
        print(l)
    sys.stdout.flush()
    return 1 if violations else 0
